#!/bin/sh
# Offline setup: build the Lean model + driver, and pre-build both library flavours for /repo's tree.
set -e
cd "$(dirname "$0")"
mkdir -p .cache evidence replay
python3 translate/terminal_to_lean.py --out lean/MeddlyModel/Gen/Terminal.lean --repo /repo || true
python3 translate/levels_to_lean.py --out lean/MeddlyModel/Gen/Levels.lean --repo /repo || true
python3 translate/hashstream_to_lean.py --out lean/MeddlyModel/Gen/HashStream.lean --repo /repo || true
python3 translate/counterarray_to_lean.py --out lean/MeddlyModel/Gen/CounterArray.lean --repo /repo || true
python3 translate/nodeheaders_to_lean.py --out lean/MeddlyModel/Gen/NodeHeaders.lean --repo /repo || true
(cd lean && lake build)
python3 vlib/build.py plain asan
