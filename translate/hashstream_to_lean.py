#!/usr/bin/env python3
"""
hashstream_to_lean.py -- translate `class MEDDLY::hash_stream` (src/hash_stream.h) into Lean 4:

    rot(x,k)  mix(a,b,c)  final_mix(a,b,c)            static helpers (reference parameters -> returned tuple)
    start(init)  start()  push(v)  push(v1,v2)  push(v1,v2,v3)  finish()
                                                     member functions over  State = { z0 z1 z2 : UInt32, slot : Int }

    python3 translate/hashstream_to_lean.py --out lean/MeddlyModel/Gen/HashStream.lean [--repo /repo] [-I DIR]...

How: clang++-14's typed JSON AST of a probe file that includes hash_stream.h is walked by the symbolic
executor of translate/cxx2lean.py.  `unsigned` is `UInt32` (arithmetic modulo 2^32 on both sides), `int` is
`Int` with explicit side conditions.  Where a side condition is not decided at translation time, the function
continues only under the condition and is `.error .ub` otherwise (`slot--` leaving the int range, `z[slot]`
outside 0..2); `throw MEDDLY::error(..)` is `.error .thrown`.  The `switch (slot)` of the two- and
three-argument push is an if-chain over its case labels; the statements from the selected label on are executed
with fall-through until `return` / `break`, so a removed `return` changes the generated function.  The member
functions `mix()` / `final_mix()` are executed inline: which of z[2], z[1], z[0] they pass for a, b, c is read from
their bodies.  Every call `rot(c, 4)` is re-executed with its constant argument: shift amounts outside 0..31 are
a hard error at translation time.

Fails loudly (exit 2, names the construct and the source line, output untouched) on anything outside the
subset described in cxx2lean.py; writes the output only when its content changed.
"""
import argparse
import os
import sys

sys.path.insert(0, os.path.dirname(os.path.abspath(__file__)))
from cxx2lean import (Unsupported, die, where, run_clang, parse_docs, find_header, write_if_changed,  # noqa: E402
                      T_INT, T_UINT, T_VOID, type_of_json, Val, Exec, Fn, Callee, tree_defined, emit_tree, has_leaf)

PROG = "hashstream_to_lean"
PROBE = '#include "hash_stream.h"\n'
NOT_TRANSLATED = ("raw_hash", "raw_hash64", "finish64", "push(const void*, size_t)")


def body_of(d):
    b = [c for c in d.get("inner", []) if c.get("kind") == "CompoundStmt"]
    return b[0] if b else None


def params_of(d, qual):
    ps = []
    for p in d.get("inner", []):
        if p.get("kind") == "ParmVarDecl":
            ty, ref = type_of_json(p["type"], "parameter of %s at %s" % (qual, where(p)))
            if any("Comment" not in c.get("kind", "") for c in p.get("inner", [])):
                die("%s: parameter `%s` has a default argument" % (qual, p.get("name")))
            ps.append((p["name"], ty, ref))
    return ps


def translate(docs, header):
    cls = [d for d in docs if d.get("kind") == "CXXRecordDecl" and d.get("name") == "hash_stream" and d.get("completeDefinition")]
    if len(cls) != 1:
        die("expected exactly one definition of class MEDDLY::hash_stream, found %d" % len(cls))
    cls = cls[0]
    methods, fields = {}, {}
    for m in cls.get("inner", []):
        if m.get("kind") == "CXXMethodDecl" and body_of(m) is not None:
            methods.setdefault((m.get("name"), m["type"]["qualType"]), []).append(m)
        elif m.get("kind") == "FieldDecl":
            fields[m.get("name")] = m["type"].get("desugaredQualType", m["type"]["qualType"])
    if fields != {"z": "unsigned int[3]", "slot": "int"}:
        die("the data members of hash_stream are not `unsigned z[3]; int slot;` any more: %s" % fields)

    def method(name, sig):
        hits = methods.get((name, sig), [])
        if len(hits) != 1:
            die("expected exactly one definition of hash_stream::%s with type `%s`, found %d" % (name, sig, len(hits)))
        return hits[0]

    ex = Exec(arrays={"z": 3})
    out, index, rot_calls = [], [], []
    R3 = "void (unsigned int &, unsigned int &, unsigned int &)"

    def header_lines(doc, qual, d, f):
        lines = ["/-- %s" % doc, "    source: %s, %s" % (qual, where(d))]
        for s in f.notes:
            lines.append("    * " + s)
        lines.append("-/")
        return lines

    def must_be_total(f, tree):
        if has_leaf(tree, ("ub", "throw")):
            die("%s: has side conditions that are not decided at translation time, or throws: %s"
                % (f.name, tree_defined(tree)))

    # ---- rot: pure, with a `_defined` predicate ------------------------------------------------
    d = method("rot", "unsigned int (unsigned int, int)")
    if d.get("storageClass") != "static":
        die("hash_stream::rot is not static any more")
    ps = params_of(d, "rot")
    if [(t, r) for _, t, r in ps] != [(T_UINT, False), (T_INT, False)]:
        die("hash_stream::rot: unexpected parameter list")
    f = Fn("rot (MEDDLY::hash_stream::rot)", "pure")
    f.reserved = {p[0] for p in ps}
    tree = ex.run(f, [body_of(d)], {("var", n): Val(t, n, None, True) for n, t, _ in ps})
    if tree[0] == "assert" or tree[0] == "ret":
        t = tree
        while t[0] == "assert":
            t = t[3]
        if t[0] != "ret" or t[1] is None or t[1].ty != T_UINT:
            die("rot: unexpected shape (a single return of an unsigned expected)")
        value = t[1].lean
    else:
        die("rot: unexpected shape `%s` (a single return statement expected)" % tree[0])
    binder = " ".join("(%s : %s)" % (n, t.lean) for n, t, _ in ps)
    lines = header_lines("`hash_stream::rot(x, k)`; C++ meaning only under `rot_defined x k` (0 < k < 32 for the current text).",
                         "MEDDLY::hash_stream::rot", d, f)
    lines += ["def rot %s : UInt32 :=" % binder, "  " + value, "",
              "/-- the shift amounts of `rot` are in 0..31 and `32-(k)` does not overflow -/",
              "def rot_defined %s : Prop :=" % binder, "  " + tree_defined(tree), "",
              "instance %s : Decidable (rot_defined %s) := by unfold rot_defined; exact inferInstance"
              % (binder, " ".join(p[0] for p in ps))]
    out.append("\n".join(lines))
    c = Callee(d.get("id"), "rot", "rot", ps, T_UINT, d, body_of(d))
    c.has_conds = tree_defined(tree) != "True"
    ex.callees[d.get("id")] = c
    index.append("rot  <-  hash_stream::rot (%s)" % where(d))

    # ---- mix / final_mix (static, three reference parameters) -----------------------------------
    def static3(cxx, lean):
        d = method(cxx, R3)
        if d.get("storageClass") != "static":
            die("hash_stream::%s(a,b,c) is not static any more" % cxx)
        ps = params_of(d, cxx)
        if [(t, r) for _, t, r in ps] != [(T_UINT, True)] * 3:
            die("hash_stream::%s: unexpected parameter list" % cxx)
        f = Fn("%s (MEDDLY::hash_stream::%s)" % (lean, cxx), "fork")
        f.reserved = {p[0] for p in ps}
        tree = ex.run(f, [body_of(d)], {("var", n): Val(t, n, None, True) for n, t, _ in ps})
        must_be_total(f, tree)

        def leaf(t):
            if t[0] != "ret" or t[1] is not None:
                die("%s: returns a value" % f.name)
            return "(" + ", ".join(t[2][("var", n)].lean for n, _, _ in ps) + ")"

        lines = header_lines("`static void hash_stream::%s(unsigned &%s, unsigned &%s, unsigned &%s)`: the final values of "
                             "the three reference parameters." % (cxx, ps[0][0], ps[1][0], ps[2][0]),
                             "MEDDLY::hash_stream::" + cxx, d, f)
        lines.append("def %s %s : UInt32 × UInt32 × UInt32 :=" % (lean, " ".join("(%s : UInt32)" % p[0] for p in ps)))
        lines.append(emit_tree(tree, leaf, 2, True))
        out.append("\n".join(lines))
        ex.callees[d.get("id")] = Callee(d.get("id"), cxx, lean, ps, T_VOID, d, body_of(d))
        index.append("%s  <-  hash_stream::%s(a,b,c) (%s)" % (lean, cxx, where(d)))

    static3("mix", "mix")
    static3("final_mix", "final_mix")

    # ---- mix() / final_mix(): executed inline -------------------------------------------------
    for nm in ("mix", "final_mix"):
        d = method(nm, "void ()")
        ex.inline_members[d.get("id")] = (d, body_of(d))

    # ---- member functions over the state --------------------------------------------------------
    LOCS = [("this", "z", 0), ("this", "z", 1), ("this", "z", 2), ("this", "slot")]
    FIELD = {LOCS[0]: "z0", LOCS[1]: "z1", LOCS[2]: "z2", LOCS[3]: "slot"}

    def state_in():
        env = {l: Val(T_UINT, "s." + FIELD[l], None, True) for l in LOCS[:3]}
        env[LOCS[3]] = Val(T_INT, "s.slot", None, True)
        return env

    def state_out(f, env):
        parts = []
        for l in LOCS:
            v = env.get(l)
            if v is None:
                die("%s: a path ends without `%s` ever being written" % (f.name, FIELD[l]))
            parts.append("%s := %s" % (FIELD[l], v.lean))
        return "{ " + ", ".join(parts) + " }"

    def member(cxx, sig, lean, kind, doc):
        """kind: 'init' (no input state, total) | 'step' (State -> Except Err State) | 'value' (State -> UInt32, total)"""
        d = method(cxx, sig)
        if d.get("storageClass") == "static":
            die("hash_stream::%s is static" % cxx)
        ps = params_of(d, cxx)
        if any(r or t != T_UINT for _, t, r in ps):
            die("hash_stream::%s: parameters are not plain `unsigned`" % cxx)
        f = Fn("%s (MEDDLY::hash_stream::%s : %s)" % (lean, cxx, sig), "fork")
        f.reserved = {p[0] for p in ps} | {"s"}
        env = {} if kind == "init" else state_in()
        for n, t, _ in ps:
            env[("var", n)] = Val(t, n, None, True)
        tree = ex.run(f, [body_of(d)], env)
        binder = " ".join("(%s : UInt32)" % p[0] for p in ps)
        if kind != "init":
            binder = ("(s : State) " + binder).strip()
        if kind == "step":
            def leaf(t):
                if t[0] == "throw":
                    return ".error .thrown"
                if t[1] is not None:
                    die("%s: returns a value" % f.name)
                return ".ok " + state_out(f, t[2])
            rty = "Except Err State"
        elif kind == "init":
            must_be_total(f, tree)

            def leaf(t):
                if t[1] is not None:
                    die("%s: returns a value" % f.name)
                return state_out(f, t[2])
            rty = "State"
        else:
            must_be_total(f, tree)

            def leaf(t):
                if t[1] is None or t[1].ty != T_UINT:
                    die("%s: does not return an unsigned on every path" % f.name)
                return t[1].lean
            rty = "UInt32"
        lines = header_lines(doc, "MEDDLY::hash_stream::%s : %s" % (cxx, sig), d, f)
        lines.append("def %s%s : %s :=" % (lean, (" " + binder) if binder else "", rty))
        lines.append(emit_tree(tree, leaf, 2, True))
        if kind == "step":
            lines.append("")
            lines.append("/-- error codes of the `throw`s met while translating `%s` -/" % lean)
            lines.append("def %s_throws : List String := [%s]" % (lean, ", ".join('"%s"' % c for c in f.throws)))
        out.append("\n".join(lines))
        index.append("%s  <-  hash_stream::%s : %s (%s)" % (lean, cxx, sig, where(d)))
        for s in f.notes:
            if s.startswith("call rot("):
                rot_calls.append(s)

    member("start", "void (unsigned int)", "start", "init", "`void hash_stream::start(unsigned init)`: the state it leaves.")
    member("start", "void ()", "start0", "init", "`void hash_stream::start()` (no argument): the state it leaves.")
    member("push", "void (unsigned int)", "push", "step", "`void hash_stream::push(unsigned v)`")
    member("push", "void (unsigned int, unsigned int)", "push2", "step", "`void hash_stream::push(unsigned v1, unsigned v2)`")
    member("push", "void (unsigned int, unsigned int, unsigned int)", "push3", "step",
           "`void hash_stream::push(unsigned v1, unsigned v2, unsigned v3)`")
    member("finish", "unsigned int ()", "finish", "value",
           "`unsigned hash_stream::finish()`: the value returned (the state it leaves behind is not translated).")

    hdr = ["/-",
           "  GENERATED by translate/hashstream_to_lean.py from %s — do not edit" % header,
           "",
           "  `class MEDDLY::hash_stream` (Bob Jenkins' lookup3 fed one word at a time) as Lean functions.",
           "",
           "  Translation conventions (the trusted base of everything proved about this file):",
           "    unsigned               UInt32; + - ^ | & << >> modulo 2^32 exactly as C++ defines them (<<, >> by a",
           "                           constant amount that was checked to be in 0..31 at translation time)",
           "    int (slot, k)          Int with the mathematical operations; where the result might leave the int range",
           "                           (`slot--`) or an index might leave the array (`z[slot]`), the function continues",
           "                           only under the explicit condition and is `.error .ub` otherwise",
           "    unsigned z[3]; int slot     structure State { z0 z1 z2 : UInt32, slot : Int }",
           "    unsigned& parameters   the function returns the tuple of their final values",
           "    x op= e; x = e; x--    one `let` with a fresh name per assignment (static single assignment)",
           "    if (slot)              slot ≠ 0",
           "    switch (slot)          if-chain over the case labels; from the selected label the statements are executed",
           "                           with fall-through until `return` / `break`; no label selected: `default:`",
           "    throw error(code,..)   .error .thrown   (the code is listed in `<fn>_throws`)",
           "    this->mix(), this->final_mix()   executed inline (which z[i] is passed for a, b, c is read from their bodies)",
           "    rot(c, 4)              the call is kept; its side condition `rot_defined` is decided at translation time by",
           "                           re-executing rot's body with the constant argument",
           "  Functions:"]
    for s in index:
        hdr.append("    " + s)
    hdr.append("  Not translated: " + ", ".join(NOT_TRANSLATED) + " (pointer arithmetic / 64-bit results; the node hashing")
    hdr.append("  code only uses start(init), push(v), push(v1,v2), the byte-array push with whole words, and finish()).")
    hdr += ["-/",
            "set_option linter.unusedVariables false",
            "",
            "namespace Gen.HashStream",
            "",
            "/-- the values of the C++ type `int` -/",
            "def InInt32 (x : Int) : Prop := -2147483648 ≤ x ∧ x ≤ 2147483647",
            "",
            "instance (x : Int) : Decidable (InInt32 x) := by unfold InInt32; exact inferInstance",
            "",
            "/-- `unsigned z[3]; int slot;` -/",
            "structure State where",
            "  z0 : UInt32",
            "  z1 : UInt32",
            "  z2 : UInt32",
            "  slot : Int",
            "  deriving DecidableEq, Repr, Inhabited",
            "",
            "/-- how a call can fail: a `throw`, or undefined behaviour (signed overflow, subscript out of bounds) -/",
            "inductive Err where",
            "  | thrown",
            "  | ub",
            "  deriving DecidableEq, Repr, Inhabited",
            ""]
    return "\n".join(hdr) + "\n" + "\n\n".join(out) + "\n\nend Gen.HashStream\n"


def main():
    ap = argparse.ArgumentParser(description="translate MEDDLY::hash_stream (hash_stream.h) into Lean")
    ap.add_argument("--out", required=True, help="Lean file to (re)write, e.g. lean/MeddlyModel/Gen/HashStream.lean")
    ap.add_argument("--repo", default="/repo", help="MEDDLY checkout (default /repo)")
    ap.add_argument("-I", dest="inc", action="append", default=[],
                    help="extra include directory searched BEFORE <repo>/src (e.g. a directory with a mutated hash_stream.h)")
    ap.add_argument("--clang", default="clang++-14")
    ap.add_argument("--check", action="store_true", help="do not write; exit 1 if the file would change")
    a = ap.parse_args()
    incs = list(a.inc) + [a.repo, os.path.join(a.repo, "src")]
    search = list(a.inc) + [os.path.join(a.repo, "src")]
    try:
        header = find_header("hash_stream.h", search)
        if header is None:
            die("hash_stream.h not found under %s" % ", ".join(search))
        docs = parse_docs(run_clang(a.clang, PROBE, incs, "MEDDLY::hash_stream"))
        text = translate(docs, header)
    except Unsupported as e:
        sys.stderr.write("%s: UNSUPPORTED / FAILED: %s\n" % (PROG, e))
        sys.stderr.write("%s: %s was NOT written\n" % (PROG, a.out))
        return 2
    return write_if_changed(PROG, a.out, text, a.check)


if __name__ == "__main__":
    sys.exit(main())
