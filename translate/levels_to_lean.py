#!/usr/bin/env python3
"""
levels_to_lean.py -- translate MEDDLY's level arithmetic into Lean 4 definitions over `Int`:

    src/forest_levels.h   MEDDLY::MDD_levels::{downLevel, upLevel, topLevel}
                          MEDDLY::MXD_levels::{downLevel, upLevel, topLevel, topUnprimed, unprimedOfLevel, primedOfLevel}
    src/defines.h         MEDDLY::isLevelAbove, and the instantiations MAX<int>, ABS<int> (MIN<int> if it is used)

    python3 translate/levels_to_lean.py --out lean/MeddlyModel/Gen/Levels.lean [--repo /repo] [-I DIR]...

How: clang++-14's typed JSON AST of a probe file that includes forest_levels.h is walked by the symbolic
executor of translate/cxx2lean.py.  A C++ `int` is a Lean `Int` and `+ - * unary-` are the MATHEMATICAL
operations; for every function `f` a predicate `f_defined` is generated as well: the conjunction (under the
path conditions) of "this intermediate result is an int" for every signed operation, including the `_defined`
predicates of the callees.  For arguments in int range satisfying `f_defined`, the C++ function returns `f`;
outside, the C++ behaviour is undefined (signed overflow).  Props/Levels.lean proves `f_defined` for all levels
|k| < 2^30.

Fails loudly (exit 2, names the construct and the source line, output untouched) on anything outside the
subset described in cxx2lean.py; writes the output only when its content changed.
"""
import argparse
import os
import sys

sys.path.insert(0, os.path.dirname(os.path.abspath(__file__)))
from cxx2lean import (Unsupported, die, where, run_clang, parse_docs, find_header, write_if_changed,  # noqa: E402
                      T_INT, T_BOOL, type_of_json, Val, Exec, Fn, Callee, tree_defined, emit_tree)

PROG = "levels_to_lean"

PROBE = '#include "forest_levels.h"\n'

TEMPLATES = ("ABS", "MAX", "MIN")          # MIN only if MIN<int> is instantiated
REQUIRED_TEMPLATES = ("ABS", "MAX")
CLASSES = (("MDD_levels", "MDD", ("downLevel", "upLevel", "topLevel")),
           ("MXD_levels", "MXD", ("downLevel", "upLevel", "topLevel", "topUnprimed", "unprimedOfLevel", "primedOfLevel")))


def body_of(d):
    b = [c for c in d.get("inner", []) if c.get("kind") == "CompoundStmt"]
    return b[0] if b else None


def collect(docs):
    """-> {(scope, name): [FunctionDecl with a body]}   scope: 'MEDDLY' | 'MDD_levels' | 'MXD_levels'"""
    found = {}

    def add(key, d):
        found.setdefault(key, []).append(d)

    def in_namespace(n):
        for c in n.get("inner", []):
            k = c.get("kind")
            if k == "FunctionDecl" and body_of(c) is not None:
                add(("MEDDLY", c.get("name")), c)
            elif k == "FunctionTemplateDecl" and c.get("name") in TEMPLATES:
                for s in c.get("inner", []):
                    if s.get("kind") != "FunctionDecl" or body_of(s) is None:
                        continue
                    targs = [a for a in s.get("inner", []) if a.get("kind") == "TemplateArgument"]
                    if len(targs) == 1 and targs[0].get("type", {}).get("qualType") == "int":
                        add(("MEDDLY", c.get("name")), s)
            elif k == "NamespaceDecl":
                pass                                   # nested namespaces are not MEDDLY::<name>
            elif k == "CXXRecordDecl":
                in_class(c)

    def in_class(c):
        if c.get("name") in ("MDD_levels", "MXD_levels") and c.get("completeDefinition"):
            for m in c.get("inner", []):
                if m.get("kind") == "CXXMethodDecl" and body_of(m) is not None:
                    add((c["name"], m.get("name")), m)

    for d in docs:
        if d.get("kind") == "NamespaceDecl" and d.get("name") == "MEDDLY":
            in_namespace(d)
        elif d.get("kind") == "CXXRecordDecl":
            in_class(d)
    return found


def one(found, scope, name, required=True):
    hits = found.get((scope, name), [])
    if not hits and not required:
        return None
    if len(hits) != 1:
        die("expected exactly one definition of %s::%s(int...) in the AST, found %d" % (scope, name, len(hits)))
    return hits[0]


def translate(docs, headers):
    found = collect(docs)
    ex = Exec()
    out, index = [], []

    def do(scope, cxx, lean, doc):
        d = one(found, scope, cxx)
        qual = ("MEDDLY::%s" % cxx) if scope == "MEDDLY" else "MEDDLY::%s::%s" % (scope, cxx)
        if scope != "MEDDLY" and d.get("storageClass") != "static":
            die("%s is not a static member function any more" % qual)
        params = []
        for p in d.get("inner", []):
            if p.get("kind") == "ParmVarDecl":
                ty, ref = type_of_json(p["type"], "parameter of %s at %s" % (qual, where(p)))
                if ref or ty != T_INT:
                    die("%s: parameter `%s` is not a plain `int`" % (qual, p.get("name")))
                if "init" in p or any(c.get("kind") not in (None,) and "Comment" not in c.get("kind", "") for c in p.get("inner", [])):
                    die("%s: parameter `%s` has a default argument" % (qual, p.get("name")))
                params.append((p["name"], ty, False))
        q = d["type"]["qualType"]
        rq = q[:q.index("(")].strip()
        ret = {"int": T_INT, "bool": T_BOOL}.get(rq)
        if ret is None:
            die("%s returns `%s` (int or bool expected)" % (qual, rq))
        body = body_of(d)
        f = Fn("%s (%s)" % (lean, qual), "pure")
        f.reserved = {p[0] for p in params}
        env = {("var", n): Val(t, n, None, True) for n, t, _ in params}
        tree = ex.run(f, [body], env)
        check_returns(f, tree, ret)
        defined = tree_defined(tree)
        binder = " ".join("(%s : Int)" % p[0] for p in params)
        args = " ".join(p[0] for p in params)
        lines = ["/-- %s" % doc, "    source: %s, %s of %s" % (qual, where(d), headers[0 if scope != "MEDDLY" else 1])]
        for s in f.notes:
            lines.append("    * " + s)
        lines.append("-/")
        lines.append("def %s %s : %s :=" % (lean, binder, ret.lean))
        lines.append(emit_tree(tree, lambda t: t[1].lean, 2, False))
        lines.append("")
        lines.append("/-- no signed overflow while `%s` is evaluated (otherwise its behaviour is undefined) -/" % qual)
        lines.append("def %s_defined %s : Prop :=" % (lean, binder))
        lines.append("  " + defined)
        lines.append("")
        lines.append("instance %s : Decidable (%s_defined %s) := by unfold %s_defined; exact inferInstance"
                     % (binder, lean, args, lean))
        out.append("\n".join(lines))
        c = Callee(d.get("id"), qual, lean, params, ret, d, body)
        c.has_conds = defined != "True"
        ex.callees[d.get("id")] = c
        index.append("%s  <-  %s (%s)%s" % (lean, qual, where(d), "" if c.has_conds else "   [total: no signed operation can overflow]"))

    for t in TEMPLATES:
        if one(found, "MEDDLY", t, required=t in REQUIRED_TEMPLATES) is not None:
            do("MEDDLY", t, t, "`MEDDLY::%s<int>` (the instantiation of the template in defines.h)" % t)
    do("MEDDLY", "isLevelAbove", "isLevelAbove",
       "`MEDDLY::isLevelAbove(k1, k2)`: \"Determine if level k1 is above k2.  Works for primed & unprimed.\"")
    for cls, ns, names in CLASSES:
        for nm in names:
            do(cls, nm, "%s.%s" % (ns, nm), "`MEDDLY::%s::%s`" % (cls, nm))

    hdr = ["/-",
           "  GENERATED by translate/levels_to_lean.py from %s and %s — do not edit" % (headers[0], headers[1]),
           "",
           "  The level arithmetic of MEDDLY as Lean functions over `Int`.",
           "",
           "  Translation conventions (the trusted base of everything proved about this file):",
           "    int                    Int; `+ - *` and unary `-` are the mathematical operations.  C++ leaves signed",
           "                           overflow undefined: for every function `f` the predicate `f_defined` collects,",
           "                           under the path conditions, `InInt32 r` for every intermediate result `r` and",
           "                           `g_defined args` for every call of a function g whose predicate is not trivial.",
           "                           For int arguments with `f_defined`, the C++ function returns `f`.",
           "    a < b, a > b, ==, ...  the order of Int; a `bool` result is `decide (..)`, an `if` condition the Prop",
           "    c ? a : b, if / return `if c then a else b` (statements after an `if (c) return ..;` form the else branch)",
           "    MAX, ABS               the template instantiations MAX<int>, ABS<int> taken from the AST (the callee of",
           "                           every call is resolved through clang's declaration id, not by name)",
           "  Functions:"]
    for s in index:
        hdr.append("    " + s)
    hdr += ["-/",
            "set_option linter.unusedVariables false",
            "",
            "namespace Gen.Levels",
            "",
            "/-- the values of the C++ type `int` (LP64: 32 bits, two's complement; static_assert in the probe) -/",
            "def InInt32 (x : Int) : Prop := -2147483648 ≤ x ∧ x ≤ 2147483647",
            "",
            "instance (x : Int) : Decidable (InInt32 x) := by unfold InInt32; exact inferInstance",
            ""]
    return "\n".join(hdr) + "\n" + "\n\n".join(out) + "\n\nend Gen.Levels\n"


def check_returns(f, t, ty):
    k = t[0]
    if k == "let":
        die("%s: assignments are not expected in the level functions (would need `let` in `_defined`)" % f.name)
    if k == "assert":
        check_returns(f, t[3], ty)
    elif k == "if":
        check_returns(f, t[2], ty)
        check_returns(f, t[3], ty)
    elif k == "ret":
        if t[1] is None:
            die("%s: a path falls off the end / returns no value" % f.name)
        if t[1].ty != ty:
            die("%s: returns a %s, expected %s" % (f.name, t[1].ty, ty))
    else:
        die("%s: `%s` in a level function" % (f.name, k))


def main():
    ap = argparse.ArgumentParser(description="translate MEDDLY's level arithmetic (forest_levels.h, defines.h) into Lean")
    ap.add_argument("--out", required=True, help="Lean file to (re)write, e.g. lean/MeddlyModel/Gen/Levels.lean")
    ap.add_argument("--repo", default="/repo", help="MEDDLY checkout (default /repo)")
    ap.add_argument("-I", dest="inc", action="append", default=[],
                    help="extra include directory searched BEFORE <repo>/src (e.g. a directory with a mutated forest_levels.h)")
    ap.add_argument("--clang", default="clang++-14")
    ap.add_argument("--check", action="store_true", help="do not write; exit 1 if the file would change")
    a = ap.parse_args()
    incs = list(a.inc) + [a.repo, os.path.join(a.repo, "src")]
    search = list(a.inc) + [os.path.join(a.repo, "src")]
    try:
        headers = [find_header("forest_levels.h", search), find_header("defines.h", search)]
        if None in headers:
            die("forest_levels.h / defines.h not found under %s" % ", ".join(search))
        docs = parse_docs(run_clang(a.clang, PROBE, incs, "MEDDLY"))
        text = translate(docs, headers)
    except Unsupported as e:
        sys.stderr.write("%s: UNSUPPORTED / FAILED: %s\n" % (PROG, e))
        sys.stderr.write("%s: %s was NOT written\n" % (PROG, a.out))
        return 2
    return write_if_changed(PROG, a.out, text, a.check)


if __name__ == "__main__":
    sys.exit(main())
