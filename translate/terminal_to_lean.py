#!/usr/bin/env python3
"""
terminal_to_lean.py -- translate the inline encoding / decoding functions of
`class MEDDLY::terminal` (src/terminal.h) into Lean 4 definitions over bit vectors.

    python3 translate/terminal_to_lean.py --out lean/MeddlyModel/Gen/Terminal.lean [--repo /repo]

How it works
  * clang++-14 is run with `-Xclang -ast-dump=json -Xclang -ast-dump-filter=MEDDLY::terminal::`
    on a two-line .cc file that includes terminal.h.  The typed AST contains every implicit
    conversion (`ImplicitCastExpr` with its `castKind`) and the type of every expression.
  * A small symbolic executor walks the body of each function.  C++ values become Lean terms
    over `BitVec 64` (long), `BitVec 32` (int, and the BIT PATTERN of a float) and `Bool`;
    `if`s on run-time values become Lean `if`s, `if`s on compile-time constants (the
    `sizeof(node_handle) == ...` tests) are decided here, a `switch` on the terminal type is
    specialised to the requested case label, `throw` becomes `Except.error ()`.
  * Anything the executor does not know (an AST node kind, a cast kind, an operator, a type, a
    callee, a read of a location that was never written, ...) is a hard error: the script
    prints `terminal_to_lean: UNSUPPORTED ...` naming the construct and exits with status 2
    without touching the output file.
  * The output file is only rewritten when its content changes.

C semantics made explicit in the output (see also the header of the generated file)
  int -> long                      BitVec.signExtend 64
  long -> int                      BitVec.setWidth 32          (truncation)
  x << n  (n constant, n < width)  BitVec.shiftLeft x n        (two's complement wrap, as g++/clang
                                                               and C++20 define it)
  x >> n  on a signed type         BitVec.sshiftRight x n      (arithmetic shift)
  x >> n  on an unsigned type      BitVec.ushiftRight x n
  |  &  ^                          |||  &&&  ^^^
  <  >  <= >= on signed types      BitVec.slt / BitVec.sle     (unsigned: ult / ule)
  (bool) integer                   x != 0
  (bool) float                     floatNonzero bits           (neither +0.0 nor -0.0; NaN is "true")
  union { node_handle h; float f } one BitVec 32 cell: writing .f and reading .h (or the reverse)
                                   is the identity on the bit pattern
  throw MEDDLY::error(code, ...)   Except.error ()             (the code name is emitted as
                                                               `<fn>_throws : List String`)
"""
import argparse
import json
import os
import subprocess
import sys
import tempfile

PROG = "terminal_to_lean"


class Unsupported(Exception):
    pass


def die(msg):
    raise Unsupported(msg)


def annotate_lines(doc):
    """clang's JSON prints `line` only when it differs from the previously printed location;
    replay the print order (dict order) and store the effective line as `_line` in every location"""
    state = {"line": None}

    def loc(d):
        if not isinstance(d, dict):
            return
        if "spellingLoc" in d or "expansionLoc" in d:
            for k in d:
                if k in ("spellingLoc", "expansionLoc"):
                    loc(d[k])
            return
        if "line" in d:
            state["line"] = d["line"]
        if d:
            d["_line"] = state["line"]

    def node(n):
        if not isinstance(n, dict):
            return
        for k in list(n.keys()):
            if k == "loc":
                loc(n[k])
            elif k == "range":
                for kk in n[k]:
                    loc(n[k][kk])
            elif k == "inner":
                for c in n[k]:
                    node(c)

    node(doc)


def where(n):
    """source position of an AST node"""
    cands = []
    if "loc" in n:
        cands.append(n["loc"])
    if "range" in n:
        cands.append(n["range"].get("begin", {}))
    for d in cands:
        for sub in (d.get("expansionLoc", {}), d):
            if sub.get("_line") is not None:
                if "col" in sub:
                    return "line %s col %s" % (sub["_line"], sub["col"])
                return "line %s" % sub["_line"]
    return "line ?"


# --------------------------------------------------------------------------- types
class Ty:
    def __init__(self, name, kind, width=0, signed=False):
        self.name, self.kind, self.width, self.signed = name, kind, width, signed

    def __eq__(self, o):
        return isinstance(o, Ty) and self.name == o.name

    def __ne__(self, o):
        return not self == o

    def __repr__(self):
        return self.name

    def lean(self):
        if self.kind == "int" or self.kind == "float":
            return "BitVec %d" % self.width
        if self.kind == "bool":
            return "Bool"
        die("type `%s` has no Lean counterpart" % self.name)


# LP64 data model; verified against the compiler by static_asserts in the probe file.
T_INT = Ty("int", "int", 32, True)
T_UINT = Ty("unsigned int", "int", 32, False)
T_LONG = Ty("long", "int", 64, True)
T_ULONG = Ty("unsigned long", "int", 64, False)
T_BOOL = Ty("bool", "bool")
T_FLOAT = Ty("float", "float", 32)
T_DOUBLE = Ty("double", "double", 64)
T_VOID = Ty("void", "void")
T_TTYPE = Ty("MEDDLY::terminal_type", "enum")
TYPES = {t.name: t for t in (T_INT, T_UINT, T_LONG, T_ULONG, T_BOOL, T_FLOAT, T_DOUBLE, T_VOID, T_TTYPE)}
SIZEOF = {"int": 4, "unsigned int": 4, "long": 8, "unsigned long": 8, "float": 4, "double": 8, "bool": 1}


def type_of_json(t, ctx):
    q = t.get("desugaredQualType", t.get("qualType"))
    if q is None:
        die("%s: node without a type" % ctx)
    q = q.strip()
    while q.startswith("const "):
        q = q[6:].strip()
    if q.startswith("enum "):
        q = q[5:]
    if q in TYPES:
        return TYPES[q]
    if q.startswith("union ") or "unnamed union" in q or "anonymous union" in q:
        return Ty(q, "union")
    die("%s: unsupported C++ type `%s`" % (ctx, q))


def type_of(n):
    if "type" not in n:
        die("%s at %s has no type" % (n.get("kind"), where(n)))
    return type_of_json(n["type"], "%s at %s" % (n.get("kind"), where(n)))


# --------------------------------------------------------------------------- values
class Val:
    """a C++ rvalue: its type, a Lean term denoting it, and (if known) its compile-time value"""

    def __init__(self, ty, lean, const=None, atom=False):
        self.ty, self.lean, self.const, self.atom = ty, lean, const, atom

    def p(self):
        """Lean term, parenthesised unless atomic"""
        return self.lean if self.atom else "(" + self.lean + ")"


def wrap(ty, v):
    """reduce a Python integer to the value range of the integer type ty"""
    m = 1 << ty.width
    v %= m
    if ty.signed and v >= m >> 1:
        v -= m
    return v


def lit(ty, v):
    """Lean literal for the integer v of type ty"""
    if v >= 0:
        return Val(ty, "%d#%d" % (v, ty.width), v, atom=True)
    return Val(ty, "-(%d#%d)" % (-v, ty.width), v)


# --------------------------------------------------------------------------- the executor
class Note:
    def __init__(self):
        self.lines = []

    def add(self, s):
        if s not in self.lines:
            self.lines.append(s)


class Fn:
    """per-function translation context"""

    def __init__(self, tr, name):
        self.tr, self.name, self.notes = tr, name, Note()
        self.unions = {}      # var name -> {field: Ty}
        self.throws = []


SWITCH_END = {"kind": "<switch-end>"}


class Translator:
    def __init__(self):
        self.consts = {}      # C++ nullary static function -> compile time value
        self.leanname = {}    # C++ nullary static function -> Lean constant name

    # ---------------------------------------------------------------- lvalues
    def lvalue(self, f, n, env):
        k = n.get("kind")
        if k == "ParenExpr":
            return self.lvalue(f, n["inner"][0], env)
        if k == "DeclRefExpr":
            rd = n.get("referencedDecl", {})
            if rd.get("kind") not in ("ParmVarDecl", "VarDecl"):
                die("%s: lvalue DeclRefExpr to a %s `%s` at %s" % (f.name, rd.get("kind"), rd.get("name"), where(n)))
            return ("var", rd["name"], None)
        if k == "MemberExpr":
            base = n["inner"][0]
            name = n.get("name", "")
            bk = base.get("kind")
            if bk == "CXXThisExpr":
                return ("this", name, None)
            if bk == "MemberExpr" and base.get("name", "") == "" and base["inner"][0].get("kind") == "CXXThisExpr":
                # member of the anonymous union inside `terminal`; every member is a separate cell here:
                # a function may only read the member the translation was asked to treat as its input.
                return ("this", name, None)
            if bk == "DeclRefExpr":
                loc = self.lvalue(f, base, env)
                var = loc[1]
                if var not in f.unions:
                    die("%s: member access `.%s` on `%s`, which is not a local union, at %s" % (f.name, name, var, where(n)))
                if name not in f.unions[var]:
                    die("%s: union `%s` has no field `%s` at %s" % (f.name, var, name, where(n)))
                return ("var", var, name)
            die("%s: MemberExpr on a %s at %s" % (f.name, bk, where(n)))
        die("%s: unsupported lvalue node kind `%s` at %s" % (f.name, k, where(n)))

    def read(self, f, loc, ty, env, n):
        key = loc[:2]
        if key not in env or env[key] is None:
            die("%s: read of `%s.%s` which is not an input of this translation and was never written, at %s"
                % (f.name, key[0], key[1], where(n)))
        v = env[key]
        if v.ty == ty:
            return v
        if loc[2] is not None and {v.ty.kind, ty.kind} == {"int", "float"} and v.ty.width == ty.width == 32:
            f.notes.add("union `%s`: %s written, %s read: reinterpretation = identity on the 32-bit pattern" % (loc[1], v.ty, ty))
            return Val(ty, v.lean, None, v.atom)
        die("%s: `%s.%s` holds a %s but is read as %s at %s" % (f.name, key[0], key[1], v.ty, ty, where(n)))

    def assign(self, f, n, env):
        lhs, rhs = n["inner"]
        loc = self.lvalue(f, lhs, env)
        lty = type_of(lhs)
        v = self.expr(f, rhs, env)
        if v.ty != lty:
            die("%s: assignment of a %s to a %s without a cast at %s" % (f.name, v.ty, lty, where(n)))
        if loc[2] is not None and f.unions[loc[1]][loc[2]] != lty:
            die("%s: union field type mismatch at %s" % (f.name, where(n)))
        env[loc[:2]] = v
        return v

    # ---------------------------------------------------------------- expressions
    def expr(self, f, n, env):
        k = n.get("kind")
        h = getattr(self, "e_" + str(k), None)
        if h is None:
            die("%s: unsupported expression node kind `%s` at %s" % (f.name, k, where(n)))
        return h(f, n, env)

    def e_ParenExpr(self, f, n, env):
        return self.expr(f, n["inner"][0], env)

    def e_ConstantExpr(self, f, n, env):
        return self.expr(f, n["inner"][0], env)

    def e_IntegerLiteral(self, f, n, env):
        ty = type_of(n)
        if ty.kind != "int":
            die("%s: integer literal of type %s at %s" % (f.name, ty, where(n)))
        v = int(n["value"])
        if wrap(ty, v) != v:
            die("%s: integer literal %d does not fit %s at %s" % (f.name, v, ty, where(n)))
        return lit(ty, v)

    def e_CXXBoolLiteralExpr(self, f, n, env):
        b = bool(n["value"])
        return Val(T_BOOL, "true" if b else "false", b, atom=True)

    def e_UnaryExprOrTypeTraitExpr(self, f, n, env):
        if n.get("name") != "sizeof":
            die("%s: unsupported type trait `%s` at %s" % (f.name, n.get("name"), where(n)))
        if "argType" not in n:
            die("%s: sizeof(expression) is not supported at %s" % (f.name, where(n)))
        at = type_of_json(n["argType"], "sizeof at " + where(n))
        if at.name not in SIZEOF:
            die("%s: sizeof(%s) unknown at %s" % (f.name, at, where(n)))
        ty = type_of(n)
        f.notes.add("sizeof(%s) = %d  [%s]" % (n["argType"].get("qualType"), SIZEOF[at.name], at))
        return lit(ty, SIZEOF[at.name])

    def e_UnaryOperator(self, f, n, env):
        op = n.get("opcode")
        a = self.expr(f, n["inner"][0], env)
        ty = type_of(n)
        if op == "-" and ty.kind == "int" and a.ty == ty:
            if a.const is not None:
                v = -a.const
                if wrap(ty, v) != v and ty.signed:
                    die("%s: signed overflow in constant negation at %s" % (f.name, where(n)))
                return Val(ty, "-(" + a.lean + ")", wrap(ty, v))
            if ty.signed:
                die("%s: negation of a run-time signed value (overflow = UB) at %s" % (f.name, where(n)))
            return Val(ty, "-(" + a.lean + ")")
        if op == "~" and ty.kind == "int" and a.ty == ty:
            c = None if a.const is None else wrap(ty, ~a.const)
            return Val(ty, "~~~" + a.p(), c)
        if op == "!" and ty.kind == "bool" and a.ty == T_BOOL:
            c = None if a.const is None else (not a.const)
            return Val(ty, "!" + a.p(), c)
        die("%s: unsupported unary operator `%s` on %s at %s" % (f.name, op, a.ty, where(n)))

    # casts --------------------------------------------------------------
    def cast(self, f, n, env):
        ck = n.get("castKind")
        sub = n["inner"][0]
        ty = type_of(n)
        if ck == "LValueToRValue":
            if sub.get("kind") == "BinaryOperator" and sub.get("opcode") == "=":
                return self.assign(f, sub, env)
            loc = self.lvalue(f, sub, env)
            return self.read(f, loc, ty, env, n)
        if ck == "NoOp":
            a = self.expr(f, sub, env)
            if a.ty != ty:
                die("%s: NoOp cast changes the type %s -> %s at %s" % (f.name, a.ty, ty, where(n)))
            return a
        if ck == "IntegralCast":
            a = self.expr(f, sub, env)
            if a.ty.kind != "int" or ty.kind != "int":
                die("%s: IntegralCast %s -> %s at %s" % (f.name, a.ty, ty, where(n)))
            c = None if a.const is None else wrap(ty, a.const)
            if ty.width > a.ty.width:
                fn = "BitVec.signExtend" if a.ty.signed else "BitVec.setWidth"
                return Val(ty, "%s %d %s" % (fn, ty.width, a.p()), c)
            if ty.width < a.ty.width:
                return Val(ty, "BitVec.setWidth %d %s" % (ty.width, a.p()), c)
            return Val(ty, a.lean, c, a.atom)     # same width: same bits
        if ck == "IntegralToBoolean":
            a = self.expr(f, sub, env)
            if a.ty.kind != "int":
                die("%s: IntegralToBoolean on %s at %s" % (f.name, a.ty, where(n)))
            c = None if a.const is None else (a.const != 0)
            return Val(T_BOOL, "%s != 0#%d" % (a.p(), a.ty.width), c)
        if ck == "FloatingToBoolean":
            a = self.expr(f, sub, env)
            if a.ty != T_FLOAT:
                die("%s: FloatingToBoolean on %s (only float bit patterns are modelled) at %s" % (f.name, a.ty, where(n)))
            f.notes.add("(bool) float  ==>  floatNonzero <bits>")
            return Val(T_BOOL, "floatNonzero %s" % a.p())
        die("%s: unsupported cast kind `%s` (%s) at %s" % (f.name, ck, n.get("kind"), where(n)))

    e_ImplicitCastExpr = cast
    e_CXXFunctionalCastExpr = cast
    e_CStyleCastExpr = cast
    e_CXXStaticCastExpr = cast

    # binary -------------------------------------------------------------
    def e_BinaryOperator(self, f, n, env):
        op = n.get("opcode")
        ty = type_of(n)
        if op == "=":
            die("%s: assignment used as a value outside `switch (x = y)` at %s" % (f.name, where(n)))
        a = self.expr(f, n["inner"][0], env)
        b = self.expr(f, n["inner"][1], env)
        both = a.const is not None and b.const is not None
        if op in ("||", "&&"):
            if a.ty != T_BOOL or b.ty != T_BOOL:
                die("%s: `%s` on %s, %s at %s" % (f.name, op, a.ty, b.ty, where(n)))
            c = None
            if both:
                c = (a.const or b.const) if op == "||" else (a.const and b.const)
            return Val(T_BOOL, "%s %s %s" % (a.p(), op, b.p()), c)
        if op in ("<", ">", "<=", ">=", "==", "!="):
            if a.ty != b.ty:
                die("%s: comparison `%s` of %s with %s at %s" % (f.name, op, a.ty, b.ty, where(n)))
            if a.ty.kind == "int":
                c = None
                if both:
                    c = {"<": a.const < b.const, ">": a.const > b.const, "<=": a.const <= b.const,
                         ">=": a.const >= b.const, "==": a.const == b.const, "!=": a.const != b.const}[op]
                s = a.ty.signed
                if op == "<":
                    t = "%s %s %s" % ("BitVec.slt" if s else "BitVec.ult", a.p(), b.p())
                elif op == ">":
                    t = "%s %s %s" % ("BitVec.slt" if s else "BitVec.ult", b.p(), a.p())
                elif op == "<=":
                    t = "%s %s %s" % ("BitVec.sle" if s else "BitVec.ule", a.p(), b.p())
                elif op == ">=":
                    t = "%s %s %s" % ("BitVec.sle" if s else "BitVec.ule", b.p(), a.p())
                else:
                    t = "%s %s %s" % (a.p(), op, b.p())
                return Val(T_BOOL, t, c)
            if a.ty == T_BOOL and op in ("==", "!="):
                return Val(T_BOOL, "%s %s %s" % (a.p(), op, b.p()))
            die("%s: comparison `%s` on %s at %s" % (f.name, op, a.ty, where(n)))
        if op in ("<<", ">>"):
            if a.ty.kind != "int" or a.ty != ty or b.ty.kind != "int":
                die("%s: shift `%s` on %s by %s at %s" % (f.name, op, a.ty, b.ty, where(n)))
            if b.const is None:
                die("%s: shift by a run-time amount at %s" % (f.name, where(n)))
            if not (0 <= b.const < ty.width):
                die("%s: shift of a %d-bit value by %d is undefined behaviour, at %s" % (f.name, ty.width, b.const, where(n)))
            if op == "<<":
                c = None if a.const is None else wrap(ty, a.const << b.const)
                if ty.signed:
                    f.notes.add("signed `<<` modelled as two's-complement wrap (g++/clang, C++20)")
                return Val(ty, "BitVec.shiftLeft %s %d" % (a.p(), b.const), c)
            c = None if a.const is None else wrap(ty, a.const >> b.const)   # python >> on the signed value = arithmetic
            if ty.signed:
                f.notes.add("`>>` on signed %s = arithmetic shift" % ty)
                return Val(ty, "BitVec.sshiftRight %s %d" % (a.p(), b.const), c)
            return Val(ty, "BitVec.ushiftRight %s %d" % (a.p(), b.const), c)
        if op in ("|", "&", "^"):
            if a.ty.kind != "int" or a.ty != b.ty or a.ty != ty:
                die("%s: `%s` on %s, %s at %s" % (f.name, op, a.ty, b.ty, where(n)))
            c = None
            if both:
                c = wrap(ty, {"|": a.const | b.const, "&": a.const & b.const, "^": a.const ^ b.const}[op])
            return Val(ty, "%s %s %s" % (a.p(), {"|": "|||", "&": "&&&", "^": "^^^"}[op], b.p()), c)
        if op in ("+", "-", "*"):
            if a.ty.kind != "int" or a.ty != b.ty or a.ty != ty:
                die("%s: `%s` on %s, %s at %s" % (f.name, op, a.ty, b.ty, where(n)))
            if not both:
                if ty.signed:
                    die("%s: run-time signed arithmetic `%s` (overflow = UB) is not modelled, at %s" % (f.name, op, where(n)))
                return Val(ty, "%s %s %s" % (a.p(), op, b.p()))
            v = {"+": a.const + b.const, "-": a.const - b.const, "*": a.const * b.const}[op]
            if ty.signed and wrap(ty, v) != v:
                die("%s: signed overflow in constant expression at %s" % (f.name, where(n)))
            r = lit(ty, wrap(ty, v))
            f.notes.add("constant folded: (%s %s %s) = %d" % (a.const, op, b.const, r.const))
            return r
        die("%s: unsupported binary operator `%s` at %s" % (f.name, op, where(n)))

    def e_ConditionalOperator(self, f, n, env):
        c = self.expr(f, n["inner"][0], env)
        a = self.expr(f, n["inner"][1], env)
        b = self.expr(f, n["inner"][2], env)
        ty = type_of(n)
        if c.ty != T_BOOL or a.ty != ty or b.ty != ty:
            die("%s: ill-typed ?: (%s ? %s : %s) at %s" % (f.name, c.ty, a.ty, b.ty, where(n)))
        if c.const is not None:
            return a if c.const else b
        return Val(ty, "if %s then %s else %s" % (c.lean, a.p(), b.p()))

    def e_CallExpr(self, f, n, env):
        callee = n["inner"][0]
        if callee.get("kind") == "ImplicitCastExpr" and callee.get("castKind") == "FunctionToPointerDecay":
            callee = callee["inner"][0]
        rd = callee.get("referencedDecl", {}) if callee.get("kind") == "DeclRefExpr" else {}
        name = rd.get("name")
        if rd.get("kind") == "CXXMethodDecl" and name in self.leanname and len(n["inner"]) == 1:
            ty = type_of(n)
            if ty != T_INT:
                die("%s: call of %s() returns %s at %s" % (f.name, name, ty, where(n)))
            return Val(ty, self.leanname[name], self.consts.get(name), atom=True)
        die("%s: call of `%s` (%s) is not supported at %s" % (f.name, name, rd.get("kind", callee.get("kind")), where(n)))

    # ---------------------------------------------------------------- statements
    def run(self, f, stmts, env):
        """stmts: list of AST nodes still to execute.  Returns an outcome tree:
           ('ret', Val) | ('end', env) | ('throw', code) | ('if', leancond, t, e)"""
        while stmts:
            n, stmts = stmts[0], stmts[1:]
            if n is SWITCH_END:
                continue
            k = n.get("kind")
            if k == "NullStmt":
                continue
            if k == "CompoundStmt":
                stmts = list(n.get("inner", [])) + stmts
                continue
            if k in ("CaseStmt", "DefaultStmt"):      # fall through into the next label
                stmts = [n["inner"][-1]] + stmts
                continue
            if k == "BreakStmt":
                while stmts and stmts[0] is not SWITCH_END:
                    stmts = stmts[1:]
                if not stmts:
                    die("%s: `break` outside a switch at %s" % (f.name, where(n)))
                continue
            if k == "DeclStmt":
                self.decl(f, n, env)
                continue
            if k == "BinaryOperator" and n.get("opcode") == "=":
                self.assign(f, n, env)
                continue
            if k == "ExprWithCleanups" and n["inner"][0].get("kind") == "CXXThrowExpr":
                n = n["inner"][0]
                k = "CXXThrowExpr"
            if k == "CXXThrowExpr":
                code = self.throw_code(f, n)
                f.throws.append(code)
                return ("throw", code)
            if k == "ReturnStmt":
                if n.get("inner"):
                    return ("ret", self.expr(f, n["inner"][0], env))
                return ("end", env)
            if k == "IfStmt":
                if n.get("hasInit") or n.get("hasVar") or n.get("isConstexpr"):
                    die("%s: if with init / declaration / constexpr at %s" % (f.name, where(n)))
                inner = n["inner"]
                c = self.expr(f, inner[0], env)
                if c.ty != T_BOOL:
                    die("%s: if condition of type %s at %s" % (f.name, c.ty, where(n)))
                th = [inner[1]]
                el = [inner[2]] if len(inner) > 2 else []
                if c.const is not None:
                    f.notes.add("`if` at %s decided at translation time: %s" % (where(n), "true" if c.const else "false"))
                    stmts = (th if c.const else el) + stmts
                    continue
                return ("if", c.lean, self.run(f, th + stmts, dict(env)), self.run(f, el + stmts, dict(env)))
            if k == "SwitchStmt":
                if n.get("hasInit") or n.get("hasVar"):
                    die("%s: switch with init / declaration at %s" % (f.name, where(n)))
                c = self.expr(f, n["inner"][0], env)
                if c.ty.kind != "enum" or c.const is None:
                    die("%s: switch on something that is not the (fixed) terminal type at %s" % (f.name, where(n)))
                body = n["inner"][1]
                if body.get("kind") != "CompoundStmt":
                    die("%s: switch body is not a compound statement at %s" % (f.name, where(n)))
                items = body.get("inner", [])
                start = None
                for i, it in enumerate(items):
                    lab = it
                    while lab.get("kind") in ("CaseStmt", "DefaultStmt") and start is None:
                        if lab.get("kind") == "CaseStmt" and self.case_label(f, lab) == c.const:
                            start = i
                        lab = lab["inner"][-1]
                if start is None:
                    for i, it in enumerate(items):
                        lab = it
                        while lab.get("kind") in ("CaseStmt", "DefaultStmt") and start is None:
                            if lab.get("kind") == "DefaultStmt":
                                start = i
                            lab = lab["inner"][-1]
                if start is None:
                    die("%s: switch at %s has neither `case %s` nor default" % (f.name, where(n), c.const))
                f.notes.add("switch at %s specialised to case %s" % (where(n), c.const))
                stmts = list(items[start:]) + [SWITCH_END] + stmts
                continue
            die("%s: unsupported statement node kind `%s` at %s" % (f.name, k, where(n)))
        return ("end", env)

    def case_label(self, f, n):
        e = n["inner"][0]
        while e.get("kind") in ("ConstantExpr", "ImplicitCastExpr", "ParenExpr"):
            e = e["inner"][0]
        rd = e.get("referencedDecl", {})
        if e.get("kind") != "DeclRefExpr" or rd.get("kind") != "EnumConstantDecl":
            die("%s: case label is not an enumerator at %s" % (f.name, where(n)))
        return rd["name"]

    def throw_code(self, f, n):
        found = []

        def walk(x):
            if x.get("kind") == "DeclRefExpr" and x.get("referencedDecl", {}).get("kind") == "EnumConstantDecl" \
                    and "MEDDLY::error::code" in x.get("type", {}).get("qualType", ""):
                found.append(x["referencedDecl"]["name"])
            for c in x.get("inner", []):
                walk(c)

        walk(n)
        if len(found) != 1:
            die("%s: throw of something that is not MEDDLY::error(<code>, ...) at %s" % (f.name, where(n)))
        return found[0]

    def decl(self, f, n, env):
        pending_union = None
        for d in n.get("inner", []):
            k = d.get("kind")
            if k == "CXXRecordDecl":
                if d.get("tagUsed") != "union":
                    die("%s: local %s declaration at %s (only unions are modelled)" % (f.name, d.get("tagUsed"), where(d)))
                fields = {}
                for m in d.get("inner", []):
                    mk = m.get("kind")
                    if mk == "FieldDecl":
                        fields[m["name"]] = type_of(m)
                    elif mk in ("CXXConstructorDecl", "CXXDestructorDecl", "CXXMethodDecl", "DefinitionData"):
                        if not m.get("isImplicit", False):
                            die("%s: union with user-declared member function at %s" % (f.name, where(m)))
                    else:
                        die("%s: unsupported union member kind `%s` at %s" % (f.name, mk, where(m)))
                for fn_, ft in fields.items():
                    if ft.kind == "double":
                        # allowed to exist (in the branch that is not taken); any access fails in `assign`/`read`
                        continue
                    if ft.kind not in ("int", "float"):
                        die("%s: union field `%s` of type %s at %s" % (f.name, fn_, ft, where(d)))
                pending_union = fields
            elif k == "VarDecl":
                name = d["name"]
                vt = type_of(d)
                init = d.get("inner", [])
                if vt.kind == "union":
                    if pending_union is None:
                        die("%s: variable `%s` of a union type declared elsewhere at %s" % (f.name, name, where(d)))
                    if init and not (len(init) == 1 and init[0].get("kind") == "CXXConstructExpr" and not init[0].get("inner")):
                        die("%s: union `%s` with a non-trivial initialiser at %s" % (f.name, name, where(d)))
                    f.unions[name] = pending_union
                    env[("var", name)] = None        # uninitialised storage
                else:
                    if not init:
                        env[("var", name)] = None
                    else:
                        v = self.expr(f, init[0], env)
                        if v.ty != vt:
                            die("%s: initialiser type %s for `%s : %s` at %s" % (f.name, v.ty, name, vt, where(d)))
                        env[("var", name)] = v
            else:
                die("%s: unsupported declaration kind `%s` at %s" % (f.name, k, where(d)))


# --------------------------------------------------------------------------- driver
PROBE = """#include "terminal.h"
static_assert(sizeof(int) == 4 && sizeof(long) == 8 && sizeof(float) == 4 && sizeof(double) == 8
              && sizeof(unsigned long) == 8 && sizeof(bool) == 1, "terminal_to_lean.py assumes the LP64 data model");
static_assert(int(-1) >> 1 == -1, "terminal_to_lean.py assumes arithmetic right shift on signed int");
static_assert((unsigned int)(-1) == 0xffffffffu, "two's complement");
"""


def run_clang(clang, incs, flt=None):
    with tempfile.TemporaryDirectory(prefix="t2l") as td:
        src = os.path.join(td, "probe_terminal.cc")
        with open(src, "w") as fh:
            fh.write(PROBE)
        cmd = [clang, "-std=gnu++17", "-fsyntax-only", "-DHAVE_CONFIG_H"]
        for i in incs:
            cmd.append("-I" + i)
        cmd += ["-Xclang", "-ast-dump=json"]
        if flt:
            cmd += ["-Xclang", "-ast-dump-filter=" + flt]
        cmd.append(src)
        try:
            p = subprocess.run(cmd, stdout=subprocess.PIPE, stderr=subprocess.PIPE, universal_newlines=True)
        except OSError as e:
            die("cannot run %s: %s" % (clang, e))
        if p.returncode != 0:
            die("clang failed (exit %d):\n%s" % (p.returncode, p.stderr.strip()))
        return p.stdout


def parse_docs(text):
    dec = json.JSONDecoder()
    i, docs = 0, []
    while True:
        while i < len(text) and text[i].isspace():
            i += 1
        if i >= len(text):
            return docs
        try:
            o, i = dec.raw_decode(text, i)
        except ValueError as e:
            die("cannot parse clang's JSON output: %s" % e)
        annotate_lines(o)
        docs.append(o)


def find_method(docs, name):
    hits = []
    for d in docs:
        if d.get("kind") == "CXXMethodDecl" and d.get("name") == name:
            body = [c for c in d.get("inner", []) if c.get("kind") == "CompoundStmt"]
            if body:
                hits.append((d, body[0]))
    if len(hits) != 1:
        die("expected exactly one definition of MEDDLY::terminal::%s in the AST, found %d" % (name, len(hits)))
    return hits[0]


def emit_tree(t, exc, indent):
    pad = " " * indent
    k = t[0]
    if k == "ret":
        return pad + (".ok (%s)" % t[1].lean if exc else t[1].lean)
    if k == "throw":
        if not exc:
            die("a function declared as total throws MEDDLY::error::%s" % t[1])
        return pad + ".error ()"
    if k == "if":
        return (pad + "if %s then\n" % t[1] + emit_tree(t[2], exc, indent + 2) + "\n" + pad + "else\n"
                + emit_tree(t[3], exc, indent + 2))
    die("internal: outcome %s" % k)


def finish_void(f, t, outloc, outty):
    """turn ('end', env) leaves of a void function into ('ret', value of the output location)"""
    k = t[0]
    if k == "end":
        v = t[1].get(outloc)
        if v is None:
            die("%s: the path ends without writing `%s.%s`" % (f.name, outloc[0], outloc[1]))
        if v.ty != outty:
            die("%s: `%s.%s` holds a %s, expected %s" % (f.name, outloc[0], outloc[1], v.ty, outty))
        return ("ret", v)
    if k == "ret":
        die("%s: value returned from a function translated as void" % f.name)
    if k == "if":
        return ("if", t[1], finish_void(f, t[2], outloc, outty), finish_void(f, t[3], outloc, outty))
    return t


def check_value(f, t, ty):
    k = t[0]
    if k == "ret":
        if t[1].ty != ty:
            die("%s: returns a %s, expected %s" % (f.name, t[1].ty, ty))
    elif k == "end":
        die("%s: a path falls off the end of a non-void function" % f.name)
    elif k == "if":
        check_value(f, t[2], ty)
        check_value(f, t[3], ty)


def enumv(name):
    return Val(T_TTYPE, name, name, atom=True)


def translate(docs, header_path):
    tr = Translator()
    out = []
    summary = []

    def do(lean, cxx, binder, inputs, result, exc, doc):
        decl, body = find_method(docs, cxx)
        f = Fn(tr, "%s (MEDDLY::terminal::%s)" % (lean, cxx))
        env = dict(inputs)
        tree = tr.run(f, [body], env)
        if result[0] == "return":
            rty = result[1]
            check_value(f, tree, rty)
        else:
            rty = result[2]
            tree = finish_void(f, tree, result[1], rty)
        resty = rty.lean()
        if exc:
            resty = "Except Unit (%s)" % resty if " " in resty else "Except Unit %s" % resty
        lines = ["/-- %s" % doc]
        lines.append("    source: MEDDLY::terminal::%s, %s" % (cxx, where(decl)))
        for s in f.notes.lines:
            lines.append("    * " + s)
        lines.append("-/")
        lines.append("def %s%s : %s :=" % (lean, (" " + binder) if binder else "", resty))
        lines.append(emit_tree(tree, exc, 2))
        if exc:
            codes = []
            for c in f.throws:
                if c not in codes:
                    codes.append(c)
            lines.append("")
            lines.append("/-- error codes of the `throw`s met while translating `%s` -/" % lean)
            lines.append("def %s_throws : List String := [%s]" % (lean, ", ".join('"%s"' % c for c in codes)))
        out.append("\n".join(lines))
        return tree

    # -- constants -------------------------------------------------------
    for nm in ("intMin", "intMax", "msb"):
        t = do(nm, nm, "", {}, ("return", T_INT), False,
               "`terminal::%s()`" % nm)
        if t[0] != "ret" or t[1].const is None:
            die("%s(): not a compile-time constant" % nm)
        tr.consts[nm] = t[1].const
        tr.leanname[nm] = nm
        c = t[1].const & 0xffffffff
        out.append("theorem %s_val : %s = 0x%08x#32 := by decide" % (nm, nm, c))
        summary.append("%s = 0x%08x (%d)" % (nm, c, t[1].const))

    do("encInt", "getIntegerHandle", "(v : BitVec 64)",
       {("this", "t_integer"): Val(T_LONG, "v", atom=True)}, ("return", T_INT), True,
       "`getIntegerHandle()` as a function of `t_integer` (a C++ `long`).")
    do("decInt", "setFromHandle", "(h : BitVec 32)",
       {("var", "t"): enumv("INTEGER"), ("var", "h"): Val(T_INT, "h", atom=True)},
       ("member", ("this", "t_integer"), T_LONG), False,
       "`setFromHandle(terminal_type::INTEGER, h)`: the value stored in `t_integer`.")
    do("encRealBits", "getRealHandle", "(b : BitVec 32)",
       {("this", "t_real"): Val(T_FLOAT, "b", atom=True)}, ("return", T_INT), False,
       "`getRealHandle()` as a function of the bit pattern of `t_real` (a C++ `float`).")
    do("decRealBits", "setFromHandle", "(h : BitVec 32)",
       {("var", "t"): enumv("REAL"), ("var", "h"): Val(T_INT, "h", atom=True)},
       ("member", ("this", "t_real"), T_FLOAT), False,
       "`setFromHandle(terminal_type::REAL, h)`: the bit pattern stored in `t_real`.")
    do("encBool", "getHandle", "(x : Bool)",
       {("this", "mytype"): enumv("BOOLEAN"), ("this", "t_boolean"): Val(T_BOOL, "x", atom=True)},
       ("return", T_INT), False,
       "`getHandle()` of a BOOLEAN terminal as a function of `t_boolean`.")
    do("decBool", "setFromHandle", "(h : BitVec 32)",
       {("var", "t"): enumv("BOOLEAN"), ("var", "h"): Val(T_INT, "h", atom=True)},
       ("member", ("this", "t_boolean"), T_BOOL), True,
       "`setFromHandle(terminal_type::BOOLEAN, h)`: the value stored in `t_boolean`.")

    # -- getHandle dispatch ----------------------------------------------
    decl, body = find_method(docs, "getHandle")
    disp = []
    for label, callee in (("INTEGER", "getIntegerHandle"), ("REAL", "getRealHandle")):
        f = Fn(tr, "getHandle dispatch")
        sw = [s for s in body.get("inner", []) if s.get("kind") == "SwitchStmt"]
        if len(sw) != 1:
            die("getHandle: expected exactly one switch")
        items = sw[0]["inner"][1].get("inner", [])
        ok = False
        for it in items:
            if it.get("kind") == "CaseStmt" and tr.case_label(f, it) == label:
                st = it["inner"][-1]
                if st.get("kind") == "ReturnStmt" and st.get("inner"):
                    e = st["inner"][0]
                    if e.get("kind") == "CXXMemberCallExpr" and len(e["inner"]) == 1:
                        m = e["inner"][0]
                        if m.get("kind") == "MemberExpr" and m.get("name") == callee \
                                and m["inner"][0].get("kind") == "CXXThisExpr":
                            ok = True
        if not ok:
            die("getHandle: `case terminal_type::%s` is not `return %s();` any more" % (label, callee))
        disp.append("case %s: return %s()" % (label, callee))

    hdr = []
    hdr.append("/-")
    hdr.append("  GENERATED by translate/terminal_to_lean.py from %s — do not edit" % header_path)
    hdr.append("")
    hdr.append("  Lean counterparts of the inline functions of `class MEDDLY::terminal` that encode values into")
    hdr.append("  terminal node handles and back.  `long` = `BitVec 64`, `int` = `node_handle` = `BitVec 32`,")
    hdr.append("  `float` = its IEEE-754 bit pattern as `BitVec 32`, `bool` = `Bool`, `throw` = `Except.error ()`.")
    hdr.append("")
    hdr.append("  Translation conventions (the trusted base of everything proved about this file):")
    hdr.append("    int -> long            BitVec.signExtend 64        long -> int     BitVec.setWidth 32")
    hdr.append("    x << n                 BitVec.shiftLeft x n        (two's complement wrap, also for negative x:")
    hdr.append("                                                        g++/clang behaviour, C++20 semantics)")
    hdr.append("    x >> n, x signed       BitVec.sshiftRight x n      (arithmetic shift; checked by static_assert)")
    hdr.append("    a < b, a > b  signed   BitVec.slt a b, BitVec.slt b a")
    hdr.append("    (bool) i               i != 0                      (bool) f        floatNonzero bits(f)")
    hdr.append("    union {int h; float f} one 32-bit cell; float <-> int reinterpretation is the identity on bits")
    hdr.append("    sizeof tests           decided at translation time (LP64: int 4, long 8, float 4, double 8)")
    hdr.append("    MEDDLY_DCASSERT        expands to nothing (library is built without DEVELOPMENT_CODE)")
    hdr.append("  Checked, not translated: getHandle() dispatch: " + "; ".join(disp) + ".")
    hdr.append("  Not translated (trusted, covered only by the differential run): the constructors /")
    hdr.append("  setFromValue / getInteger / getReal wrappers (t_integer = long(v); t_real = double(v) then")
    hdr.append("  narrowed to float; getReal() widens to double: float -> double -> float is the identity on")
    hdr.append("  every non-NaN bit pattern).")
    hdr.append("  Constants: " + "; ".join(summary) + ".")
    hdr.append("-/")
    hdr.append("namespace Gen.Terminal")
    hdr.append("")
    hdr.append("/-- C++ `if (f)` / `(bool) f` on a float given by its bit pattern: true iff f is neither +0.0")
    hdr.append("    nor -0.0 (NaNs compare unequal to zero, hence are `true`). -/")
    hdr.append("def floatNonzero (b : BitVec 32) : Bool := !(b == 0x00000000#32 || b == 0x80000000#32)")
    hdr.append("")
    text = "\n".join(hdr) + "\n" + "\n\n".join(out) + "\n\nend Gen.Terminal\n"
    return text


def main():
    ap = argparse.ArgumentParser(description="translate MEDDLY::terminal's handle encoding into Lean")
    ap.add_argument("--out", required=True, help="Lean file to (re)write, e.g. lean/MeddlyModel/Gen/Terminal.lean")
    ap.add_argument("--repo", default="/repo", help="MEDDLY checkout (default /repo)")
    ap.add_argument("-I", dest="inc", action="append", default=[],
                    help="extra include directory searched BEFORE <repo>/src (e.g. a directory with a mutated terminal.h)")
    ap.add_argument("--clang", default="clang++-14")
    ap.add_argument("--check", action="store_true", help="do not write; exit 1 if the file would change")
    a = ap.parse_args()

    incs = list(a.inc) + [a.repo, os.path.join(a.repo, "src")]
    header = None
    for d in list(a.inc) + [os.path.join(a.repo, "src")]:
        p = os.path.join(d, "terminal.h")
        if os.path.isfile(p):
            header = os.path.abspath(p)
            break
    try:
        if header is None:
            die("terminal.h not found under %s" % ", ".join(incs))
        docs = parse_docs(run_clang(a.clang, incs, "MEDDLY::terminal::"))
        text = translate(docs, header)
    except Unsupported as e:
        sys.stderr.write("%s: UNSUPPORTED / FAILED: %s\n" % (PROG, e))
        sys.stderr.write("%s: %s was NOT written\n" % (PROG, a.out))
        return 2
    old = None
    if os.path.isfile(a.out):
        with open(a.out, encoding="utf-8") as fh:
            old = fh.read()
    if old == text:
        print("%s: %s is up to date" % (PROG, a.out))
        return 0
    if a.check:
        print("%s: %s would change" % (PROG, a.out))
        return 1
    os.makedirs(os.path.dirname(os.path.abspath(a.out)), exist_ok=True)
    tmp = a.out + ".tmp"
    with open(tmp, "w", encoding="utf-8") as fh:
        fh.write(text)
    os.replace(tmp, a.out)
    print("%s: wrote %s" % (PROG, a.out))
    return 0


if __name__ == "__main__":
    sys.exit(main())
