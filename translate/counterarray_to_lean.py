#!/usr/bin/env python3
"""
counterarray_to_lean.py -- translate `class MEDDLY::counter_array` (src/arrays.h, src/arrays.cc) into Lean 4:

    counter_array(w)                                       -> init
    entry_bits() get(i)                                    const members       State -> Except Err Nat
    swap(i,j) increment(i) decrement(i)                    void members        State -> Except Err State
    isZeroBeforeIncrement(i) isPositiveAfterDecrement(i)   bool members        State -> Except Err (State x Bool)
    expand(ns) shrink(ns)                                  (arrays.cc)
    expand8to16(j) expand16to32(j) shrink16to8(ns) shrink32to16(ns) shrink32to8(ns)     private (arrays.cc)
    + the fixed dispatcher  step : State -> Op -> Except Err (State x Nat)

    python3 translate/counterarray_to_lean.py --out lean/MeddlyModel/Gen/CounterArray.lean [--repo /repo] [-I DIR]...

How: one clang++-14 call on a probe that includes arrays.h and then the text of arrays.cc (both searched in the
`-I` directories first, then in <repo>/src); the typed JSON AST is walked by `HeapExec`, a subclass of the
symbolic executor of cxx2lean.py, which adds

  * the unsigned types `unsigned char / short / int / long (size_t)` as Lean `Nat` with EXPLICIT wrap-around
    (`% 256`, `% 65536`, `% 2^32`, `% 2^64`) on every arithmetic result and every narrowing conversion;
    integer promotions to `int` of values that are known to be non-negative are compared as naturals;
  * pointers: a pointer member is `Option (List Nat)` (`none` = nullptr, `some l` = a heap block holding
    `l.length` elements); inside a function pointers are null / a numbered heap block / "the member as it was on
    entry" (nullness unknown: a null test or an element access through it becomes a `match`, whose `none`
    branch is undefined behaviour for an access); blocks are updated in place, aliases see the update;
    free / use after free / dangling or leaked blocks at function exit are tracked, anything suspicious is
    rejected at translation time;
  * `malloc`, `realloc`, `free`, `memset(p + off, 0, n)`, with the semantics spelled out in the generated
    prelude (`fresh`, `realloc`, `memset0`): new memory is UNSPECIFIED (`junk`), allocation failure is not
    modelled (the `if (!p) throw INSUFFICIENT_MEMORY` tests are decided "not null"), a zero-size request is
    `.error .unmodelled` (implementation defined);
  * the copy loop  `for (size_t i=0; i<n; i++) dst[i] = src[i];`  as `(src.take n).map conv ++ dst.drop n`
    under the conditions n <= length of both blocks (otherwise undefined behaviour);
  * calls of other translated members `this->f(args)` as calls of the generated Lean function (the current
    symbolic state is packed into a `State`, the result is unpacked again), calls of the template `SWAP` and of
    functions with an empty body (`FAIL` in a release build) executed inline, `watch->expandElementSize(a,b)`
    / `shrinkElementSize(a,b)` appended to the ghost field `watched`.

Fails loudly (exit 2, names the construct and the source line, output untouched) on anything else.
"""
import argparse
import os
import sys

sys.path.insert(0, os.path.dirname(os.path.abspath(__file__)))
import cxx2lean as C                                                                     # noqa: E402
from cxx2lean import (Unsupported, die, where, file_of, run_clang, parse_docs, find_header, write_if_changed,  # noqa: E402
                      T_INT, T_BOOL, T_VOID, Ty, Val, Exec, Fn, union, SWITCH_END, lit as base_lit)

PROG = "counterarray_to_lean"
NOT_TRANSLATED = ("~counter_array (frees the three pointers, one watcher call)", "show (output only)")
LEAN_RESERVED = {"s", "junk", "e", "x", "fun", "let", "match", "with", "if", "then", "else", "end", "at", "from", "do", "in",
                 "have", "show", "by", "def", "theorem", "open", "where", "Nat", "List", "some", "none"}
P64 = 1 << 64


# --------------------------------------------------------------------------- types
class NatTy(Ty):
    def __init__(self, name, width):
        Ty.__init__(self, name, "nat", "Nat", width, False)
        self.mod = 1 << width


class PtrTy(Ty):
    def __init__(self, elem):
        Ty.__init__(self, elem.name + " *", "ptr", "Option (List Nat)")
        self.elem = elem


U8 = NatTy("unsigned char", 8)
U16 = NatTy("unsigned short", 16)
U32 = NatTy("unsigned int", 32)
U64 = NatTy("unsigned long", 64)
NATS = {t.name: t for t in (U8, U16, U32, U64)}
PTRS = {t.name: t for t in (PtrTy(U8), PtrTy(U16), PtrTy(U32))}
T_WATCH = Ty("MEDDLY::array_watcher *", "watch", "Bool")
T_VOIDP = Ty("void *", "voidptr", "-")
T_CSTR = Ty("const char *", "cstr", "-")
ALL_TYPES = dict(NATS)
ALL_TYPES.update(PTRS)
ALL_TYPES.update({"int": T_INT, "bool": T_BOOL, "void": T_VOID, T_WATCH.name: T_WATCH, "void *": T_VOIDP,
                  "array_watcher *": T_WATCH, "const char *": T_CSTR})


def my_type_of_json(t, ctx):
    q = t.get("desugaredQualType", t.get("qualType"))
    if q is None:
        die("%s: node without a type" % ctx)
    q = q.strip()
    ref = False
    if q.endswith("&"):
        ref = True
        q = q[:-1].strip()
    if q in ALL_TYPES:
        return ALL_TYPES[q], ref
    if q.endswith(" const") and q[:-6].strip() in ALL_TYPES:        # `T *const`
        return ALL_TYPES[q[:-6].strip()], ref
    if q.startswith("const ") and not q.endswith("*") and q[6:] in ALL_TYPES:   # a const scalar (members in const methods)
        return ALL_TYPES[q[6:]], ref
    die("%s: unsupported C++ type `%s`" % (ctx, t.get("qualType")))


C.TYPE_HOOK[0] = my_type_of_json
type_of_json = C.type_of_json
type_of = C.type_of


# --------------------------------------------------------------------------- values
class PVal:
    """a pointer value.  kind: 'null' | 'blk' (points to heap block `bid`, certainly not null) |
    'opt' (either null or block `bid`: the member `term : Option (List Nat)` as found in a State)"""

    def __init__(self, ty, kind, bid=None, term=None, off=None):
        self.ty, self.kind, self.bid, self.term, self.off = ty, kind, bid, term, off
        self.conds = []
        self.const = None

    def retype(self, ty):
        r = PVal(ty, self.kind, self.bid, self.term, self.off)
        for a in ("orig", "elem0"):
            if hasattr(self, a):
                setattr(r, a, getattr(self, a))
        return r


class RawAlloc:
    """the `void *` returned by malloc / realloc, waiting for the cast that tells the element type"""

    def __init__(self, nbytes, old, node):
        self.ty, self.nbytes, self.old, self.node = T_VOIDP, nbytes, old, node
        self.conds = []
        self.const = None


class Block:
    def __init__(self, elem, term, length, last=None, freed=False, origin=None, name="mem"):
        self.elem, self.term, self.length, self.last, self.freed, self.origin = elem, term, length, last, freed, origin
        self.name = name
        # origin = (base state variable, field): the block still is exactly what that member pointed to

    def upd(self, **kw):
        b = Block(self.elem, self.term, self.length, self.last, self.freed, self.origin, self.name)
        for k, v in kw.items():
            setattr(b, k, v)
        return b


class NullFork(Exception):
    def __init__(self, pv, node):
        Exception.__init__(self)
        self.pv, self.node = pv, node


class UBNow(Exception):
    def __init__(self, why):
        Exception.__init__(self)
        self.why = why


def nlit(ty, v):
    if ty == T_INT:
        r = base_lit(ty, v)
        if v >= 0:
            r.nat = "%d" % v
        return r
    return Val(ty, "%d" % (v % ty.mod), v % ty.mod, atom=True)


def natof(v):
    return getattr(v, "nat", None)


def atomic(term):
    return all(ch.isalnum() or ch in "_." for ch in term)


def par(term):
    return term if atomic(term) or C.single_group(term) else "(" + term + ")"


# --------------------------------------------------------------------------- the executor
GHOST = Ty("<watch log>", "ghost", "List (Bool × Nat × Nat)")
LIBC = {"malloc": "void *(size_t) noexcept(true)", "realloc": "void *(void *, size_t) noexcept(true)",
        "free": "void (void *) noexcept(true)", "memset": "void *(void *, int, size_t) noexcept(true)"}
VOID_RESULT = Val(T_VOID, "()", None, True)


class Member:
    """a translated member function, callable from the members translated after it"""

    def __init__(self, decl, cxx, lean, params, ret, const):
        self.decl, self.cxx, self.lean, self.params, self.ret, self.const = decl, cxx, lean, params, ret, const
        self.needs_junk = False


class HeapExec(Exec):
    def __init__(self, fields):
        Exec.__init__(self)
        self.fields = fields            # [(name, Ty)] in declaration order, the ghost `watched` after `watch`
        self.members = {}               # clang decl id -> Member
        self.watch_methods = {}         # clang decl id -> True (expandElementSize) | False (shrinkElementSize)
        self.inline_fns = {}            # clang decl id -> FunctionDecl with a body (SWAP<T>, FAIL)
        self.subst = {}                 # id(node) -> Val   (the element read inside a copy loop)
        self.varname = {}
        self.nblocks = 0

    # ---------------------------------------------------------------- environment helpers
    def new_bid(self):
        self.nblocks += 1
        return self.nblocks

    def facts(self, env):
        return env.get(("facts",), ())

    def add_fact(self, env, p):
        if p not in self.facts(env):
            env[("facts",)] = self.facts(env) + (p,)

    def need(self, f, env, prop, why, kind="ub"):
        """the rest of the function runs only under `prop`; otherwise the outcome is `.error .<kind>`"""
        if prop == "True" or prop in self.facts(env):
            return
        f.pending.append(("assert", prop, why, kind))
        self.add_fact(env, prop)

    def bind(self, f, base, lean_ty, term):
        name = f.fresh(base)
        f.pending.append(("let", name, lean_ty, term))
        return name

    def load_state(self, env, base):
        """all members as found in the State variable `base`"""
        env[("base",)] = base
        for name, ty in self.fields:
            proj = "%s.%s" % (base, name)
            if ty.kind == "ptr":
                bid = self.new_bid()
                g = "(%s.getD [])" % proj
                env[("blk", bid)] = Block(ty.elem, g, g + ".length", origin=(base, name))
                env[("blk", bid)].name = name
                pv = PVal(ty, "opt", bid, proj)
                pv.orig = (base, name)
                env[("this", name)] = pv
            elif ty.kind == "watch":
                env[("this", name)] = Val(ty, proj, None, True, prop="%s = true" % proj)
            else:
                env[("this", name)] = Val(ty, proj, None, True)

    def block_of(self, f, env, pv, n, what):
        """the live block a pointer points to, for an access (`what`); null -> UB, unknown -> fork"""
        if not isinstance(pv, PVal) or pv.ty.kind != "ptr":
            die("%s: %s through something that is not a data pointer at %s" % (f.name, what, where(n)))
        if pv.kind == "null":
            raise UBNow("%s through a null pointer at %s" % (what, where(n)))
        blk = env.get(("blk", pv.bid))
        if blk is None or blk.freed:
            die("%s: %s through a dangling pointer (the block was freed / reallocated) at %s" % (f.name, what, where(n)))
        if pv.kind == "opt":
            raise NullFork(pv, n)
        return blk

    def field_value(self, f, env, name, ty, base, n):
        """-> Lean term of a member for a State literal, or None if it still is `base.name`"""
        v = env.get(("this", name))
        if v is None:
            die("%s: a path ends without the member `%s` ever being written" % (f.name, name))
        if ty.kind == "ptr":
            if not isinstance(v, PVal):
                die("%s: the member `%s` holds something that is not a pointer at the end of a path" % (f.name, name))
            orig = getattr(v, "orig", None)
            if v.kind == "null":
                return None if orig == (base, name) and base is not None else "none"
            blk = env.get(("blk", v.bid))
            if blk is None or blk.freed:
                die("%s: the member `%s` is left dangling (it points to a freed / reallocated block) at %s"
                    % (f.name, name, where(n)))
            if blk.elem != ty.elem:
                die("%s: the member `%s` points to a block of %s" % (f.name, name, blk.elem))
            if orig == (base, name) and blk.origin == (base, name) and base is not None:
                return None
            if v.kind == "opt":
                return v.term
            return "some %s" % par(blk.term)
        if isinstance(v, (PVal, RawAlloc)):
            die("%s: the member `%s` holds a pointer" % (f.name, name))
        if v.ty != ty:
            die("%s: the member `%s` holds a %s" % (f.name, name, v.ty))
        if base is not None and v.lean == "%s.%s" % (base, name):
            return None
        return v.lean

    def state_term(self, f, env, n):
        """Lean term of the current object state; checks for dangling members and leaked blocks"""
        base = env.get(("base",))
        parts, held = [], set()
        for name, ty in self.fields:
            t = self.field_value(f, env, name, ty, base, n)
            v = env[("this", name)]
            if isinstance(v, PVal) and v.kind != "null":
                if v.bid in held:
                    die("%s: two members point to the same block at %s" % (f.name, where(n)))
                held.add(v.bid)
            if t is not None:
                parts.append("%s := %s" % (name, t))
        for key, blk in env.items():
            if key[0] == "blk" and not blk.freed and key[1] not in held:
                if blk.origin is None:
                    die("%s: a block allocated or modified here (%s) is neither freed nor held by a member at %s"
                        % (f.name, blk.term, where(n)))
                f.note("the old value of `%s` is overwritten without free: a leak if it was not null (no effect on the model)"
                       % blk.origin[1])
        if base is None:
            return "{ " + ", ".join(parts) + " }"
        if not parts:
            return base
        return "{ %s with %s }" % (base, ", ".join(parts))

    # ---------------------------------------------------------------- lvalues
    def lvalue(self, f, n, env):
        k = n.get("kind")
        if k == "ParenExpr":
            return self.lvalue(f, n["inner"][0], env)
        if k == "DeclRefExpr":
            rd = n.get("referencedDecl", {})
            if rd.get("kind") not in ("ParmVarDecl", "VarDecl"):
                die("%s: lvalue DeclRefExpr to a %s `%s` at %s" % (f.name, rd.get("kind"), rd.get("name"), where(n)))
            if ("ref", rd["id"]) in env:
                return env[("ref", rd["id"])]
            self.varname[rd["id"]] = rd["name"]
            return ("var", rd["id"])
        if k == "MemberExpr":
            base = n["inner"][0]
            if base.get("kind") != "CXXThisExpr":
                die("%s: member access on something that is not `this` (%s) at %s" % (f.name, base.get("kind"), where(n)))
            if n.get("name") not in [x for x, _ in self.fields]:
                die("%s: unknown member `%s` at %s" % (f.name, n.get("name"), where(n)))
            return ("this", n.get("name"))
        if k == "ArraySubscriptExpr":
            base, idx = n["inner"]
            pv = self.expr(f, base, env)
            if isinstance(pv, PVal) and pv.off is not None:
                die("%s: subscript of an offset pointer at %s" % (f.name, where(n)))
            i = self.expr(f, idx, env)
            if isinstance(i, (PVal, RawAlloc)) or i.ty.kind != "nat":
                die("%s: subscript that is not of an unsigned type at %s" % (f.name, where(n)))
            blk = self.block_of(f, env, pv, n, "element access")
            self.need(f, env, "%s < %s" % (i.p(), blk.length), "element access out of bounds at %s" % where(n))
            return ("elem", pv.bid, i.p())
        die("%s: unsupported lvalue node kind `%s` at %s" % (f.name, k, where(n)))

    def loc_str(self, loc):
        if loc[0] == "var":
            return self.varname.get(loc[1], "?")
        if loc[0] == "elem":
            return "block%d[%s]" % (loc[1], loc[2])
        return loc[1]

    def loc_base(self, loc):
        return self.loc_str(loc)

    def read(self, f, loc, ty, env, n):
        if loc[0] == "elem":
            blk = env[("blk", loc[1])]
            if blk.freed:
                die("%s: read through a dangling pointer at %s" % (f.name, where(n)))
            if blk.elem != ty:
                die("%s: element of %s read as %s at %s" % (f.name, blk.elem, ty, where(n)))
            if blk.last is not None and blk.last[0] == loc[2]:
                return Val(ty, blk.last[1], blk.last[2], True)
            return Val(ty, "%s.getD %s 0" % (par(blk.term), loc[2]))
        if loc not in env or env[loc] is None:
            die("%s: read of `%s`, which is not an input of this translation and was never written, at %s"
                % (f.name, self.loc_str(loc), where(n)))
        v = env[loc]
        if v.ty != ty:
            die("%s: `%s` holds a %s but is read as %s at %s" % (f.name, self.loc_str(loc), v.ty, ty, where(n)))
        return v

    def store(self, f, loc, ty, v, env, n):
        if isinstance(v, RawAlloc):
            die("%s: the result of malloc / realloc must be cast to a data pointer type at once, at %s" % (f.name, where(n)))
        if v.ty != ty:
            die("%s: assignment of a %s to `%s : %s` without a cast at %s" % (f.name, v.ty, self.loc_str(loc), ty, where(n)))
        if isinstance(v, PVal):
            if loc[0] == "elem" or v.off is not None:
                die("%s: unsupported pointer store at %s" % (f.name, where(n)))
            env[loc] = v
            return v
        self.realise(f, v, "assignment to %s at %s" % (self.loc_str(loc), where(n)))
        if loc[0] == "elem":
            blk = env[("blk", loc[1])]
            if blk.freed:
                die("%s: write through a dangling pointer at %s" % (f.name, where(n)))
            if blk.elem != ty:
                die("%s: element of %s written as %s at %s" % (f.name, blk.elem, ty, where(n)))
            if not v.atom:
                v = Val(ty, self.bind(f, "v", "Nat", v.lean), v.const, True)
            name = self.bind(f, blk.name, "List Nat", "%s.set %s %s" % (par(blk.term), loc[2], v.p()))
            nb = blk.upd(term=name, last=(loc[2], v.lean, v.const), origin=None)
            nb.name = blk.name
            env[("blk", loc[1])] = nb
            return v
        if v.atom:
            nv = Val(ty, v.lean, v.const, True, prop=v.prop)
        else:
            nv = Val(ty, self.bind(f, self.loc_base(loc), ty.lean, v.lean), v.const, True)
        if natof(v) is not None:
            nv.nat = natof(v)
        env[loc] = nv
        return nv

    def incdec(self, f, n, env):
        op = n.get("opcode")
        sub = n["inner"][0]
        ty = type_of(sub)
        if ty.kind != "nat":
            die("%s: `%s` on a %s at %s" % (f.name, op, ty, where(n)))
        loc = self.lvalue(f, sub, env)
        a = self.read(f, loc, ty, env, n)
        v = self.nat_arith(f, "+" if op == "++" else "-", a, nlit(ty, 1), ty, n)
        new = self.store(f, loc, ty, v, env, n)
        return a, new

    # ---------------------------------------------------------------- expressions
    def e_IntegerLiteral(self, f, n, env):
        ty = type_of(n)
        if ty != T_INT and ty.kind != "nat":
            die("%s: integer literal of type %s at %s" % (f.name, ty, where(n)))
        v = int(n["value"])
        if ty == T_INT and not (C.INT_MIN <= v <= C.INT_MAX):
            die("%s: integer literal %d does not fit int at %s" % (f.name, v, where(n)))
        return nlit(ty, v)

    def e_UnaryExprOrTypeTraitExpr(self, f, n, env):
        if n.get("name") != "sizeof" or "argType" not in n:
            die("%s: unsupported %s at %s" % (f.name, n.get("name"), where(n)))
        q = n["argType"].get("desugaredQualType", n["argType"].get("qualType"))
        if q not in NATS:
            die("%s: sizeof(%s) at %s" % (f.name, q, where(n)))
        f.note("sizeof(%s) = %d" % (q, NATS[q].width // 8))
        return nlit(type_of(n), NATS[q].width // 8)

    def e_UnaryOperator(self, f, n, env):
        op = n.get("opcode")
        if op in ("++", "--"):
            old, new = self.incdec(f, n, env)
            return old if n.get("isPostfix") else new
        if op == "!":
            return Exec.e_UnaryOperator(self, f, n, env)
        die("%s: unsupported unary operator `%s` at %s" % (f.name, op, where(n)))

    def nat_arith(self, f, op, a, b, ty, n):
        m = ty.mod
        if a.const is not None and b.const is not None:
            v = {"+": a.const + b.const, "-": a.const - b.const, "*": a.const * b.const}[op] % m
            f.note("constant folded: %s %s %s = %d (%s)" % (a.const, op, b.const, v, ty))
            return nlit(ty, v)
        if op == "+":
            return Val(ty, "(%s + %s) %% %d" % (a.p(), b.p(), m))
        if op == "*":
            return Val(ty, "(%s * %s) %% %d" % (a.p(), b.p(), m))
        if b.const is not None:                         # a - c  =  a + (2^w - c)  modulo 2^w
            return Val(ty, "(%s + %d) %% %d" % (a.p(), (m - b.const) % m, m))
        return Val(ty, "(%s + %d - %s) %% %d" % (a.p(), m, b.p(), m))

    def e_BinaryOperator(self, f, n, env):
        op = n.get("opcode")
        if op == "=":
            die("%s: assignment used as a value at %s" % (f.name, where(n)))
        if op == ",":
            die("%s: comma operator at %s" % (f.name, where(n)))
        ty = type_of(n)
        if ty.kind == "ptr":
            if op != "+":
                die("%s: pointer arithmetic `%s` at %s" % (f.name, op, where(n)))
            pv = self.expr(f, n["inner"][0], env)
            off = self.expr(f, n["inner"][1], env)
            if not isinstance(pv, PVal) or pv.off is not None or isinstance(off, (PVal, RawAlloc)) or off.ty.kind != "nat":
                die("%s: unsupported pointer arithmetic at %s" % (f.name, where(n)))
            r = pv.retype(pv.ty)
            r.off = off
            if hasattr(pv, "orig"):
                r.orig = pv.orig
            return r
        a = self.expr(f, n["inner"][0], env)
        pend = len(f.pending)
        b = self.expr(f, n["inner"][1], env)
        if op in ("&&", "||") and len(f.pending) != pend:
            die("%s: the right operand of `%s` has effects / side conditions (short circuit not modelled) at %s"
                % (f.name, op, where(n)))
        return self.binop(f, op, a, b, ty, n)

    def binop(self, f, op, a, b, ty, n):
        if isinstance(a, (PVal, RawAlloc)) or isinstance(b, (PVal, RawAlloc)):
            die("%s: `%s` on pointers at %s" % (f.name, op, where(n)))
        cmpops = ("<", ">", "<=", ">=", "==", "!=")
        nat_cmp = None
        if op in cmpops and ty == T_BOOL:
            if a.ty.kind == "nat" and a.ty == b.ty:
                nat_cmp = (a.p(), b.p())
            elif a.ty == T_INT and b.ty == T_INT and natof(a) is not None and natof(b) is not None:
                nat_cmp = (par(natof(a)), par(natof(b)))
                f.note("comparison of two non-negative ints (promoted unsigned char / short, literals) as naturals")
        if nat_cmp is not None:
            if a.const is not None and b.const is not None:
                c = {"<": a.const < b.const, ">": a.const > b.const, "<=": a.const <= b.const,
                     ">=": a.const >= b.const, "==": a.const == b.const, "!=": a.const != b.const}[op]
                return Val(T_BOOL, "true" if c else "false", c, True, prop="True" if c else "False")
            lop = {"<": "<", ">": ">", "<=": "≤", ">=": "≥", "==": "=", "!=": "≠"}[op]
            p = "%s %s %s" % (nat_cmp[0], lop, nat_cmp[1])
            return Val(T_BOOL, "decide (%s)" % p, prop=p)
        if a.ty.kind == "nat" or b.ty.kind == "nat":
            if op in ("+", "-", "*") and a.ty == b.ty and a.ty == ty:
                return self.nat_arith(f, op, a, b, ty, n)
            die("%s: unsupported `%s` on %s, %s at %s" % (f.name, op, a.ty, b.ty, where(n)))
        if a.ty == T_INT and op not in ("||", "&&"):
            die("%s: run-time int arithmetic / comparison `%s` is not modelled here, at %s" % (f.name, op, where(n)))
        return Exec.binop(self, f, op, a, b, ty, n)

    def materialise(self, f, raw, ty, env, n):
        """(T*) malloc(nbytes) / (T*) realloc(p, nbytes): a new block of nbytes / sizeof(T) elements"""
        elem = ty.elem
        esize = elem.width // 8
        nb = raw.nbytes
        if nb.const is not None:
            if nb.const == 0:
                die("%s: allocation of 0 bytes at %s" % (f.name, where(n)))
        else:
            self.need(f, env, "%s ≠ 0" % nb.p(), "zero-size malloc / realloc at %s: the result is implementation defined"
                      % where(n), kind="unmodelled")
        cnt = nb if esize == 1 and nb.atom else Val(U64, self.bind(f, "n", "Nat", nb.lean if esize == 1 else
                                                                   "%s / %d" % (nb.p(), esize)), None, True)
        k = env.get(("junkctr",), 0)
        env[("junkctr",)] = k + 1
        f.needs_junk = True
        jt = "(junk [%d])" % k
        if raw.old is None:
            term = "fresh %s %d %s" % (jt, elem.mod, cnt.p())
            f.note("malloc at %s: %s new elements with unspecified contents; failure (nullptr) not modelled" % (where(n), "nbytes / %d" % esize))
        else:
            old = raw.old
            oelem = getattr(old, "elem0", None)
            if oelem != elem:
                die("%s: realloc of a block of %s into a block of %s at %s" % (f.name, oelem, elem, where(n)))
            if old.kind == "null":
                oterm = "[]"
            else:
                ob = env.get(("blk", old.bid))
                if ob is None or ob.freed:
                    die("%s: realloc of a dangling pointer at %s" % (f.name, where(n)))
                oterm = ob.term
                env[("blk", old.bid)] = ob.upd(freed=True)
            term = "realloc %s %d %s %s" % (jt, elem.mod, par(oterm), cnt.p())
            f.note("realloc at %s: the common prefix is kept, new elements are unspecified, the old block is gone; "
                   "failure (nullptr) not modelled" % where(n))
        bid = self.new_bid()
        name = self.bind(f, "mem", "List Nat", term)
        blk = Block(elem, name, cnt.lean)
        blk.name = "mem"
        env[("blk", bid)] = blk
        return PVal(ty, "blk", bid)

    def cast(self, f, n, env):
        ck = n.get("castKind")
        sub = n["inner"][0]
        if id(sub) in self.subst:
            return self.subst[id(sub)]
        if ck == "LValueToRValue":
            ty = type_of(n)
            sk = sub
            while sk.get("kind") == "ParenExpr":
                sk = sk["inner"][0]
            if sk.get("kind") == "BinaryOperator" and sk.get("opcode") == "=":
                return self.assign(f, sk, env)
            if sk.get("kind") == "UnaryOperator" and sk.get("opcode") in ("++", "--") and not sk.get("isPostfix"):
                return self.incdec(f, sk, env)[1]
            if sk.get("kind") == "ConditionalOperator":
                # `c ? x : y` with two lvalues is an lvalue; only its value is used here
                return self.conditional(f, sk, env, lambda b: self.cast(
                    f, {"kind": "ImplicitCastExpr", "castKind": "LValueToRValue", "type": n["type"], "inner": [b],
                        "range": b.get("range", {})}, env), ty)
            if sk.get("kind") == "CompoundAssignOperator":
                die("%s: %s used as an lvalue at %s" % (f.name, sk.get("kind"), where(n)))
            loc = self.lvalue(f, sub, env)
            return self.read(f, loc, ty, env, n)
        ty = type_of(n)
        if ck == "NullToPointer":
            if ty.kind == "ptr":
                return PVal(ty, "null")
            if ty.kind == "watch":
                return Val(ty, "false", False, True, prop="False")
            if ty.kind == "cstr":
                return Val(ty, "-", None, True)
            die("%s: nullptr as a %s at %s" % (f.name, ty, where(n)))
        if ck == "ArrayToPointerDecay" and sub.get("kind") == "StringLiteral" and ty.kind == "cstr":
            return Val(ty, "-", None, True)
        a = self.expr(f, sub, env)
        if ck == "NoOp":
            if a.ty != ty:
                die("%s: NoOp cast changes the type %s -> %s at %s" % (f.name, a.ty, ty, where(n)))
            return a
        if ck == "BitCast":
            if isinstance(a, RawAlloc) and ty.kind == "ptr":
                return self.materialise(f, a, ty, env, n)
            if isinstance(a, PVal) and ty == T_VOIDP and a.ty.kind == "ptr":
                r = a.retype(T_VOIDP)
                r.elem0 = a.ty.elem
                if hasattr(a, "orig"):
                    r.orig = a.orig
                return r
            die("%s: unsupported pointer cast %s -> %s at %s" % (f.name, a.ty, ty, where(n)))
        if ck == "PointerToBoolean":
            if isinstance(a, PVal):
                if a.off is not None:
                    die("%s: null test of an offset pointer at %s" % (f.name, where(n)))
                if a.kind == "null":
                    return Val(T_BOOL, "false", False, True, prop="False")
                blk = env.get(("blk", a.bid))
                if blk is None or blk.freed:
                    die("%s: null test of a dangling pointer at %s" % (f.name, where(n)))
                if a.kind == "blk":
                    return Val(T_BOOL, "true", True, True, prop="True")
                raise NullFork(a, n)
            if a.ty.kind == "watch":
                if a.const is not None:
                    return Val(T_BOOL, "true" if a.const else "false", a.const, True, prop="True" if a.const else "False")
                return Val(T_BOOL, a.lean, None, a.atom, prop="%s = true" % a.p())
            die("%s: PointerToBoolean on %s at %s" % (f.name, a.ty, where(n)))
        if isinstance(a, (PVal, RawAlloc)):
            die("%s: cast `%s` of a pointer at %s" % (f.name, ck, where(n)))
        if ck == "IntegralCast":
            return self.integral_cast(f, a, ty, n)
        if ck == "IntegralToBoolean":
            if a.ty.kind != "nat":
                die("%s: IntegralToBoolean on %s at %s" % (f.name, a.ty, where(n)))
            if a.const is not None:
                b = a.const != 0
                return Val(T_BOOL, "true" if b else "false", b, True, prop="True" if b else "False")
            p = "%s ≠ 0" % a.p()
            return Val(T_BOOL, "decide (%s)" % p, prop=p)
        die("%s: unsupported cast kind `%s` (%s) at %s" % (f.name, ck, n.get("kind"), where(n)))

    e_ImplicitCastExpr = cast
    e_CXXFunctionalCastExpr = cast
    e_CStyleCastExpr = cast
    e_CXXStaticCastExpr = cast

    def integral_cast(self, f, a, ty, n):
        if a.ty == ty:
            return a
        if a.ty.kind == "nat" and ty.kind == "nat":
            if a.const is not None:
                return nlit(ty, a.const)
            if ty.width >= a.ty.width:
                r = Val(ty, a.lean, None, a.atom)          # widening: the value is unchanged
            else:
                r = Val(ty, "%s %% %d" % (a.p(), ty.mod))   # narrowing: modulo 2^width
                f.note("conversion %s -> %s at %s: modulo %d" % (a.ty, ty, where(n), ty.mod))
            return r
        if a.ty.kind == "nat" and ty == T_INT:
            if a.const is not None:
                if a.const > C.INT_MAX:
                    die("%s: conversion of %d to int at %s" % (f.name, a.const, where(n)))
                return nlit(T_INT, a.const)
            if a.ty.width >= 32:
                die("%s: conversion %s -> int of a run-time value is not modelled, at %s" % (f.name, a.ty, where(n)))
            r = Val(T_INT, "Int.ofNat %s" % a.p())           # integer promotion: value preserved, non-negative
            r.nat = a.lean
            r.natwidth = a.ty.width
            return r
        if a.ty == T_INT and ty.kind == "nat":
            if a.const is not None:
                return nlit(ty, a.const)
            if natof(a) is not None:
                w = getattr(a, "natwidth", 31)
                if ty.width >= w:
                    return Val(ty, natof(a))
                return Val(ty, "%s %% %d" % (par(natof(a)), ty.mod))
            die("%s: conversion int -> %s of a run-time value is not modelled, at %s" % (f.name, ty, where(n)))
        die("%s: IntegralCast %s -> %s at %s" % (f.name, a.ty, ty, where(n)))

    # ---------------------------------------------------------------- calls
    def libc_name(self, f, n):
        callee = n["inner"][0]
        if callee.get("kind") == "ImplicitCastExpr" and callee.get("castKind") == "FunctionToPointerDecay":
            callee = callee["inner"][0]
        if callee.get("kind") != "DeclRefExpr":
            die("%s: call through a %s at %s" % (f.name, callee.get("kind"), where(n)))
        rd = callee.get("referencedDecl", {})
        return rd

    def e_CallExpr(self, f, n, env):
        rd = self.libc_name(f, n)
        name, sig = rd.get("name"), rd.get("type", {}).get("qualType")
        args = n["inner"][1:]
        if rd.get("kind") != "FunctionDecl" or name not in LIBC or sig != LIBC[name] or rd.get("id") in self.inline_fns:
            die("%s: call of `%s` (%s), which is neither malloc / realloc / free / memset nor an inlinable function, at %s"
                % (f.name, name, sig, where(n)))
        if name == "malloc":
            nb = self.expr(f, args[0], env)
            if isinstance(nb, (PVal, RawAlloc)) or nb.ty != U64:
                die("%s: malloc of a %s at %s" % (f.name, nb.ty, where(n)))
            return RawAlloc(nb, None, n)
        if name == "realloc":
            p = self.expr(f, args[0], env)
            nb = self.expr(f, args[1], env)
            if not isinstance(p, PVal) or p.ty != T_VOIDP or p.off is not None or isinstance(nb, (PVal, RawAlloc)) or nb.ty != U64:
                die("%s: unsupported realloc arguments at %s" % (f.name, where(n)))
            return RawAlloc(nb, p, n)
        if name == "free":
            p = self.expr(f, args[0], env)
            if not isinstance(p, PVal) or p.ty != T_VOIDP or p.off is not None:
                die("%s: free of something that is not a data pointer at %s" % (f.name, where(n)))
            if p.kind != "null":
                blk = env.get(("blk", p.bid))
                if blk is None or blk.freed:
                    die("%s: free of a dangling pointer (double free) at %s" % (f.name, where(n)))
                env[("blk", p.bid)] = blk.upd(freed=True)
            return VOID_RESULT
        # memset(p + off, 0, nbytes)
        p = self.expr(f, args[0], env)
        c = self.expr(f, args[1], env)
        nb = self.expr(f, args[2], env)
        if not isinstance(p, PVal) or p.ty != T_VOIDP or isinstance(c, (PVal, RawAlloc)) or c.const != 0 \
                or isinstance(nb, (PVal, RawAlloc)) or nb.ty != U64:
            die("%s: memset is modelled only as memset(<data pointer> [+ offset], 0, <size_t>), at %s" % (f.name, where(n)))
        q = p.retype(PTRS[p.elem0.name + " *"])
        q.off = None
        blk = self.block_of(f, env, q, n, "memset")
        esize = blk.elem.width // 8
        off = p.off.p() if p.off is not None else "0"
        if esize > 1:
            self.need(f, env, "%s %% %d = 0" % (nb.p(), esize), "memset of a partial element at %s" % where(n), kind="unmodelled")
            cnt = self.bind(f, "cnt", "Nat", "%s / %d" % (nb.p(), esize))
        else:
            cnt = nb.lean if nb.atom else self.bind(f, "cnt", "Nat", nb.lean)
        self.need(f, env, "%s + %s ≤ %s" % (off, par(cnt), blk.length), "memset beyond the end of the block at %s" % where(n))
        name = self.bind(f, blk.name, "List Nat", "memset0 %s %s %s" % (par(blk.term), off, par(cnt)))
        nb2 = blk.upd(term=name, last=None, origin=None)
        nb2.name = blk.name
        env[("blk", p.bid)] = nb2
        return VOID_RESULT

    def member_call(self, f, n, env):
        """`this->g(args)` for a translated member g, or `watch->expandElementSize(a, b)`"""
        m = n["inner"][0]
        if m.get("kind") != "MemberExpr":
            die("%s: unsupported member call at %s" % (f.name, where(n)))
        mid = m.get("referencedMemberDecl")
        obj = m["inner"][0]
        args = n["inner"][1:]
        if mid in self.watch_methods:
            w = self.expr(f, obj, env)
            if isinstance(w, (PVal, RawAlloc)) or w.ty.kind != "watch":
                die("%s: %s called on something that is not the watcher at %s" % (f.name, m.get("name"), where(n)))
            if w.const is False:
                raise UBNow("member call on a null watcher at %s" % where(n))
            if w.const is None:
                self.need(f, env, "%s = true" % w.p(), "member call on a null watcher at %s" % where(n))
            vals = [self.expr(f, a, env) for a in args]
            if len(vals) != 2 or any(isinstance(v, (PVal, RawAlloc)) or v.ty != U32 for v in vals):
                die("%s: unexpected arguments of %s at %s" % (f.name, m.get("name"), where(n)))
            log = env[("this", "watched")]
            name = self.bind(f, "watched", GHOST.lean, "%s ++ [(%s, %s, %s)]"
                             % (log.p(), "true" if self.watch_methods[mid] else "false", vals[0].lean, vals[1].lean))
            env[("this", "watched")] = Val(GHOST, name, None, True)
            return
        if obj.get("kind") != "CXXThisExpr" or mid not in self.members:
            die("%s: call of member function `%s`, which is not one of the translated members, at %s"
                % (f.name, m.get("name"), where(n)))
        g = self.members[mid]
        if g.ret != T_VOID or g.const:
            die("%s: call of %s (not a void, non-const member) at %s" % (f.name, g.cxx, where(n)))
        if len(args) != len(g.params):
            die("%s: call of %s with %d arguments at %s" % (f.name, g.cxx, len(args), where(n)))
        vals = []
        for (pname, pty), a in zip(g.params, args):
            v = self.expr(f, a, env)
            if isinstance(v, (PVal, RawAlloc)) or v.ty != pty:
                die("%s: argument `%s` of %s has the wrong type at %s" % (f.name, pname, g.cxx, where(a)))
            vals.append(v)
        for key, v in env.items():
            if key[0] == "var" and isinstance(v, PVal) and v.kind != "null":
                die("%s: the local pointer `%s` is live across the call of %s at %s" % (f.name, self.varname.get(key[1]), g.cxx, where(n)))
        st = self.state_term(f, env, n)
        if not atomic(st):
            st = self.bind(f, "s", "State", st)
        jarg = ""
        if g.needs_junk:
            k = env.get(("junkctr",), 0)
            env[("junkctr",)] = k + 1
            f.needs_junk = True
            jarg = " (fun t => junk (%d :: t))" % k
        res = f.fresh("s")
        f.pending.append(("bind", res, "%s%s %s%s" % (g.lean, jarg, st, "".join(" " + v.p() for v in vals))))
        for key in [k for k in env if k[0] == "blk"]:
            del env[key]
        self.load_state(env, res)
        f.note("call of %s at %s: the generated `%s` is applied to the current state" % (g.cxx, where(n), g.lean))

    # ---------------------------------------------------------------- statements
    def simple(self, f, n, env):
        k = n.get("kind")
        if k == "BinaryOperator" and n.get("opcode") == "=":
            self.assign(f, n, env)
        elif k == "UnaryOperator" and n.get("opcode") in ("++", "--"):
            self.incdec(f, n, env)
        elif k == "CallExpr":
            self.e_CallExpr(f, n, env)
        elif k == "DeclStmt":
            for d in n.get("inner", []):
                if d.get("kind") != "VarDecl":
                    die("%s: unsupported declaration kind `%s` at %s" % (f.name, d.get("kind"), where(d)))
                vt, ref = type_of_json(d["type"], "VarDecl at " + where(d))
                if ref or vt.kind not in ("nat", "ptr"):
                    die("%s: local `%s` of type %s%s at %s" % (f.name, d.get("name"), vt, " &" if ref else "", where(d)))
                init = [c for c in d.get("inner", []) if "Comment" not in c.get("kind", "")]
                loc = ("var", d["id"])
                self.varname[d["id"]] = d["name"]
                if loc in env:
                    die("%s: local `%s` declared twice on one path at %s" % (f.name, d["name"], where(d)))
                if d["name"] in LEAN_RESERVED or d["name"] in [x for x, _ in self.fields]:
                    die("%s: local `%s` clashes with a name used by the generated code" % (f.name, d["name"]))
                if not init:
                    env[loc] = None
                else:
                    self.store(f, loc, vt, self.expr(f, init[0], env), env, d)
        else:
            die("%s: unsupported statement node kind `%s` at %s" % (f.name, k, where(n)))

    def wrap(self, pending, tree):
        for it in reversed(pending):
            if it[0] == "let":
                tree = ("let", it[1], it[2], it[3], tree)
            elif it[0] == "bind":
                tree = ("bind", it[1], it[2], tree)
            else:
                tree = ("assert", it[1], it[2], tree, it[3])
        return tree

    def leaf(self, f, v, env, n):
        if isinstance(v, (PVal, RawAlloc)):
            die("%s: returns a pointer at %s" % (f.name, where(n)))
        return ("ret", v, env, self.state_term(f, env, n))

    def run(self, f, stmts, env, end=None):
        while stmts:
            n, stmts = stmts[0], stmts[1:]
            if n is SWITCH_END:
                continue
            if n.get("kind") == "<inline-end>":
                for key in [k for k in env if k[0] in ("var", "ref") and k not in n["keep"]]:
                    del env[key]
                continue
            snap_env, snap_cnt, snap_blocks = dict(env), dict(f.counters), self.nblocks
            try:
                r = self.stmt(f, n, stmts, env)
            except NullFork as fk:
                env.clear()
                env.update(snap_env)
                f.counters = snap_cnt
                self.take(f)
                return self.null_fork(f, fk, [n] + stmts, env)
            except UBNow as u:
                self.take(f)
                return ("ub", u.why)
            if r[0] == "tree":
                return r[1]
            stmts = r[1]
            pend = self.take(f)
            if pend:
                return self.wrap(pend, self.run(f, stmts, env))
        return self.leaf(f, None, env, f.decl)

    def null_fork(self, f, fk, stmts, env):
        pv = fk.pv
        base, field = pv.orig
        name = field if pv.term == "s." + field and field not in f.reserved_used else f.fresh(field)
        f.reserved_used.add(name)
        e1, e2 = dict(env), dict(env)
        for key, v in env.items():
            if isinstance(v, PVal) and v.kind == "opt" and v.bid == pv.bid:
                a = PVal(v.ty, "blk", v.bid)
                a.orig = v.orig
                e1[key] = a
                b = PVal(v.ty, "null")
                b.orig = v.orig
                e2[key] = b
        blk = env[("blk", pv.bid)]
        e1[("blk", pv.bid)] = blk.upd(term=name, length=name + ".length")
        del e2[("blk", pv.bid)]
        t1 = self.run(f, stmts, e1)
        f.reserved_used.discard(name)
        t2 = self.run(f, stmts, e2)
        f.note("`%s` tested / dereferenced at %s: match on the member (none = nullptr)" % (field, where(fk.node)))
        return ("match", pv.term, name, t1, t2)

    def stmt(self, f, n, rest, env):
        """-> ('cont', statements still to run) | ('tree', outcome tree)"""
        k = n.get("kind")
        if k == "NullStmt":
            return ("cont", rest)
        if k == "CompoundStmt":
            return ("cont", list(n.get("inner", [])) + rest)
        if k in ("CaseStmt", "DefaultStmt"):
            return ("cont", [n["inner"][-1]] + rest)
        if k == "BreakStmt":
            while rest and rest[0] is not SWITCH_END:
                rest = rest[1:]
            if not rest:
                die("%s: `break` outside a switch at %s" % (f.name, where(n)))
            return ("cont", rest)
        if k == "ExprWithCleanups" and n["inner"][0].get("kind") == "CXXThrowExpr":
            n = n["inner"][0]
            k = "CXXThrowExpr"
        if k == "CXXThrowExpr":
            code = self.throw_code(f, n)
            if code not in f.throws:
                f.throws.append(code)
            return ("tree", ("throw", code))
        if k == "ReturnStmt":
            if n.get("inner"):
                v = self.expr(f, n["inner"][0], env)
                if not isinstance(v, (PVal, RawAlloc)):
                    self.realise(f, v, "return value at %s" % where(n))
                if not v.atom and v.ty.kind == "nat":
                    v = Val(v.ty, self.bind(f, "r", "Nat", v.lean), v.const, True)
                return ("tree", self.wrap(self.take(f), self.leaf(f, v, env, n)))
            return ("tree", self.leaf(f, None, env, n))
        if k == "IfStmt":
            if n.get("hasInit") or n.get("hasVar") or n.get("isConstexpr"):
                die("%s: if with init / declaration / constexpr at %s" % (f.name, where(n)))
            inner = n["inner"]
            c = self.expr(f, inner[0], env)
            if isinstance(c, (PVal, RawAlloc)) or c.ty != T_BOOL:
                die("%s: if condition that is not a bool at %s" % (f.name, where(n)))
            pend = self.take(f)
            th = [inner[1]]
            el = [inner[2]] if len(inner) > 2 else []
            if c.const is not None:
                f.note("`if` at %s decided at translation time: %s" % (where(n), "true" if c.const else "false"))
                return ("tree", self.wrap(pend, self.run(f, (th if c.const else el) + rest, env)))
            p = c.as_prop()
            e1, e2 = dict(env), dict(env)
            self.add_fact(e1, p)
            return ("tree", self.wrap(pend, ("if", p, self.run(f, th + rest, e1), self.run(f, el + rest, e2))))
        if k == "SwitchStmt":
            return ("tree", self.switch(f, n, rest, env))
        if k == "ForStmt":
            self.copy_loop(f, n, env)
            return ("cont", rest)
        if k == "CXXMemberCallExpr":
            self.member_call(f, n, env)
            return ("cont", rest)
        if k == "CallExpr":
            rd = self.libc_name(f, n)
            if rd.get("id") in self.inline_fns:
                return ("cont", self.inline_call(f, n, self.inline_fns[rd["id"]], env) + rest)
        self.simple(f, n, env)
        return ("cont", rest)

    def switch(self, f, n, stmts, env):
        if n.get("hasInit") or n.get("hasVar"):
            die("%s: switch with init / declaration at %s" % (f.name, where(n)))
        ce = n["inner"][0]
        c = self.expr(f, ce, env)
        if isinstance(c, (PVal, RawAlloc)) or c.ty.kind != "nat":
            die("%s: switch on something that is not an unsigned value at %s" % (f.name, where(n)))
        pend = self.take(f)
        # the location that is switched on (a plain read): inside `case v:` it is known to hold v
        loc = None
        if ce.get("kind") == "ImplicitCastExpr" and ce.get("castKind") == "LValueToRValue" \
                and ce["inner"][0].get("kind") in ("MemberExpr", "DeclRefExpr"):
            loc = self.lvalue(f, ce["inner"][0], env)
        body = n["inner"][1]
        if body.get("kind") != "CompoundStmt":
            die("%s: switch body is not a compound statement at %s" % (f.name, where(n)))
        items = body.get("inner", [])
        labels, default = [], None
        for i, it in enumerate(items):
            lab = it
            while lab.get("kind") in ("CaseStmt", "DefaultStmt"):
                if lab.get("kind") == "CaseStmt":
                    v = self.case_value(f, lab)
                    if v in [x for x, _ in labels]:
                        die("%s: duplicate case %d at %s" % (f.name, v, where(lab)))
                    labels.append((v, i))
                else:
                    if default is not None:
                        die("%s: two default labels at %s" % (f.name, where(lab)))
                    default = i
                lab = lab["inner"][-1]
            if self.contains(lab, ("CaseStmt", "DefaultStmt")) and lab.get("kind") != "SwitchStmt":
                die("%s: case label below the top level of the switch body at %s" % (f.name, where(lab)))
            if self.contains(lab, ("SwitchStmt",)):
                die("%s: nested switch at %s" % (f.name, where(lab)))
        rest = [SWITCH_END] + stmts
        if c.const is not None:
            start = next((i for v, i in labels if v == c.const), default)
            f.note("switch at %s decided at translation time: %d" % (where(n), c.const))
            return self.wrap(pend, self.run(f, (list(items[start:]) if start is not None else []) + rest, env))
        branches = []
        for v, i in labels:
            e2 = dict(env)
            p = "%s = %d" % (c.p(), v)
            self.add_fact(e2, p)
            if loc is not None:
                e2[loc] = nlit(c.ty, v)
            branches.append((p, self.run(f, list(items[i:]) + rest, e2)))
        tree = self.run(f, (list(items[default:]) if default is not None else []) + rest, dict(env))
        for cnd, br in reversed(branches):
            tree = ("if", cnd, br, tree)
        f.note("switch at %s on a run-time value: if-chain over the labels %s%s; statements run from the selected label with "
               "fall-through until break / return; inside `case v` the switched member is the constant v"
               % (where(n), ", ".join(str(v) for v, _ in labels), " and default" if default is not None else ""))
        return self.wrap(pend, tree)

    def copy_loop(self, f, n, env):
        """for (size_t i = 0; i < N; i++) { DST[i] = (conversions) SRC[i]; }"""
        def bad(what):
            die("%s: a loop that is not of the form `for (size_t i=0; i<n; i++) dst[i] = src[i];` (%s) at %s"
                % (f.name, what, where(n)))
        inner = n.get("inner", [])
        if len(inner) != 5:
            bad("shape")
        init, condvar, cond, inc, body = inner
        if condvar.get("kind"):
            bad("condition variable")
        if init.get("kind") != "DeclStmt" or len(init.get("inner", [])) != 1 or init["inner"][0].get("kind") != "VarDecl":
            bad("init statement")
        vd = init["inner"][0]
        vt, ref = type_of_json(vd["type"], "loop variable at " + where(vd))
        vinit = [c for c in vd.get("inner", []) if "Comment" not in c.get("kind", "")]
        if ref or vt.kind != "nat" or len(vinit) != 1:
            bad("loop variable")
        iv = self.expr(f, vinit[0], env)
        if iv.const != 0:
            bad("start value")
        vid = vd["id"]

        def is_var(e):
            return (e.get("kind") == "ImplicitCastExpr" and e.get("castKind") == "LValueToRValue"
                    and e["inner"][0].get("kind") == "DeclRefExpr" and e["inner"][0]["referencedDecl"].get("id") == vid)

        def mentions(e):
            if e.get("kind") == "DeclRefExpr" and e.get("referencedDecl", {}).get("id") == vid:
                return True
            return any(mentions(c) for c in e.get("inner", []) if isinstance(c, dict))

        if cond.get("kind") != "BinaryOperator" or cond.get("opcode") != "<" or not is_var(cond["inner"][0]) \
                or mentions(cond["inner"][1]):
            bad("condition")
        if inc.get("kind") != "UnaryOperator" or inc.get("opcode") != "++" or inc["inner"][0].get("kind") != "DeclRefExpr" \
                or inc["inner"][0]["referencedDecl"].get("id") != vid:
            bad("increment")
        bound = self.expr(f, cond["inner"][1], env)
        if isinstance(bound, (PVal, RawAlloc)) or bound.ty != vt:
            bad("bound type")
        st = body
        if st.get("kind") == "CompoundStmt":
            if len(st.get("inner", [])) != 1:
                bad("body")
            st = st["inner"][0]
        if st.get("kind") != "BinaryOperator" or st.get("opcode") != "=":
            bad("body")
        lhs, rhs = st["inner"]
        if lhs.get("kind") != "ArraySubscriptExpr" or not is_var(lhs["inner"][1]) or mentions(lhs["inner"][0]):
            bad("left side")
        e = rhs
        while e.get("kind") in ("ImplicitCastExpr", "ParenExpr", "CStyleCastExpr", "CXXStaticCastExpr") and len(e.get("inner", [])) == 1:
            if e.get("kind") == "ImplicitCastExpr" and e.get("castKind") == "LValueToRValue":
                break
            e = e["inner"][0]
        if e.get("kind") != "ImplicitCastExpr" or e.get("castKind") != "LValueToRValue" \
                or e["inner"][0].get("kind") != "ArraySubscriptExpr":
            bad("right side")
        src_sub = e["inner"][0]
        if not is_var(src_sub["inner"][1]) or mentions(src_sub["inner"][0]):
            bad("right side subscript")
        dst = self.expr(f, lhs["inner"][0], env)
        src = self.expr(f, src_sub["inner"][0], env)
        for pv in (dst, src):
            if not isinstance(pv, PVal) or pv.ty.kind != "ptr" or pv.off is not None:
                bad("pointers")
        # destination: a certainly live block; source: null counts as an empty block (no iteration may read it)
        dblk = self.block_of(f, env, dst, n, "copy loop store")
        if src.kind == "null":
            sterm, slen, selem = "[]", "0", src.ty.elem
        else:
            sblk = env.get(("blk", src.bid))
            if sblk is None or sblk.freed:
                die("%s: copy loop reads through a dangling pointer at %s" % (f.name, where(n)))
            if src.bid == dst.bid:
                bad("source and destination are the same block")
            sterm, slen, selem = sblk.term, sblk.length, sblk.elem
        x = Val(selem, "x", None, True)
        self.subst[id(src_sub)] = x
        pend = len(f.pending)
        try:
            conv = self.expr(f, rhs, env)
        finally:
            del self.subst[id(src_sub)]
        if len(f.pending) != pend or isinstance(conv, (PVal, RawAlloc)) or conv.ty != dblk.elem:
            bad("conversion")
        nterm = bound.p()
        self.need(f, env, "%s ≤ %s" % (nterm, slen), "copy loop at %s reads beyond the source block" % where(n))
        self.need(f, env, "%s ≤ %s" % (nterm, dblk.length), "copy loop at %s writes beyond the destination block" % where(n))
        taken = "%s.take %s" % (par(sterm), nterm)
        if conv.lean != "x":
            taken = "(%s).map (fun x => %s)" % (taken, conv.lean)
        name = self.bind(f, dblk.name, "List Nat", "%s ++ %s.drop %s" % (taken, par(dblk.term), nterm))
        env[("blk", dst.bid)] = dblk.upd(term=name, last=None, origin=None)
        f.note("copy loop at %s: %s elements, conversion %s -> %s: %s" % (where(n), nterm, selem, dblk.elem,
               "identity (widening)" if conv.lean == "x" else "fun x => " + conv.lean))

    def inline_call(self, f, n, decl, env):
        body = [c for c in decl.get("inner", []) if c.get("kind") == "CompoundStmt"][0]
        params = [p for p in decl.get("inner", []) if p.get("kind") == "ParmVarDecl"]
        args = n["inner"][1:]
        if not body.get("inner"):
            for a in args:
                if self.contains(a, ("CallExpr", "CXXMemberCallExpr", "UnaryOperator", "BinaryOperator", "CompoundAssignOperator")):
                    die("%s: argument with effects in a call of the empty function %s at %s" % (f.name, decl.get("name"), where(n)))
            f.note("call of %s at %s: the function has an empty body in this build (no DEVELOPMENT_CODE): no effect"
                   % (decl.get("name"), where(n)))
            return []
        if self.contains(body, ("ReturnStmt",)):
            die("%s: inlined function %s contains a return statement" % (f.name, decl.get("name")))
        if len(args) != len(params):
            die("%s: call of %s with %d arguments (default arguments are not modelled) at %s" % (f.name, decl.get("name"), len(args), where(n)))
        keep = set(k for k in env if k[0] in ("var", "ref"))
        binds = []
        for p, a in zip(params, args):
            pty, ref = type_of_json(p["type"], "parameter of %s" % decl.get("name"))
            self.varname[p["id"]] = p["name"]
            if ref:
                binds.append((("ref", p["id"]), self.lvalue(f, a, env)))
            else:
                binds.append((("var", p["id"]), self.expr(f, a, env)))
        for key, v in binds:
            env[key] = v
        f.note("call of %s at %s executed inline (reference parameters are the argument lvalues themselves)" % (decl.get("name"), where(n)))
        return [body, {"kind": "<inline-end>", "keep": keep}]


# --------------------------------------------------------------------------- emission
def emit(t, indent, retkind, f):
    """Lean term of an outcome tree.  retkind: 'state' | 'value' | 'both' | 'init'"""
    pad = " " * indent
    k = t[0]
    if k == "let":
        ty = t[2].lean if isinstance(t[2], Ty) else t[2]
        return pad + "let %s : %s := %s\n" % (t[1], ty, t[3]) + emit(t[4], indent, retkind, f)
    if k == "assert":
        why = ("undefined behaviour: " if t[4] == "ub" else "not modelled: ") + t[2]
        if retkind == "init":
            die("%s: a side condition (%s) in a function that must be total" % (f.name, t[1]))
        return (pad + "if %s then\n" % t[1] + emit(t[3], indent + 2, retkind, f) + "\n" + pad
                + "else .error .%s  -- %s" % (t[4], why))
    if k == "if":
        return (pad + "if %s then\n" % t[1] + emit(t[2], indent + 2, retkind, f) + "\n" + pad + "else\n"
                + emit(t[3], indent + 2, retkind, f))
    if k == "match":
        return (pad + "match %s with\n" % t[1] + pad + "| some %s =>\n" % t[2] + emit(t[3], indent + 2, retkind, f) + "\n"
                + pad + "| none =>\n" + emit(t[4], indent + 2, retkind, f))
    if k == "bind":
        if retkind == "init":
            die("%s: a member call in a function that must be total" % f.name)
        sub = t[3]
        if retkind == "state" and sub[0] == "ret" and sub[1] is None and sub[3] == t[1]:
            return pad + t[2]                       # tail call: `g s args` instead of match .. | .ok s' => .ok s'
        return (pad + "match %s with\n" % t[2] + pad + "| .error e => .error e\n" + pad + "| .ok %s =>\n" % t[1]
                + emit(sub, indent + 2, retkind, f))
    if k == "ub":
        if retkind == "init":
            die("%s: undefined behaviour (%s) in a function that must be total" % (f.name, t[1]))
        return pad + ".error .ub  -- undefined behaviour: %s" % t[1]
    if k == "throw":
        if retkind == "init":
            die("%s: throws in a function that must be total" % f.name)
        return pad + ".error .thrown  -- throw error(%s)" % t[1]
    if k != "ret":
        die("internal: outcome %s" % k)
    v, st = t[1], t[3]
    if retkind == "init":
        if v is not None:
            die("%s: returns a value" % f.name)
        return pad + st
    if retkind == "state":
        if v is not None:
            die("%s: a void member returns a value" % f.name)
        return pad + ".ok %s" % par(st)
    if v is None:
        die("%s: a path ends without a return value" % f.name)
    if retkind == "value":
        if st != "s":
            die("%s: a const member changes the state (%s)" % (f.name, st))
        return pad + ".ok %s" % v.p()
    return pad + ".ok (%s, %s)" % (st, v.lean)


PRELUDE = '''set_option linter.unusedVariables false

namespace Gen.CounterArray

/-- how a call can fail: undefined behaviour (subscript out of bounds, null dereference, ...), a `throw`, or a
    situation whose outcome is defined by the platform but not modelled here (zero-size malloc / realloc) -/
inductive Err where
  | ub
  | thrown
  | unmodelled
  deriving DecidableEq, Repr, Inhabited

/-- `n` elements of newly allocated memory: UNSPECIFIED contents (`junk k`, reduced to the element type) -/
def fresh (junk : Nat → Nat) (lim n : Nat) : List Nat := (List.range n).map fun k => junk k % lim

/-- `realloc(p, n * sizeof(T))`: the common prefix is kept, elements beyond the old size are unspecified;
    `old = []` for `realloc(nullptr, ..)` -/
def realloc (junk : Nat → Nat) (lim : Nat) (old : List Nat) (n : Nat) : List Nat :=
  old.take n ++ fresh junk lim (n - old.length)

/-- `memset(p + off, 0, cnt * sizeof(T))` -/
def memset0 (l : List Nat) (off cnt : Nat) : List Nat :=
  l.take off ++ List.replicate cnt 0 ++ l.drop (off + cnt)
'''


def body_of(d):
    b = [c for c in d.get("inner", []) if c.get("kind") == "CompoundStmt"]
    return b[0] if b else None


def translate(docs, header, source):
    # ---- collect the declarations ---------------------------------------------------------------
    cls = [d for d in docs if d.get("kind") == "CXXRecordDecl" and d.get("name") == "counter_array" and d.get("completeDefinition")]
    if len(cls) != 1:
        die("expected exactly one definition of class MEDDLY::counter_array, found %d" % len(cls))
    cls = cls[0]
    if os.path.realpath(file_of(cls) or "") != os.path.realpath(header):
        die("class counter_array was read from %s, not from %s (include order / include guard?)" % (file_of(cls), header))
    methods, fields_cxx = {}, []
    for m in cls.get("inner", []):
        if m.get("kind") in ("CXXMethodDecl", "CXXConstructorDecl", "CXXDestructorDecl") and not m.get("isImplicit"):
            methods.setdefault(m.get("name"), []).append(m)
        elif m.get("kind") == "FieldDecl":
            fields_cxx.append((m.get("name"), m["type"].get("desugaredQualType", m["type"]["qualType"])))
    expected = [("watch", "MEDDLY::array_watcher *"), ("data8", "unsigned char *"), ("data16", "unsigned short *"),
                ("data32", "unsigned int *"), ("size", "unsigned long"), ("counts_09bit", "unsigned long"),
                ("counts_17bit", "unsigned long"), ("bytes", "unsigned int")]
    if fields_cxx != expected:
        die("the data members of counter_array changed: %s" % fields_cxx)
    fields = []
    for name, q in fields_cxx:
        fields.append((name, ALL_TYPES[q]))
        if name == "watch":
            fields.append(("watched", GHOST))
    outofline = {}
    for d in docs:
        if d.get("kind") in ("CXXMethodDecl", "CXXConstructorDecl") and d.get("parentDeclContextId") == cls.get("id") \
                and body_of(d) is not None:
            if os.path.realpath(file_of(d) or "") != os.path.realpath(source):
                die("counter_array::%s was read from %s, not from %s" % (d.get("name"), file_of(d), source))
            outofline.setdefault(d.get("name"), []).append(d)
    watch_methods, inline_fns = {}, {}

    def scan_namespace(nd):
        for c in nd.get("inner", []):
            k = c.get("kind")
            if k == "FunctionDecl" and c.get("name") == "FAIL" and body_of(c) is not None:
                inline_fns[c["id"]] = c
            elif k == "FunctionTemplateDecl" and c.get("name") == "SWAP":
                for s in c.get("inner", []):
                    if s.get("kind") == "FunctionDecl" and body_of(s) is not None \
                            and any(a.get("kind") == "TemplateArgument" for a in s.get("inner", [])):
                        inline_fns[s["id"]] = s

    for d in docs:
        if d.get("kind") == "NamespaceDecl" and d.get("name") == "MEDDLY":
            scan_namespace(d)
        if d.get("kind") == "CXXRecordDecl" and d.get("name") == "array_watcher" and d.get("completeDefinition"):
            for m in d.get("inner", []):
                if m.get("kind") == "CXXMethodDecl" and m.get("name") in ("expandElementSize", "shrinkElementSize"):
                    if m["type"]["qualType"] != "void (unsigned int, unsigned int)":
                        die("array_watcher::%s has an unexpected type %s" % (m.get("name"), m["type"]["qualType"]))
                    watch_methods[m["id"]] = m.get("name") == "expandElementSize"
    if len(watch_methods) != 2:
        die("class array_watcher with expandElementSize / shrinkElementSize not found")
    for d in docs:          # out-of-line definitions are separate declarations (a call refers to the latest one)
        if d.get("kind") == "CXXMethodDecl" and d.get("previousDecl") in watch_methods:
            watch_methods[d["id"]] = watch_methods[d["previousDecl"]]

    ex = HeapExec(fields)
    ex.watch_methods, ex.inline_fns = watch_methods, inline_fns
    out, index = [], []

    def definition(name, sig, where_):
        """the definition of counter_array::name: in the class body (inline) or in arrays.cc"""
        decls = [m for m in methods.get(name, []) if m["type"]["qualType"] == sig]
        if len(decls) != 1:
            die("expected exactly one declaration of counter_array::%s with type `%s`, found %d" % (name, sig, len(decls)))
        decl = decls[0]
        if where_ == "inline":
            if body_of(decl) is None:
                die("counter_array::%s is not defined inline in arrays.h any more" % name)
            return decl, decl
        defs = [d for d in outofline.get(name, []) if d["type"]["qualType"] == sig]
        if len(defs) != 1 or body_of(decl) is not None:
            die("expected exactly one out-of-line definition of counter_array::%s in arrays.cc, found %d" % (name, len(defs)))
        return decl, defs[0]

    def params_of(d, qual, want):
        ps = []
        for p in d.get("inner", []):
            if p.get("kind") == "ParmVarDecl":
                ty, ref = type_of_json(p["type"], "parameter of %s at %s" % (qual, where(p)))
                if ref or ty != want:
                    die("%s: parameter `%s` is not a plain %s" % (qual, p.get("name"), want))
                nm = p.get("name")
                if not nm or nm in LEAN_RESERVED or nm in [x for x, _ in fields]:
                    die("%s: parameter name `%s` clashes with a name used by the generated code" % (qual, nm))
                ps.append((nm, ty, p["id"]))
        return ps

    def member(name, sig, where_, retkind, doc):
        decl, d = definition(name, sig, where_)
        const = sig.endswith(" const")
        ps = params_of(d, name, U64)
        f = Fn("%s (MEDDLY::counter_array::%s : %s)" % (name, name, sig), "fork")
        f.decl, f.needs_junk, f.reserved_used = d, False, set()
        f.reserved = {p[0] for p in ps} | {"s", "junk"}
        env = {}
        ex.load_state(env, "s")
        for pn, pt, pid in ps:
            env[("var", pid)] = Val(pt, pn, None, True)
            ex.varname[pid] = pn
        tree = ex.run(f, [body_of(d)], env)
        rty = {"state": "State", "value": "Nat", "both": "State × Bool"}[retkind]
        rcxx = sig.split(" (")[0]
        if {"state": "void", "value": None, "both": "bool"}[retkind] not in (None, rcxx) or (retkind == "value" and rcxx not in
                                                                                                  ("unsigned int", "size_t")):
            die("counter_array::%s: unexpected return type %s" % (name, rcxx))
        text = emit(tree, 2, retkind, f)
        lines = ["/-- %s" % doc, "    source: MEDDLY::counter_array::%s : %s, %s %s" % (name, sig, os.path.basename(file_of(d) or "?"), where(d))]
        for s in f.notes:
            lines.append("    * " + s)
        lines.append("-/")
        binder = ("(junk : List Nat → Nat → Nat) " if f.needs_junk else "") + "(s : State)" + "".join(" (%s : Nat)" % p[0] for p in ps)
        lines.append("def %s %s : Except Err %s :=" % (name, binder, par(rty) if "×" in rty else rty))
        lines.append(text)
        out.append("\n".join(lines))
        m = Member(decl, name, name, [(p[0], p[1]) for p in ps], {"state": T_VOID, "value": U64, "both": T_BOOL}[retkind], const)
        m.needs_junk = f.needs_junk
        m.throws = list(f.throws)
        ex.members[decl["id"]] = m
        ex.members[d["id"]] = m
        index.append("%s  <-  counter_array::%s : %s (%s %s)" % (name, name, sig, os.path.basename(file_of(d) or "?"), where(d)))
        return m

    # ---- the constructor ------------------------------------------------------------------------
    cdecl, cdef = definition("counter_array", "void (MEDDLY::array_watcher *)", "cc")
    cps = [p for p in cdef.get("inner", []) if p.get("kind") == "ParmVarDecl"]
    if len(cps) != 1 or type_of_json(cps[0]["type"], "constructor parameter")[0] != T_WATCH or not cps[0].get("name") \
            or cps[0]["name"] in LEAN_RESERVED:
        die("counter_array::counter_array: unexpected parameter list")
    if any(c.get("kind") == "CXXCtorInitializer" for c in cdef.get("inner", [])):
        die("counter_array::counter_array: member initialisers are not modelled")
    f = Fn("init (MEDDLY::counter_array::counter_array)", "fork")
    f.decl, f.needs_junk, f.reserved_used = cdef, False, set()
    w = cps[0]["name"]
    f.reserved = {w, "s", "junk"}
    env = {("var", cps[0]["id"]): Val(T_WATCH, w, None, True, prop="%s = true" % w), ("this", "watched"): Val(GHOST, "[]", None, True)}
    ex.varname[cps[0]["id"]] = w
    tree = ex.run(f, [body_of(cdef)], env)
    lines = ["/-- `counter_array::counter_array(array_watcher* %s)`: the state it leaves (`%s` = the watcher pointer is not null)." % (w, w),
             "    source: %s %s" % (os.path.basename(file_of(cdef) or "?"), where(cdef))]
    for s in f.notes:
        lines.append("    * " + s)
    lines += ["-/", "def init (%s : Bool) : State :=" % w, emit(tree, 2, "init", f)]
    out.append("\n".join(lines))
    index.append("init  <-  counter_array::counter_array(array_watcher*) (%s %s)" % (os.path.basename(file_of(cdef) or "?"), where(cdef)))

    # ---- members, callees first -----------------------------------------------------------------
    S1 = "void (size_t)"
    M = {}
    for nm in ("expand8to16", "expand16to32", "shrink16to8", "shrink32to16", "shrink32to8"):
        M[nm] = member(nm, S1, "cc", "state", "`void counter_array::%s(size_t)` (private)" % nm)
    M["expand"] = member("expand", S1, "cc", "state", "`void counter_array::expand(size_t ns)`")
    M["shrink"] = member("shrink", S1, "cc", "state", "`void counter_array::shrink(size_t ns)`")
    M["entry_bits"] = member("entry_bits", "size_t () const", "inline", "value", "`size_t counter_array::entry_bits() const`")
    M["get"] = member("get", "unsigned int (size_t) const", "inline", "value", "`unsigned int counter_array::get(size_t i) const`")
    M["swap"] = member("swap", "void (size_t, size_t)", "inline", "state", "`void counter_array::swap(size_t i, size_t j)`")
    M["increment"] = member("increment", S1, "inline", "state", "`void counter_array::increment(size_t i)`")
    M["decrement"] = member("decrement", S1, "inline", "state", "`void counter_array::decrement(size_t i)`")
    M["isZeroBeforeIncrement"] = member("isZeroBeforeIncrement", "bool (size_t)", "inline", "both",
                                        "`bool counter_array::isZeroBeforeIncrement(size_t i)`")
    M["isPositiveAfterDecrement"] = member("isPositiveAfterDecrement", "bool (size_t)", "inline", "both",
                                           "`bool counter_array::isPositiveAfterDecrement(size_t i)`")

    # ---- the dispatcher (fixed text; only the junk arguments depend on the translation) ----------
    def call(nm, args):
        return "%s%s s %s" % (nm, " junk" if M[nm].needs_junk else "", args)

    step = ["/-- The public interface as one step function (NOT translated from C++: a fixed dispatcher over the generated",
            "    members; `void` results are 0, `bool` results 0 / 1). -/",
            "inductive Op where",
            "  | expand (ns : Nat)", "  | shrink (ns : Nat)", "  | get (i : Nat)", "  | swap (i j : Nat)",
            "  | increment (i : Nat)", "  | decrement (i : Nat)", "  | isZeroBeforeIncrement (i : Nat)",
            "  | isPositiveAfterDecrement (i : Nat)",
            "  deriving Repr, DecidableEq", "",
            "def step (junk : List Nat → Nat → Nat) (s : State) : Op → Except Err (State × Nat)",
            "  | .expand ns => (%s).map fun s' => (s', 0)" % call("expand", "ns"),
            "  | .shrink ns => (%s).map fun s' => (s', 0)" % call("shrink", "ns"),
            "  | .get i => (%s).map fun r => (s, r)" % call("get", "i"),
            "  | .swap i j => (%s).map fun s' => (s', 0)" % call("swap", "i j"),
            "  | .increment i => (%s).map fun s' => (s', 0)" % call("increment", "i"),
            "  | .decrement i => (%s).map fun s' => (s', 0)" % call("decrement", "i"),
            "  | .isZeroBeforeIncrement i => (%s).map fun r => (r.1, if r.2 then 1 else 0)" % call("isZeroBeforeIncrement", "i"),
            "  | .isPositiveAfterDecrement i => (%s).map fun r => (r.1, if r.2 then 1 else 0)" % call("isPositiveAfterDecrement", "i")]
    out.append("\n".join(step))

    hdr = ["/-",
           "  GENERATED by translate/counterarray_to_lean.py from %s and %s — do not edit" % (header, source),
           "",
           "  `class MEDDLY::counter_array` (an array of counters whose element width grows 8 -> 16 -> 32 bits on demand and",
           "  shrinks again inside expand / shrink) as Lean functions over an explicit object state.",
           "",
           "  Translation conventions (the trusted base of everything proved about this file):",
           "    unsigned char / short / int, size_t   Nat; EVERY arithmetic result is reduced modulo 2^8 / 2^16 / 2^32 / 2^64",
           "                           (`++x` = (x + 1) % 2^w, `--x` = (x + 2^w - 1) % 2^w, a - b = (a + 2^w - b) % 2^w), every",
           "                           narrowing conversion is `% 2^w`, widening conversions keep the value.  A State is",
           "                           meaningful only if its components are below 2^w (arguments: below 2^64).",
           "    int                    only as the type of comparisons of promoted unsigned char / short with literals: compared",
           "                           as naturals; any other run-time int arithmetic is rejected",
           "    T* data8/16/32         Option (List Nat): none = nullptr, some l = a heap block of l.length elements.",
           "                           `if (p)` / `p[i]` on a member of unknown nullness is a `match`; `p[i]` needs i < length,",
           "                           otherwise (and through nullptr) `.error .ub`.  Local pointers and aliases are resolved at",
           "                           translation time (numbered heap blocks); use after free, double free, a dangling member",
           "                           or a lost new block at the end of a path are translation errors.",
           "    malloc(n) / realloc(p, n)   `fresh` / `realloc` below: n / sizeof(T) elements, new ones UNSPECIFIED (the function",
           "                           parameter `junk`, a different stream `junk [k]` per allocation, `fun t => junk (k :: t)` per",
           "                           callee); the result is never nullptr (allocation failure and the",
           "                           `throw error(INSUFFICIENT_MEMORY)` behind it are NOT modelled); n = 0 is `.error .unmodelled`",
           "                           (implementation defined: glibc's realloc(p, 0) frees p and returns nullptr)",
           "    free(p)                the block is gone (nothing in the State); memset(p + off, 0, n)   `memset0`, needs",
           "                           off + n / sizeof(T) <= length (else `.error .ub`), n a multiple of sizeof(T)",
           "    for (i=0; i<n; i++) d[i] = s[i];      (s.take n).map conv ++ d.drop n   under n <= both lengths (else `.error .ub`)",
           "    x = e; ++x; x--        one `let` with a fresh name per assignment (static single assignment); a read of the element",
           "                           just written is the written value",
           "    switch (bytes)         if-chain over the case labels, fall-through until break; inside `case v:` bytes is v",
           "    this->f(args)          the generated `f` applied to the packed current state; `.error` propagates",
           "    SWAP(a, b)             template body executed inline on the two lvalues (correct also when they alias)",
           "    FAIL(..)               empty body without DEVELOPMENT_CODE: no effect.  MEDDLY_DCASSERT / MEDDLY_CHECK_RANGE are",
           "                           compiled out and absent from the AST: an index >= size is undefined behaviour",
           "    array_watcher* watch   Bool (not null); `watch->expandElementSize(a,b)` / `shrinkElementSize(a,b)` append",
           "                           (true / false, a, b) to the GHOST member `watched` (the callbacks are assumed not to",
           "                           touch the counter_array)",
           "  Functions:"]
    for s in index:
        hdr.append("    " + s)
    hdr.append("  Not translated: " + "; ".join(NOT_TRANSLATED) + ".")
    hdr.append("-/")
    state = ["/-- the data members of `counter_array` (+ the ghost log of watcher calls) -/", "structure State where"]
    for name, ty in fields:
        state.append("  %s : %s" % (name, ty.lean))
    state.append("  deriving DecidableEq, Repr, Inhabited")
    return "\n".join(hdr) + "\n" + PRELUDE + "\n" + "\n".join(state) + "\n\n" + "\n\n".join(out) + "\n\nend Gen.CounterArray\n"


def main():
    ap = argparse.ArgumentParser(description="translate MEDDLY::counter_array (arrays.h, arrays.cc) into Lean")
    ap.add_argument("--out", required=True, help="Lean file to (re)write, e.g. lean/MeddlyModel/Gen/CounterArray.lean")
    ap.add_argument("--repo", default="/repo", help="MEDDLY checkout (default /repo)")
    ap.add_argument("-I", dest="inc", action="append", default=[],
                    help="extra directory searched BEFORE <repo>/src for arrays.h and arrays.cc (mutated private copies)")
    ap.add_argument("--clang", default="clang++-14")
    ap.add_argument("--check", action="store_true", help="do not write; exit 1 if the file would change")
    a = ap.parse_args()
    incs = list(a.inc) + [a.repo, os.path.join(a.repo, "src")]
    search = list(a.inc) + [os.path.join(a.repo, "src")]
    try:
        header = find_header("arrays.h", search)
        source = find_header("arrays.cc", search)
        if header is None or source is None:
            die("arrays.h / arrays.cc not found under %s" % ", ".join(search))
        probe = '#include "arrays.h"\n#include "%s"\n' % source
        docs = parse_docs(run_clang(a.clang, probe, incs, "MEDDLY"))
        text = translate(docs, header, source)
    except Unsupported as e:
        sys.stderr.write("%s: UNSUPPORTED / FAILED: %s\n" % (PROG, e))
        sys.stderr.write("%s: %s was NOT written\n" % (PROG, a.out))
        return 2
    return write_if_changed(PROG, a.out, text, a.check)


if __name__ == "__main__":
    sys.exit(main())
