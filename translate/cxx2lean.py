#!/usr/bin/env python3
"""
cxx2lean.py -- shared machinery of the source-to-Lean translators levels_to_lean.py,
hashstream_to_lean.py and counterarray_to_lean.py (terminal_to_lean.py is older and self-contained;
counterarray_to_lean.py subclasses `Exec` for heap blocks, pointers, size_t / unsigned char / unsigned short,
member calls and the copy-loop idiom, and installs its own type parser through `TYPE_HOOK`).

  * `run_clang` runs `clang++-14 -std=gnu++17 -fsyntax-only -DHAVE_CONFIG_H -I... -Xclang -ast-dump=json
    -Xclang -ast-dump-filter=<name>` on a tiny probe file and `parse_docs` reads the typed JSON AST
    (every implicit conversion is an `ImplicitCastExpr` with its `castKind`, every expression has its type).
  * `Exec` is a small symbolic executor for straight-line C++ with `if`, `switch`, `return`, `throw`:

        C++ type        Lean type   arithmetic
        int             Int         the MATHEMATICAL result; the condition "the result is an int"
                                    (`InInt32 r`, signed overflow is undefined behaviour) is a SIDE CONDITION
        unsigned int    UInt32      modulo 2^32, exactly as the C++ standard defines it; no side condition
        bool            Bool        (`if` conditions are emitted as the corresponding Prop)

    Side conditions are never dropped.  Either they are decided at translation time (all operands are
    compile-time constants: a violated condition is a hard error), or they become part of the generated
    predicate `<fn>_defined` (mode "pure"), or they guard the rest of the function, whose other branch is
    `.error .ub` (mode "fork").  Side conditions: signed `+ - *` and unary `-` (result in int range),
    shift amounts (0 <= n < 32), array subscripts (0 <= i < extent).
  * every assignment becomes a Lean `let` with a fresh name (static single assignment), reference parameters
    become the components of a returned tuple, `switch` on a run-time value becomes an if-chain over its case
    labels in which the statements after the selected label are executed with fall-through until `break`
    / `return`, member calls `this->f()` without arguments are executed inline.
  * anything else (an AST node kind, cast kind, operator, type, callee, a case label below the top level
    of a switch body, a loop, goto, a read of a location that was never written, ...) raises `Unsupported`:
    the calling script prints `<prog>: UNSUPPORTED / FAILED: ...` naming the construct and its source
    line, exits with status 2 and does not touch the output file.
"""
import json
import os
import subprocess
import tempfile


class Unsupported(Exception):
    pass


def die(msg):
    raise Unsupported(msg)


# --------------------------------------------------------------------------- source positions
def annotate_lines(doc):
    """clang's JSON prints `line` only when it differs from the previously printed location;
    replay the print order (dict order) and store the effective line as `_line` in every location"""
    state = {"line": None, "file": None}

    def loc(d):
        if not isinstance(d, dict):
            return
        if "spellingLoc" in d or "expansionLoc" in d:
            for k in d:
                if k in ("spellingLoc", "expansionLoc"):
                    loc(d[k])
            return
        if "file" in d:
            state["file"] = d["file"]
        if "line" in d:
            state["line"] = d["line"]
        if d:
            d["_line"] = state["line"]
            d["_file"] = state["file"]

    def node(n):
        if not isinstance(n, dict):
            return
        for k in list(n.keys()):
            if k == "loc":
                loc(n[k])
            elif k == "range":
                for kk in n[k]:
                    loc(n[k][kk])
            elif k == "inner":
                for c in n[k]:
                    node(c)

    node(doc)


def file_of(n):
    """source file of a node (clang prints `file` only when it changes; see annotate_lines)"""
    cands = []
    if "loc" in n:
        cands.append(n["loc"])
    if "range" in n:
        cands.append(n["range"].get("begin", {}))
    for d in cands:
        for sub in (d.get("expansionLoc", {}), d.get("spellingLoc", {}), d):
            if sub.get("_file") is not None:
                return sub["_file"]
    return None


def where(n):
    cands = []
    if "loc" in n:
        cands.append(n["loc"])
    if "range" in n:
        cands.append(n["range"].get("begin", {}))
    for d in cands:
        for sub in (d.get("expansionLoc", {}), d):
            if sub.get("_line") is not None:
                if "col" in sub:
                    return "line %s col %s" % (sub["_line"], sub["col"])
                return "line %s" % sub["_line"]
    return "line ?"


# --------------------------------------------------------------------------- clang
STATIC_ASSERTS = """
static_assert(sizeof(int) == 4 && sizeof(unsigned) == 4 && sizeof(long) == 8, "LP64 data model assumed");
static_assert((unsigned int)(-1) == 0xffffffffu, "two's complement assumed");
static_assert(0xffffffffu + 1u == 0u, "unsigned arithmetic is modulo 2^32");
"""


def run_clang(clang, probe_text, incs, flt):
    with tempfile.TemporaryDirectory(prefix="c2l") as td:
        src = os.path.join(td, "probe.cc")
        with open(src, "w") as fh:
            fh.write(probe_text + STATIC_ASSERTS)
        cmd = [clang, "-std=gnu++17", "-fsyntax-only", "-DHAVE_CONFIG_H"]
        for i in incs:
            cmd.append("-I" + i)
        cmd += ["-Xclang", "-ast-dump=json", "-Xclang", "-ast-dump-filter=" + flt, src]
        try:
            p = subprocess.run(cmd, stdout=subprocess.PIPE, stderr=subprocess.PIPE, universal_newlines=True)
        except OSError as e:
            die("cannot run %s: %s" % (clang, e))
        if p.returncode != 0:
            die("clang failed (exit %d):\n%s" % (p.returncode, p.stderr.strip()))
        return p.stdout


def parse_docs(text):
    dec = json.JSONDecoder()
    i, docs = 0, []
    while True:
        while i < len(text) and text[i].isspace():
            i += 1
        if i >= len(text):
            return docs
        try:
            o, i = dec.raw_decode(text, i)
        except ValueError as e:
            die("cannot parse clang's JSON output: %s" % e)
        annotate_lines(o)
        docs.append(o)


def find_header(name, dirs):
    for d in dirs:
        p = os.path.join(d, name)
        if os.path.isfile(p):
            return os.path.abspath(p)
    return None


def write_if_changed(prog, out, text, check=False):
    old = None
    if os.path.isfile(out):
        with open(out, encoding="utf-8") as fh:
            old = fh.read()
    if old == text:
        print("%s: %s is up to date" % (prog, out))
        return 0
    if check:
        print("%s: %s would change" % (prog, out))
        return 1
    os.makedirs(os.path.dirname(os.path.abspath(out)), exist_ok=True)
    tmp = out + ".tmp"
    with open(tmp, "w", encoding="utf-8") as fh:
        fh.write(text)
    os.replace(tmp, out)
    print("%s: wrote %s" % (prog, out))
    return 0


# --------------------------------------------------------------------------- types
class Ty:
    def __init__(self, name, kind, lean, width=0, signed=False):
        self.name, self.kind, self.lean, self.width, self.signed = name, kind, lean, width, signed

    def __eq__(self, o):
        return isinstance(o, Ty) and self.name == o.name

    def __ne__(self, o):
        return not self == o

    def __hash__(self):
        return hash(self.name)

    def __repr__(self):
        return self.name


T_INT = Ty("int", "int", "Int", 32, True)
T_UINT = Ty("unsigned int", "uint", "UInt32", 32, False)
T_BOOL = Ty("bool", "bool", "Bool")
T_VOID = Ty("void", "void", "Unit")
TYPES = {t.name: t for t in (T_INT, T_UINT, T_BOOL, T_VOID)}
INT_MIN, INT_MAX = -(1 << 31), (1 << 31) - 1


TYPE_HOOK = [None]      # a translator with more C++ types (counterarray_to_lean.py) installs its own parser here


def type_of_json(t, ctx):
    """-> (Ty, is_reference)"""
    if TYPE_HOOK[0] is not None:
        return TYPE_HOOK[0](t, ctx)
    q = t.get("desugaredQualType", t.get("qualType"))
    if q is None:
        die("%s: node without a type" % ctx)
    q = q.strip()
    ref = False
    if q.endswith("&"):
        ref = True
        q = q[:-1].strip()
    if q.startswith("const "):
        die("%s: const-qualified type `%s` is not supported" % (ctx, q))
    if q in TYPES:
        return TYPES[q], ref
    die("%s: unsupported C++ type `%s`" % (ctx, t.get("qualType")))


def type_of(n):
    if "type" not in n:
        die("%s at %s has no type" % (n.get("kind"), where(n)))
    ty, ref = type_of_json(n["type"], "%s at %s" % (n.get("kind"), where(n)))
    if ref:
        die("%s at %s: expression of reference type" % (n.get("kind"), where(n)))
    return ty


# --------------------------------------------------------------------------- values
class Val:
    """a C++ rvalue: type, Lean term, compile-time value (if known), the side conditions (Lean Props, in
    evaluation order) under which the term is the C++ value, and for a bool its Prop form"""

    def __init__(self, ty, lean, const=None, atom=False, conds=None, prop=None):
        self.ty, self.lean, self.const, self.atom = ty, lean, const, atom
        self.conds = list(conds or [])
        self.prop = prop

    def p(self):
        return self.lean if self.atom else "(" + self.lean + ")"

    def as_prop(self):
        if self.ty != T_BOOL:
            die("internal: as_prop on a %s" % self.ty)
        return self.prop if self.prop is not None else "%s = true" % self.p()


def union(*lists):
    out = []
    for l in lists:
        for c in l:
            if c not in out:
                out.append(c)
    return out


def conj(conds):
    if not conds:
        return "True"
    if len(conds) == 1:
        return conds[0]
    return " ∧ ".join("(%s)" % c if not is_atomic_prop(c) else c for c in conds)


def single_group(s):
    """s is one parenthesised group"""
    if not (s.startswith("(") and s.endswith(")")):
        return False
    d = 0
    for i, ch in enumerate(s):
        if ch == "(":
            d += 1
        elif ch == ")":
            d -= 1
            if d == 0 and i != len(s) - 1:
                return False
    return d == 0


def is_atomic_prop(c):
    if c in ("True", "False"):
        return True
    if c.startswith("InInt32 ") and single_group(c[8:]):
        return True
    return single_group(c)


def lit(ty, v):
    if ty == T_INT:
        if v >= 0:
            return Val(ty, "%d" % v, v, atom=True)
        return Val(ty, "-%d" % (-v), v)
    if ty == T_UINT:
        return Val(ty, "%d" % v, v, atom=True)
    die("internal: literal of type %s" % ty)


def in_int32(term):
    return "InInt32 (%s)" % term


# --------------------------------------------------------------------------- the executor
class Callee:
    """a translated function that other functions may call"""

    def __init__(self, decl_id, cxx, lean, params, ret, decl, body):
        self.decl_id, self.cxx, self.lean = decl_id, cxx, lean
        self.params = params          # [(name, Ty, is_ref)]
        self.ret = ret                # Ty
        self.decl, self.body = decl, body
        self.has_conds = False        # `<lean>_defined` is not trivially True
        self.const_calls = []         # notes: calls whose side conditions were decided at translation time


class Fork(Exception):
    """a subscript with a run-time index: the statement is re-executed once per possible value"""

    def __init__(self, idx, extent, node):
        Exception.__init__(self)
        self.idx, self.extent, self.node = idx, extent, node


SWITCH_END = {"kind": "<switch-end>"}


class Fn:
    """per-function translation context"""

    def __init__(self, name, mode):
        self.name, self.mode = name, mode     # mode: "pure" | "fork"
        self.notes = []
        self.pending = []                     # ('let', name, Ty, term) | ('assert', prop, why)
        self.counters = {}
        self.reserved = set()
        self.throws = []

    def note(self, s):
        if s not in self.notes:
            self.notes.append(s)

    def fresh(self, base):
        while True:
            n = self.counters.get(base, 0) + 1
            self.counters[base] = n
            name = "%s_%d" % (base, n)
            if name not in self.reserved:
                return name


class Exec:
    """`arrays`: member arrays of `this`: name -> extent.  `callees`: clang declaration id -> Callee.
    `inline_members`: declaration id of the member functions that may be executed inline -> (decl, body)."""

    def __init__(self, callees=None, arrays=None, inline_members=None):
        self.callees = callees if callees is not None else {}
        self.arrays = arrays or {}
        self.inline_members = inline_members or {}

    # ---------------------------------------------------------------- lvalues
    def lvalue(self, f, n, env):
        """-> location key: ('var', name) | ('this', field) | ('this', array, index)"""
        k = n.get("kind")
        if k == "ParenExpr":
            return self.lvalue(f, n["inner"][0], env)
        if k == "DeclRefExpr":
            rd = n.get("referencedDecl", {})
            if rd.get("kind") not in ("ParmVarDecl", "VarDecl"):
                die("%s: lvalue DeclRefExpr to a %s `%s` at %s" % (f.name, rd.get("kind"), rd.get("name"), where(n)))
            return ("var", rd["name"])
        if k == "MemberExpr":
            base = n["inner"][0]
            if base.get("kind") != "CXXThisExpr":
                die("%s: member access on something that is not `this` (%s) at %s" % (f.name, base.get("kind"), where(n)))
            if n.get("name") in self.arrays:
                die("%s: array member `%s` used without a subscript at %s" % (f.name, n.get("name"), where(n)))
            return ("this", n.get("name"))
        if k == "ArraySubscriptExpr":
            base, idx = n["inner"]
            if base.get("kind") != "ImplicitCastExpr" or base.get("castKind") != "ArrayToPointerDecay":
                die("%s: subscript of something that is not an array (%s) at %s" % (f.name, base.get("kind"), where(n)))
            arr = base["inner"][0]
            while arr.get("kind") == "ParenExpr":
                arr = arr["inner"][0]
            if arr.get("kind") != "MemberExpr" or arr["inner"][0].get("kind") != "CXXThisExpr" \
                    or arr.get("name") not in self.arrays:
                die("%s: subscript of something that is not a member array of `this` at %s" % (f.name, where(n)))
            name = arr["name"]
            extent = self.arrays[name]
            i = self.expr(f, idx, env)
            if i.ty != T_INT:
                die("%s: subscript of type %s at %s" % (f.name, i.ty, where(n)))
            self.realise(f, i, "subscript of %s at %s" % (name, where(n)))
            c = i.const
            if c is None:
                c = env.get(("assume", i.lean))
            if c is None:
                if f.mode != "fork":
                    die("%s: subscript `%s[...]` with a run-time index at %s" % (f.name, name, where(n)))
                raise Fork(i, extent, n)
            if not (0 <= c < extent):
                die("%s: `%s[%d]` is out of bounds (extent %d): undefined behaviour, at %s" % (f.name, name, c, extent, where(n)))
            return ("this", name, c)
        die("%s: unsupported lvalue node kind `%s` at %s" % (f.name, k, where(n)))

    def loc_str(self, loc):
        if len(loc) == 3:
            return "%s[%d]" % (loc[1], loc[2])
        return loc[1]

    def loc_base(self, loc):
        if len(loc) == 3:
            return "%s%d" % (loc[1], loc[2])
        return loc[1]

    def read(self, f, loc, ty, env, n):
        if loc not in env or env[loc] is None:
            die("%s: read of `%s`, which is not an input of this translation and was never written, at %s"
                % (f.name, self.loc_str(loc), where(n)))
        v = env[loc]
        if v.ty != ty:
            die("%s: `%s` holds a %s but is read as %s at %s" % (f.name, self.loc_str(loc), v.ty, ty, where(n)))
        return v

    def realise(self, f, v, why):
        """turn the side conditions of v into pending assertions"""
        for c in v.conds:
            f.pending.append(("assert", c, why))
        v.conds = []

    def store(self, f, loc, ty, v, env, n):
        if v.ty != ty:
            die("%s: assignment of a %s to `%s : %s` without a cast at %s" % (f.name, v.ty, self.loc_str(loc), ty, where(n)))
        if loc in env and env[loc] is not None and env[loc].ty != ty:
            die("%s: `%s` changes its type at %s" % (f.name, self.loc_str(loc), where(n)))
        self.realise(f, v, "assignment to %s at %s" % (self.loc_str(loc), where(n)))
        if v.atom:
            nv = Val(ty, v.lean, v.const, True)       # a name or literal: no new binding needed
        else:
            name = f.fresh(self.loc_base(loc))
            f.pending.append(("let", name, ty, v.lean))
            nv = Val(ty, name, v.const, True)
        env[loc] = nv
        return nv

    def assign(self, f, n, env):
        lhs, rhs = n["inner"]
        v = self.expr(f, rhs, env)          # C++17: the right operand of `=` is sequenced first
        loc = self.lvalue(f, lhs, env)
        return self.store(f, loc, type_of(lhs), v, env, n)

    COMPOUND = {"+=": "+", "-=": "-", "*=": "*", "^=": "^", "|=": "|", "&=": "&", "<<=": "<<", ">>=": ">>"}

    def compound_assign(self, f, n, env):
        op = n.get("opcode")
        if op not in self.COMPOUND:
            die("%s: unsupported compound assignment `%s` at %s" % (f.name, op, where(n)))
        lhs, rhs = n["inner"]
        lty = type_of(lhs)
        for key in ("computeLHSType", "computeResultType"):
            ct, _ = type_of_json(n.get(key, {}), "%s of `%s` at %s" % (key, op, where(n)))
            if ct != lty:
                die("%s: `%s` computes in %s but the left operand is a %s (implicit conversion not modelled) at %s"
                    % (f.name, op, ct, lty, where(n)))
        b = self.expr(f, rhs, env)
        loc = self.lvalue(f, lhs, env)
        a = self.read(f, loc, lty, env, n)
        v = self.binop(f, self.COMPOUND[op], a, b, lty, n)
        return self.store(f, loc, lty, v, env, n)

    def incdec(self, f, n, env):
        op = n.get("opcode")
        sub = n["inner"][0]
        ty = type_of(sub)
        loc = self.lvalue(f, sub, env)
        a = self.read(f, loc, ty, env, n)
        v = self.binop(f, "+" if op == "++" else "-", a, lit(ty, 1), ty, n)
        self.store(f, loc, ty, v, env, n)
        return a, env[loc]

    # ---------------------------------------------------------------- expressions
    def expr(self, f, n, env):
        k = n.get("kind")
        h = getattr(self, "e_" + str(k), None)
        if h is None:
            die("%s: unsupported expression node kind `%s` at %s" % (f.name, k, where(n)))
        return h(f, n, env)

    def e_ParenExpr(self, f, n, env):
        return self.expr(f, n["inner"][0], env)

    def e_ConstantExpr(self, f, n, env):
        return self.expr(f, n["inner"][0], env)

    def e_IntegerLiteral(self, f, n, env):
        ty = type_of(n)
        if ty not in (T_INT, T_UINT):
            die("%s: integer literal of type %s at %s" % (f.name, ty, where(n)))
        v = int(n["value"])
        lo, hi = (INT_MIN, INT_MAX) if ty == T_INT else (0, (1 << 32) - 1)
        if not (lo <= v <= hi):
            die("%s: integer literal %d does not fit %s at %s" % (f.name, v, ty, where(n)))
        return lit(ty, v)

    def e_CXXBoolLiteralExpr(self, f, n, env):
        b = bool(n["value"])
        return Val(T_BOOL, "true" if b else "false", b, atom=True, prop="True" if b else "False")

    def e_UnaryOperator(self, f, n, env):
        op = n.get("opcode")
        if op in ("++", "--"):
            old, new = self.incdec(f, n, env)
            return old if n.get("isPostfix") else new
        a = self.expr(f, n["inner"][0], env)
        ty = type_of(n)
        if op == "-" and ty == T_INT and a.ty == T_INT:
            if a.const is not None:
                v = -a.const
                if not (INT_MIN <= v <= INT_MAX):
                    die("%s: signed overflow in constant negation at %s" % (f.name, where(n)))
                return lit(T_INT, v)
            t = "-" + a.p()
            return Val(ty, t, conds=union(a.conds, [in_int32(t)]))
        if op == "-" and ty == T_UINT and a.ty == T_UINT:
            if a.const is not None:
                return lit(T_UINT, (-a.const) % (1 << 32))
            return Val(ty, "-" + a.p(), conds=a.conds)
        if op == "~" and ty == T_UINT and a.ty == T_UINT:
            if a.const is not None:
                return lit(T_UINT, (~a.const) % (1 << 32))
            return Val(ty, "~~~" + a.p(), conds=a.conds)
        if op == "!" and ty == T_BOOL and a.ty == T_BOOL:
            if a.const is not None:
                return Val(T_BOOL, "false" if a.const else "true", not a.const, True, a.conds,
                           "False" if a.const else "True")
            return Val(ty, "!" + a.p(), conds=a.conds, prop="¬ (%s)" % a.as_prop())
        die("%s: unsupported unary operator `%s` on %s at %s" % (f.name, op, a.ty, where(n)))

    def cast(self, f, n, env):
        ck = n.get("castKind")
        sub = n["inner"][0]
        if ck == "LValueToRValue":
            ty = type_of(n)
            sk = sub
            while sk.get("kind") == "ParenExpr":
                sk = sk["inner"][0]
            if sk.get("kind") == "BinaryOperator" and sk.get("opcode") == "=":
                return self.assign(f, sk, env)
            if sk.get("kind") == "CompoundAssignOperator":
                return self.compound_assign(f, sk, env)
            if sk.get("kind") == "UnaryOperator" and sk.get("opcode") in ("++", "--") and not sk.get("isPostfix"):
                return self.incdec(f, sk, env)[1]
            if sk.get("kind") == "ConditionalOperator":
                # `c ? x : y` with two lvalues is an lvalue; only its value is used here
                return self.conditional(f, sk, env, lambda b: self.cast(
                    f, {"kind": "ImplicitCastExpr", "castKind": "LValueToRValue", "type": n["type"], "inner": [b],
                        "range": b.get("range", {})}, env), ty)
            loc = self.lvalue(f, sub, env)
            return self.read(f, loc, ty, env, n)
        ty = type_of(n)
        if ck == "NoOp":
            a = self.expr(f, sub, env)
            if a.ty != ty:
                die("%s: NoOp cast changes the type %s -> %s at %s" % (f.name, a.ty, ty, where(n)))
            return a
        if ck == "IntegralCast":
            a = self.expr(f, sub, env)
            if a.ty not in (T_INT, T_UINT) or ty not in (T_INT, T_UINT):
                die("%s: IntegralCast %s -> %s at %s" % (f.name, a.ty, ty, where(n)))
            if a.ty == ty:
                return a
            if a.const is None:
                die("%s: conversion %s -> %s of a run-time value is not modelled, at %s" % (f.name, a.ty, ty, where(n)))
            if ty == T_UINT:
                r = lit(T_UINT, a.const % (1 << 32))
            else:
                if a.const > INT_MAX:
                    die("%s: conversion of %d to int is implementation-defined, at %s" % (f.name, a.const, where(n)))
                r = lit(T_INT, a.const)
            r.conds = a.conds
            return r
        if ck == "IntegralToBoolean":
            a = self.expr(f, sub, env)
            if a.ty not in (T_INT, T_UINT):
                die("%s: IntegralToBoolean on %s at %s" % (f.name, a.ty, where(n)))
            if a.const is not None:
                b = a.const != 0
                return Val(T_BOOL, "true" if b else "false", b, True, a.conds, "True" if b else "False")
            p = "%s ≠ 0" % a.p()
            return Val(T_BOOL, "decide (%s)" % p, conds=a.conds, prop=p)
        die("%s: unsupported cast kind `%s` (%s) at %s" % (f.name, ck, n.get("kind"), where(n)))

    e_ImplicitCastExpr = cast
    e_CXXFunctionalCastExpr = cast
    e_CStyleCastExpr = cast
    e_CXXStaticCastExpr = cast

    def e_BinaryOperator(self, f, n, env):
        op = n.get("opcode")
        ty = type_of(n)
        if op == "=":
            die("%s: assignment used as a value at %s" % (f.name, where(n)))
        if op == ",":
            die("%s: comma operator at %s" % (f.name, where(n)))
        a = self.expr(f, n["inner"][0], env)
        b = self.expr(f, n["inner"][1], env)
        return self.binop(f, op, a, b, ty, n)

    def binop(self, f, op, a, b, ty, n):
        both = a.const is not None and b.const is not None
        if op in ("||", "&&"):
            if a.ty != T_BOOL or b.ty != T_BOOL or ty != T_BOOL:
                die("%s: `%s` on %s, %s at %s" % (f.name, op, a.ty, b.ty, where(n)))
            # short circuit: the right operand is evaluated only if the left one does not decide
            if a.const is not None:
                if (op == "||") == bool(a.const):
                    return a
                return Val(T_BOOL, b.lean, b.const, b.atom, union(a.conds, b.conds), b.prop)
            if op == "&&":
                bc = ["(%s) → (%s)" % (a.as_prop(), c) for c in b.conds]
            else:
                bc = ["¬ (%s) → (%s)" % (a.as_prop(), c) for c in b.conds]
            lo = "∨" if op == "||" else "∧"
            return Val(T_BOOL, "%s %s %s" % (a.p(), op, b.p()), conds=union(a.conds, bc),
                       prop="(%s) %s (%s)" % (a.as_prop(), lo, b.as_prop()))
        conds = union(a.conds, b.conds)
        if op in ("<", ">", "<=", ">=", "==", "!="):
            if a.ty != b.ty or ty != T_BOOL:
                die("%s: comparison `%s` of %s with %s at %s" % (f.name, op, a.ty, b.ty, where(n)))
            if a.ty not in (T_INT, T_UINT, T_BOOL) or (a.ty == T_BOOL and op not in ("==", "!=")):
                die("%s: comparison `%s` on %s at %s" % (f.name, op, a.ty, where(n)))
            if both:
                c = {"<": a.const < b.const, ">": a.const > b.const, "<=": a.const <= b.const,
                     ">=": a.const >= b.const, "==": a.const == b.const, "!=": a.const != b.const}[op]
                return Val(T_BOOL, "true" if c else "false", c, True, conds, "True" if c else "False")
            lop = {"<": "<", ">": ">", "<=": "≤", ">=": "≥", "==": "=", "!=": "≠"}[op]
            p = "%s %s %s" % (a.p(), lop, b.p())
            return Val(T_BOOL, "decide (%s)" % p, conds=conds, prop=p)
        if op in ("<<", ">>"):
            if a.ty != T_UINT or ty != T_UINT:
                die("%s: shift `%s` of a %s (only unsigned int is modelled) at %s" % (f.name, op, a.ty, where(n)))
            if b.ty not in (T_INT, T_UINT):
                die("%s: shift by a %s at %s" % (f.name, b.ty, where(n)))
            lop = "<<<" if op == "<<" else ">>>"
            if b.const is not None:
                if not (0 <= b.const < 32):
                    die("%s: shift of a 32-bit value by %d is undefined behaviour, at %s" % (f.name, b.const, where(n)))
                if a.const is not None:
                    v = (a.const << b.const) % (1 << 32) if op == "<<" else a.const >> b.const
                    r = lit(T_UINT, v)
                    r.conds = conds
                    return r
                return Val(ty, "%s %s %d" % (a.p(), lop, b.const), conds=conds)
            if b.ty == T_INT:
                amount = "UInt32.ofNat (Int.toNat %s)" % b.p()
                rng = "0 ≤ %s ∧ %s < 32" % (b.p(), b.p())
            else:
                amount = b.p()
                rng = "%s < 32" % b.p()
            f.note("run-time shift amount: `x %s n` is `x %s UInt32.ofNat n` under the side condition 0 ≤ n < 32 "
                   "(Lean's UInt32 shift reduces the amount modulo 32; C++ leaves it undefined)" % (op, lop))
            return Val(ty, "%s %s %s" % (a.p(), lop, amount), conds=union(conds, [rng]))
        if op in ("|", "&", "^"):
            if a.ty != T_UINT or b.ty != T_UINT or ty != T_UINT:
                die("%s: `%s` on %s, %s (only unsigned int is modelled) at %s" % (f.name, op, a.ty, b.ty, where(n)))
            if both:
                r = lit(T_UINT, {"|": a.const | b.const, "&": a.const & b.const, "^": a.const ^ b.const}[op])
                r.conds = conds
                return r
            return Val(ty, "%s %s %s" % (a.p(), {"|": "|||", "&": "&&&", "^": "^^^"}[op], b.p()), conds=conds)
        if op in ("+", "-", "*"):
            if a.ty != b.ty or a.ty != ty or ty not in (T_INT, T_UINT):
                die("%s: `%s` on %s, %s at %s" % (f.name, op, a.ty, b.ty, where(n)))
            if both:
                v = {"+": a.const + b.const, "-": a.const - b.const, "*": a.const * b.const}[op]
                if ty == T_INT:
                    if not (INT_MIN <= v <= INT_MAX):
                        die("%s: signed overflow in the constant expression %d %s %d at %s" % (f.name, a.const, op, b.const, where(n)))
                else:
                    v %= 1 << 32
                r = lit(ty, v)
                r.conds = conds
                f.note("constant folded: %s %s %s = %d" % (a.const, op, b.const, v))
                return r
            t = "%s %s %s" % (a.p(), op, b.p())
            if ty == T_INT:
                return Val(ty, t, conds=union(conds, [in_int32(t)]))
            return Val(ty, t, conds=conds)
        die("%s: unsupported binary operator `%s` at %s" % (f.name, op, where(n)))

    def e_ConditionalOperator(self, f, n, env):
        return self.conditional(f, n, env, lambda b: self.expr(f, b, env), type_of(n))

    def conditional(self, f, n, env, branch, ty):
        c = self.expr(f, n["inner"][0], env)
        pend = len(f.pending)
        a = branch(n["inner"][1])
        b = branch(n["inner"][2])
        if len(f.pending) != pend:
            die("%s: assignment inside a branch of ?: at %s" % (f.name, where(n)))
        if c.ty != T_BOOL or a.ty != ty or b.ty != ty:
            die("%s: ill-typed ?: (%s ? %s : %s) at %s" % (f.name, c.ty, a.ty, b.ty, where(n)))
        if c.const is not None:
            r = a if c.const else b
            return Val(r.ty, r.lean, r.const, r.atom, union(c.conds, r.conds), r.prop)
        cp = c.as_prop()
        conds = list(c.conds)
        if a.conds and b.conds:
            conds = union(conds, ["if %s then %s else %s" % (cp, conj(a.conds), conj(b.conds))])
        elif a.conds:
            conds = union(conds, ["%s → %s" % (paren(cp), conj(a.conds))])
        elif b.conds:
            conds = union(conds, ["¬ %s → %s" % (paren(cp), conj(b.conds))])
        if ty == T_BOOL:
            return Val(ty, "if %s then %s else %s" % (cp, a.p(), b.p()), conds=conds,
                       prop="if %s then %s else %s" % (cp, a.as_prop(), b.as_prop()))
        return Val(ty, "if %s then %s else %s" % (cp, a.lean, b.lean), conds=conds)

    # calls ------------------------------------------------------------------
    def callee_of(self, f, n):
        callee = n["inner"][0]
        if callee.get("kind") == "ImplicitCastExpr" and callee.get("castKind") == "FunctionToPointerDecay":
            callee = callee["inner"][0]
        if callee.get("kind") != "DeclRefExpr":
            die("%s: call through a %s at %s" % (f.name, callee.get("kind"), where(n)))
        rd = callee.get("referencedDecl", {})
        c = self.callees.get(rd.get("id"))
        if c is None:
            die("%s: call of `%s` (%s), which is not one of the translated functions, at %s"
                % (f.name, rd.get("name"), rd.get("type", {}).get("qualType"), where(n)))
        return c

    def call(self, f, n, env):
        """-> (Callee, result Val or None, [(loc, Ty, component term)])   for a CallExpr"""
        c = self.callee_of(f, n)
        args = n["inner"][1:]
        if len(args) != len(c.params):
            die("%s: call of %s with %d arguments (default arguments are not modelled) at %s" % (f.name, c.cxx, len(args), where(n)))
        vals, refs, conds = [], [], []
        for (pname, pty, pref), a in zip(c.params, args):
            if pref:
                loc = self.lvalue(f, a, env)
                v = self.read(f, loc, pty, env, a)
                refs.append((loc, pty))
            else:
                v = self.expr(f, a, env)
                if v.ty != pty:
                    die("%s: argument `%s` of %s is a %s, expected %s, at %s" % (f.name, pname, c.cxx, v.ty, pty, where(a)))
            conds = union(conds, v.conds)
            vals.append(v)
        locs = [l for l, _ in refs]
        if len(set(locs)) != len(locs):
            die("%s: call of %s with aliased reference arguments at %s" % (f.name, c.cxx, where(n)))
        term = "%s %s" % (c.lean, " ".join(v.p() for v in vals))
        if c.has_conds:
            left = self.callee_conds(f, c, vals, n)
            if left:
                conds = union(conds, ["%s_defined %s" % (c.lean, " ".join(v.p() for v in vals))])
        return c, term, conds, refs

    def callee_conds(self, f, c, vals, n):
        """re-execute the callee's body with the actual arguments; constants propagate, so side conditions
        on constant arguments are decided here.  Returns the side conditions that remain."""
        g = Fn("%s [called from %s at %s]" % (c.cxx, f.name, where(n)), "pure")
        env = {}
        for (pname, pty, pref), v in zip(c.params, vals):
            env[("var", pname)] = Val(pty, v.lean, v.const, v.atom)
        tree = self.run(g, [c.body], env)
        left = tree_conds(tree)
        if not left:
            cs = ", ".join(str(v.const) if v.const is not None else "·" for v in vals)
            f.note("call %s(%s): side conditions decided at translation time" % (c.cxx, cs))
        return left

    def e_CallExpr(self, f, n, env):
        c, term, conds, refs = self.call(f, n, env)
        if refs or c.ret == T_VOID:
            die("%s: call of %s (void / reference parameters) used as a value at %s" % (f.name, c.cxx, where(n)))
        return Val(c.ret, term, conds=conds)

    def call_stmt(self, f, n, env):
        c, term, conds, refs = self.call(f, n, env)
        for cd in conds:
            f.pending.append(("assert", cd, "call of %s at %s" % (c.cxx, where(n))))
        if not refs:
            if c.ret != T_VOID:
                f.note("value of %s discarded at %s" % (c.cxx, where(n)))
            return
        if c.ret != T_VOID:
            die("%s: call of %s: reference parameters and a return value at %s" % (f.name, c.cxx, where(n)))
        r = f.fresh("r")
        tys = " × ".join(t.lean for _, t in refs)
        f.pending.append(("let", r, tys, term))
        for i, (loc, ty) in enumerate(refs):
            if len(refs) == 1:
                comp = r
            elif i == len(refs) - 1:
                comp = r + "".join(".2" for _ in range(i))
            else:
                comp = r + "".join(".2" for _ in range(i)) + ".1"
            env[loc] = Val(ty, comp, None, True)

    # ---------------------------------------------------------------- statements
    def simple(self, f, n, env):
        """execute one statement without control flow; effects go to env and f.pending"""
        k = n.get("kind")
        if k == "BinaryOperator" and n.get("opcode") == "=":
            self.assign(f, n, env)
        elif k == "CompoundAssignOperator":
            self.compound_assign(f, n, env)
        elif k == "UnaryOperator" and n.get("opcode") in ("++", "--"):
            self.incdec(f, n, env)
        elif k == "CallExpr":
            self.call_stmt(f, n, env)
        elif k == "DeclStmt":
            for d in n.get("inner", []):
                if d.get("kind") != "VarDecl":
                    die("%s: unsupported declaration kind `%s` at %s" % (f.name, d.get("kind"), where(d)))
                vt, ref = type_of_json(d["type"], "VarDecl at " + where(d))
                if ref:
                    die("%s: local reference `%s` at %s" % (f.name, d.get("name"), where(d)))
                init = [c for c in d.get("inner", []) if "Comment" not in c.get("kind", "")]
                loc = ("var", d["name"])
                if loc in env:
                    die("%s: local `%s` shadows another variable at %s" % (f.name, d["name"], where(d)))
                if not init:
                    env[loc] = None
                else:
                    self.store(f, loc, vt, self.expr(f, init[0], env), env, d)
        else:
            die("%s: unsupported statement node kind `%s` at %s" % (f.name, k, where(n)))

    def wrap(self, pending, tree):
        for it in reversed(pending):
            if it[0] == "let":
                tree = ("let", it[1], it[2], it[3], tree)
            else:
                tree = ("assert", it[1], it[2], tree)
        return tree

    def take(self, f):
        p, f.pending = f.pending, []
        return p

    def contains(self, n, kinds):
        if n.get("kind") in kinds:
            return True
        return any(self.contains(c, kinds) for c in n.get("inner", []) if isinstance(c, dict))

    def run(self, f, stmts, env):
        """-> outcome tree:  ('let', name, type, term, T) | ('assert', prop, why, T) | ('if', prop, T, T)
                             | ('ret', Val|None, env) | ('throw', code) | ('ub', why)"""
        while stmts:
            n, stmts = stmts[0], stmts[1:]
            if n is SWITCH_END:
                continue
            k = n.get("kind")
            if k == "NullStmt":
                continue
            if k == "CompoundStmt":
                stmts = list(n.get("inner", [])) + stmts
                continue
            if k in ("CaseStmt", "DefaultStmt"):            # fall through into the next label
                stmts = [n["inner"][-1]] + stmts
                continue
            if k == "BreakStmt":
                while stmts and stmts[0] is not SWITCH_END:
                    stmts = stmts[1:]
                if not stmts:
                    die("%s: `break` outside a switch at %s" % (f.name, where(n)))
                continue
            if k == "ExprWithCleanups" and n["inner"][0].get("kind") == "CXXThrowExpr":
                n = n["inner"][0]
                k = "CXXThrowExpr"
            if k == "CXXThrowExpr":
                code = self.throw_code(f, n)
                if code not in f.throws:
                    f.throws.append(code)
                return ("throw", code)
            if k == "ReturnStmt":
                if n.get("inner"):
                    v = self.expr(f, n["inner"][0], env)
                    self.realise(f, v, "return value at %s" % where(n))
                    return self.wrap(self.take(f), ("ret", v, env))
                return ("ret", None, env)
            if k == "IfStmt":
                if n.get("hasInit") or n.get("hasVar") or n.get("isConstexpr"):
                    die("%s: if with init / declaration / constexpr at %s" % (f.name, where(n)))
                inner = n["inner"]
                c = self.expr(f, inner[0], env)
                if c.ty != T_BOOL:
                    die("%s: if condition of type %s at %s" % (f.name, c.ty, where(n)))
                self.realise(f, c, "condition at %s" % where(n))
                pend = self.take(f)
                th = [inner[1]]
                el = [inner[2]] if len(inner) > 2 else []
                if c.const is not None:
                    f.note("`if` at %s decided at translation time: %s" % (where(n), "true" if c.const else "false"))
                    return self.wrap(pend, self.run(f, (th if c.const else el) + stmts, env))
                return self.wrap(pend, ("if", c.as_prop(), self.run(f, th + stmts, dict(env)),
                                        self.run(f, el + stmts, dict(env))))
            if k == "SwitchStmt":
                return self.switch(f, n, stmts, env)
            if k == "CXXMemberCallExpr":
                stmts = self.inline_member(f, n) + stmts
                continue
            # a statement without control flow (may need a case split on a run-time subscript)
            snap_env, snap_cnt = dict(env), dict(f.counters)
            try:
                self.simple(f, n, env)
            except Fork as fk:
                env.clear()
                env.update(snap_env)
                f.counters = snap_cnt
                self.take(f)                              # effects of the aborted attempt are dropped
                idx = fk.idx
                branches = []
                for i in range(fk.extent):
                    e2 = dict(env)
                    e2[("assume", idx.lean)] = i
                    branches.append(("%s = %d" % (idx.lean, i), self.run(f, [n] + stmts, e2)))
                tree = ("ub", "subscript out of bounds at %s" % where(fk.node))
                for cnd, br in reversed(branches):
                    tree = ("if", cnd, br, tree)
                f.note("run-time subscript at %s: case split over the %d elements, any other index is undefined behaviour"
                       % (where(fk.node), fk.extent))
                return tree
            pend = self.take(f)
            if pend:
                return self.wrap(pend, self.run(f, stmts, env))
        return ("ret", None, env)

    def inline_member(self, f, n):
        m = n["inner"][0]
        if m.get("kind") != "MemberExpr" or m["inner"][0].get("kind") != "CXXThisExpr" or len(n["inner"]) != 1:
            die("%s: member call that is not `this->f()` without arguments at %s" % (f.name, where(n)))
        mid = m.get("referencedMemberDecl")
        if mid not in self.inline_members:
            die("%s: call of member function `%s`, which is not one of the inlinable members, at %s" % (f.name, m.get("name"), where(n)))
        decl, body = self.inline_members[mid]
        if self.contains(body, ("ReturnStmt",)):
            die("%s: inlined member `%s` contains a return statement (at %s)" % (f.name, m.get("name"), where(decl)))
        f.note("member call %s() at %s executed inline" % (m.get("name"), where(n)))
        return [body]

    def case_value(self, f, n):
        e = n["inner"][0]
        while e.get("kind") in ("ConstantExpr", "ImplicitCastExpr", "ParenExpr"):
            e = e["inner"][0]
        if e.get("kind") != "IntegerLiteral" or len(n["inner"]) != 2:
            die("%s: case label is not a plain integer literal (or a GNU case range) at %s" % (f.name, where(n)))
        return int(e["value"])

    def switch(self, f, n, stmts, env):
        if n.get("hasInit") or n.get("hasVar"):
            die("%s: switch with init / declaration at %s" % (f.name, where(n)))
        c = self.expr(f, n["inner"][0], env)
        if c.ty != T_INT:
            die("%s: switch on a %s at %s" % (f.name, c.ty, where(n)))
        self.realise(f, c, "switch at %s" % where(n))
        pend = self.take(f)
        body = n["inner"][1]
        if body.get("kind") != "CompoundStmt":
            die("%s: switch body is not a compound statement at %s" % (f.name, where(n)))
        items = body.get("inner", [])
        labels, default = [], None
        for i, it in enumerate(items):
            lab = it
            while lab.get("kind") in ("CaseStmt", "DefaultStmt"):
                if lab.get("kind") == "CaseStmt":
                    v = self.case_value(f, lab)
                    if v in [x for x, _ in labels]:
                        die("%s: duplicate case %d at %s" % (f.name, v, where(lab)))
                    labels.append((v, i))
                else:
                    if default is not None:
                        die("%s: two default labels at %s" % (f.name, where(lab)))
                    default = i
                lab = lab["inner"][-1]
            # a label anywhere below the top level of the body (Duff's device, labels inside an `if`) is not supported
            if self.contains(lab, ("CaseStmt", "DefaultStmt")) and lab.get("kind") != "SwitchStmt":
                die("%s: case label below the top level of the switch body at %s" % (f.name, where(lab)))
            if self.contains(lab, ("SwitchStmt",)):
                die("%s: nested switch at %s" % (f.name, where(lab)))
        rest = [SWITCH_END] + stmts
        if c.const is not None:
            start = next((i for v, i in labels if v == c.const), default)
            f.note("switch at %s decided at translation time: %d" % (where(n), c.const))
            return self.wrap(pend, self.run(f, (list(items[start:]) if start is not None else []) + rest, env))
        branches = []
        for v, i in labels:
            e2 = dict(env)
            e2[("assume", c.lean)] = v
            branches.append(("%s = %d" % (c.lean, v), self.run(f, list(items[i:]) + rest, e2)))
        if default is not None:
            tree = self.run(f, list(items[default:]) + rest, dict(env))
        else:
            tree = self.run(f, rest, dict(env))
        for cnd, br in reversed(branches):
            tree = ("if", cnd, br, tree)
        f.note("switch at %s on a run-time value: if-chain over the labels %s%s; statements run from the selected label with "
               "fall-through until break / return" % (where(n), ", ".join(str(v) for v, _ in labels),
                                                       " and default" if default is not None else ""))
        return self.wrap(pend, tree)

    def throw_code(self, f, n):
        found = []

        def walk(x):
            if x.get("kind") == "DeclRefExpr" and x.get("referencedDecl", {}).get("kind") == "EnumConstantDecl" \
                    and "MEDDLY::error::code" in x.get("type", {}).get("qualType", ""):
                found.append(x["referencedDecl"]["name"])
            for c in x.get("inner", []):
                if isinstance(c, dict):
                    walk(c)

        walk(n)
        if len(found) != 1:
            die("%s: throw of something that is not MEDDLY::error(<code>, ...) at %s" % (f.name, where(n)))
        return found[0]


def paren(p):
    return p if is_atomic_prop(p) or all(ch.isalnum() or ch in "_." for ch in p) else "(%s)" % p


# --------------------------------------------------------------------------- outcome trees
def tree_conds(t):
    """the definedness condition of an outcome tree as a list of Props ([] = always defined)"""
    d = tree_defined(t)
    return [] if d == "True" else [d]


def tree_defined(t, indent=None):
    k = t[0]
    if k == "let":
        d = tree_defined(t[4])
        if d == "True":
            return "True"
        if t[1] in d:
            return "let %s : %s := %s; %s" % (t[1], t[2].lean if isinstance(t[2], Ty) else t[2], t[3], d)
        return d
    if k == "assert":
        d = tree_defined(t[3])
        if d == "True":
            return t[1]
        return "%s ∧ %s" % (paren(t[1]), paren(d))
    if k == "if":
        a, b = tree_defined(t[2]), tree_defined(t[3])
        if a == "True" and b == "True":
            return "True"
        if b == "True":
            return "%s → %s" % (paren(t[1]), paren(a))
        if a == "True":
            return "¬ %s → %s" % (paren(t[1]), paren(b))
        return "if %s then %s else %s" % (t[1], a, b)
    if k == "ret":
        return "True"
    if k == "ub":
        return "False"
    if k == "throw":
        return "True"
    die("internal: outcome %s" % k)


def has_leaf(t, kinds):
    k = t[0]
    if k == "let":
        return has_leaf(t[4], kinds)
    if k == "assert":
        return "ub" in kinds or has_leaf(t[3], kinds)
    if k == "if":
        return has_leaf(t[2], kinds) or has_leaf(t[3], kinds)
    return k in kinds


def emit_tree(t, leaf, indent, fork, ub=".error .ub"):
    """Lean term of an outcome tree.  `leaf(t)` renders ret / throw leaves.  With `fork`, assertions become
    `if p then ... else <ub>`; without, they are dropped (they live in `<fn>_defined`)."""
    pad = " " * indent
    k = t[0]
    if k == "let":
        ty = t[2].lean if isinstance(t[2], Ty) else t[2]
        return pad + "let %s : %s := %s\n" % (t[1], ty, t[3]) + emit_tree(t[4], leaf, indent, fork, ub)
    if k == "assert":
        if not fork:
            return emit_tree(t[3], leaf, indent, fork, ub)
        return (pad + "if %s then\n" % t[1] + emit_tree(t[3], leaf, indent + 2, fork, ub) + "\n" + pad
                + "else %s  -- undefined behaviour: %s" % (ub, t[2]))
    if k == "if":
        return (pad + "if %s then\n" % t[1] + emit_tree(t[2], leaf, indent + 2, fork, ub) + "\n" + pad + "else\n"
                + emit_tree(t[3], leaf, indent + 2, fork, ub))
    if k == "ub":
        if not fork:
            die("internal: ub leaf in a pure function")
        return pad + "%s  -- undefined behaviour: %s" % (ub, t[1])
    return pad + leaf(t)
