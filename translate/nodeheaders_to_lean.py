#!/usr/bin/env python3
"""
nodeheaders_to_lean.py -- translate the node-lifetime decision logic of `class MEDDLY::node_headers`
(src/node_headers.h, src/node_headers.cc; configuration REFCOUNTS_ON) into Lean 4, as transition functions of the
header of ONE node handle `p`:

    isDeleted(p) isActive(p) getNodeCacheCount(p) getIncomingCount(p)    const members   State -> Int -> Except Err value
    deactivate(p) cacheNode(p) uncacheNode(p) unlinkNode(p)              void members    State -> Int -> Except Err State
    linkNode(p)                                                          returns p       State -> Int -> Except Err (State x Int)
    lastUnlink(p) lastUncache(p)                      (node_headers.cc)  void members    State -> Int -> Except Err State
    + fixed text: the assumed effect of `forest::deleteNode(p)` on the header (= deactivate) and the dispatcher `step`

    python3 translate/nodeheaders_to_lean.py --out lean/MeddlyModel/Gen/NodeHeaders.lean [--repo /repo] [-I DIR]...

The state is the header entry of the handle the function is called with: for every array member of the class the
pair (pointer is non-null, the entry at index size_t(p)) as an `Option`, the flag `pessimistic`, and a GHOST list of
the calls that leave the translated logic, in order: `parent.deleteNode(p)`, `recycleNodeHandle(p)`, `reviveNode(p)`.

How: one clang++-14 call on a probe that includes node_headers.h and then the text of node_headers.cc (both searched
in the `-I` directories first, then in <repo>/src), one on arrays.h (signatures of the array members used) and one on
forest.cc (the assumption about `forest::deleteNode` is checked syntactically); the typed JSON AST is walked by
`NHExec`, a subclass of the symbolic executor of cxx2lean.py, which adds

  * `X->m(size_t(p) [, v])` for the array members X (level_array / counter_array / bitvector): a call through a member
    pointer of unknown nullness becomes a `match` on the Option (none = nullptr: `.error .ub`); the only index accepted
    is `size_t(p)` for the function's own handle parameter (anything else cannot be expressed in a per-handle state
    and is rejected); the counter_array members are the functions `Counter.*` of the generated prelude (their
    specification for one in-range entry; proved for the GENERATED counter_array in Props/NodeHeadersGen.lean);
  * `if (X)` / `X && ...` on a member pointer (PointerToBoolean), `&&` / `||` with C++ short-circuit evaluation
    (a conditionally evaluated operand with effects or side conditions is rejected);
  * calls of other translated members `this->f(p)` as calls of the generated Lean function on the packed current state,
    the event calls `parent.deleteNode(p)` (event + the assumed effect `deleteNode_effect`), `recycleNodeHandle(p)`,
    `reviveNode(p)` (events; their bodies are checked syntactically not to touch the modelled part of the header);
  * updates of statistics (`stats.x++`): no effect on the model, noted.

Fails loudly (exit 2, names the construct and the source line, output untouched) on anything else.
"""
import argparse
import os
import sys

sys.path.insert(0, os.path.dirname(os.path.abspath(__file__)))
import cxx2lean as C                                                                     # noqa: E402
from cxx2lean import (Unsupported, die, where, file_of, run_clang, parse_docs, find_header, write_if_changed,  # noqa: E402
                      T_INT, T_BOOL, T_VOID, Ty, Val, Exec, Fn)

PROG = "nodeheaders_to_lean"
LEAN_RESERVED = {"s", "e", "x", "r", "fun", "let", "match", "with", "if", "then", "else", "end", "at", "from", "do", "in",
                 "have", "show", "by", "def", "theorem", "open", "where", "Nat", "Int", "List", "some", "none", "step"}


# --------------------------------------------------------------------------- types
class NatTy(Ty):
    def __init__(self, name, width):
        Ty.__init__(self, name, "nat", "Nat", width, False)


class ArrTy(Ty):
    """pointer to one of the array classes of arrays.h"""

    def __init__(self, cls, elem_lean, elem_ty):
        Ty.__init__(self, "MEDDLY::%s *" % cls, "arr", "Option %s" % elem_lean)
        self.cls, self.elem_lean, self.elem_ty = cls, elem_lean, elem_ty


U32 = NatTy("unsigned int", 32)
U64 = NatTy("unsigned long", 64)
T_IDX = Ty("size_t(p)", "idx", "-")
T_LONG = Ty("long", "stat", "-")
T_FOREST = Ty("MEDDLY::forest", "forest", "-")
T_STATS = Ty("MEDDLY::statset", "stats", "-")
T_BOUND = Ty("<bound member function type>", "bound", "-")
T_THIS = Ty("MEDDLY::node_headers *", "this", "-")
ARRS = {"level_array": ArrTy("level_array", "Int", T_INT), "counter_array": ArrTy("counter_array", "Nat", U32),
        "bitvector": ArrTy("bitvector", "Bool", T_BOOL)}
ALL_TYPES = {"int": T_INT, "bool": T_BOOL, "void": T_VOID, "unsigned int": U32, "unsigned long": U64, "long": T_LONG,
             "MEDDLY::forest": T_FOREST, "MEDDLY::statset": T_STATS, T_BOUND.name: T_BOUND, T_THIS.name: T_THIS}
for _a in ARRS.values():
    ALL_TYPES[_a.name] = _a


def my_type_of_json(t, ctx):
    q = t.get("desugaredQualType", t.get("qualType"))
    if q is None:
        die("%s: node without a type" % ctx)
    q = q.strip()
    ref = False
    if q.endswith("&"):
        ref = True
        q = q[:-1].strip()
    for _ in range(2):
        if q.endswith(" const") or q.endswith("*const"):        # `T *const` (a member seen from a const method)
            q = q[:-5].strip()
        if q.startswith("const "):                                # `const T *`, a const scalar
            q = q[6:].strip()
    if q in ALL_TYPES:
        return ALL_TYPES[q], ref
    die("%s: unsupported C++ type `%s`" % (ctx, t.get("qualType")))


C.TYPE_HOOK[0] = my_type_of_json
type_of_json = C.type_of_json
type_of = C.type_of


# --------------------------------------------------------------------------- values
class PtrVal:
    """the value of an array member pointer. kind: 'some' (not null; `content` = Lean term of the entry of handle p) |
    'none' (nullptr) | 'opt' (unknown: the member as found in the current State variable)"""

    def __init__(self, ty, field, kind, content=None, dirty=False):
        self.ty, self.field, self.kind, self.content, self.dirty = ty, field, kind, content, dirty
        self.conds, self.const, self.atom = [], None, True


class NullFork(Exception):
    def __init__(self, pv, node):
        Exception.__init__(self)
        self.pv, self.node = pv, node


class UBNow(Exception):
    def __init__(self, why):
        Exception.__init__(self)
        self.why = why


VOID_RESULT = Val(T_VOID, "()", None, True)


def atomic(term):
    return all(ch.isalnum() or ch in "_." for ch in term)


def par(term):
    return term if atomic(term) or C.single_group(term) else "(" + term + ")"


def bval(term, const=None):
    if const is not None:
        return Val(T_BOOL, "true" if const else "false", bool(const), True, prop="True" if const else "False")
    return Val(T_BOOL, term, None, atomic(term), prop="%s = true" % par(term))


def nlit(ty, v):
    if ty == T_INT:
        return C.lit(T_INT, v)
    return Val(ty, "%d" % v, v, atom=True)


# the members of the array classes that may be called, with the type clang must report for them (checked against arrays.h)
ARRAY_METHODS = {
    ("level_array", "get"): "int (size_t) const",
    ("level_array", "set"): "void (size_t, int)",
    ("counter_array", "get"): "unsigned int (size_t) const",
    ("counter_array", "increment"): "void (size_t)",
    ("counter_array", "decrement"): "void (size_t)",
    ("counter_array", "isZeroBeforeIncrement"): "bool (size_t)",
    ("counter_array", "isPositiveAfterDecrement"): "bool (size_t)",
    ("bitvector", "get"): "bool (size_t) const",
    ("bitvector", "set"): "void (size_t, bool)",
}
# what recycleNodeHandle / reviveNode (and the members they call) may do with the modelled arrays without changing the
# observable entry of a handle
FRAME_OK = {"get", "shrink", "expand", "entry_bits", "getSize", "firstZero", "firstOne", "show"}


class Member:
    def __init__(self, name, retkind, ret):
        self.name, self.retkind, self.ret = name, retkind, ret


# --------------------------------------------------------------------------- the executor
class NHExec(Exec):
    def __init__(self, fields):
        Exec.__init__(self)
        self.fields = fields            # [(name, Ty)]: the array members (ArrTy), `pessimistic`, the ghost `events`
        self.members = {}               # clang decl id -> Member
        self.event_members = {}         # clang decl id -> event constructor (recycleNodeHandle, reviveNode)
        self.delete_ids = set()         # clang decl ids of forest::deleteNode
        self.parent_ok = False
        self.varname = {}

    # ---------------------------------------------------------------- environment helpers
    def facts(self, env):
        return env.get(("facts",), ())

    def add_fact(self, env, p):
        if p not in self.facts(env):
            env[("facts",)] = self.facts(env) + (p,)

    def need(self, f, env, prop, why, kind="ub"):
        if prop == "True" or prop in self.facts(env):
            return
        f.pending.append(("assert", prop, why, kind))
        self.add_fact(env, prop)

    def bind_let(self, f, base, lean_ty, term):
        name = f.fresh(base)
        f.pending.append(("let", name, lean_ty, term))
        return name

    def load_state(self, env, base):
        env[("base",)] = base
        for name, ty in self.fields:
            if ty.kind == "arr":
                env[("this", name)] = PtrVal(ty, name, "opt")
            elif name == "events":
                env[("this", name)] = ("%s.events" % base, False)
            else:
                proj = "%s.%s" % (base, name)
                env[("this", name)] = Val(ty, proj, None, True, prop="%s = true" % proj)

    def state_term(self, f, env):
        base = env[("base",)]
        parts = []
        for name, ty in self.fields:
            v = env[("this", name)]
            if ty.kind == "arr":
                if v.kind == "some" and v.dirty:
                    parts.append("%s := some %s" % (name, par(v.content)))
            elif name == "events":
                if v[1]:
                    parts.append("events := %s" % v[0])
        if not parts:
            return base
        return "{ %s with %s }" % (base, ", ".join(parts))

    def pack(self, f, env):
        """the current state as an atomic Lean term (binds a new State variable if something changed)"""
        st = self.state_term(f, env)
        if atomic(st):
            return st
        name = self.bind_let(f, "s", "State", st)
        env[("base",)] = name
        for fname, ty in self.fields:
            v = env[("this", fname)]
            if ty.kind == "arr":
                if v.kind == "some":
                    env[("this", fname)] = PtrVal(v.ty, v.field, "some", v.content, False)
            elif fname == "events":
                env[("this", fname)] = (v[0], False)
        return name

    def handle_arg(self, f, a, env, what):
        v = self.expr(f, a, env)
        if isinstance(v, PtrVal) or v.ty != T_INT or v.lean != f.handle:
            die("%s: %s is called on something that is not the function's own handle parameter `%s` (the per-handle state "
                "cannot express an access to another handle) at %s" % (f.name, what, f.handle, where(a)))
        return v

    # ---------------------------------------------------------------- expressions
    def e_IntegerLiteral(self, f, n, env):
        ty = type_of(n)
        if ty != T_INT and ty.kind != "nat":
            die("%s: integer literal of type %s at %s" % (f.name, ty, where(n)))
        return nlit(ty, int(n["value"]))

    def e_CXXBoolLiteralExpr(self, f, n, env):
        return bval(None, bool(n["value"]))

    def e_DeclRefExpr(self, f, n, env):
        die("%s: use of `%s` as an lvalue / without a load at %s" % (f.name, n.get("referencedDecl", {}).get("name"), where(n)))

    def read_lvalue(self, f, sub, env, n):
        while sub.get("kind") == "ParenExpr":
            sub = sub["inner"][0]
        k = sub.get("kind")
        if k == "DeclRefExpr":
            rd = sub.get("referencedDecl", {})
            if rd.get("kind") != "ParmVarDecl" or ("var", rd.get("id")) not in env:
                die("%s: read of `%s` (%s), which is not a parameter of the function, at %s" % (f.name, rd.get("name"), rd.get("kind"), where(n)))
            return env[("var", rd["id"])]
        if k == "MemberExpr" and sub["inner"][0].get("kind") == "CXXThisExpr":
            name = sub.get("name")
            if ("this", name) not in env or name == "events":
                die("%s: read of the member `%s`, which is not part of the per-handle model (modelled: %s), at %s"
                    % (f.name, name, ", ".join(x for x, _ in self.fields if x != "events"), where(n)))
            return env[("this", name)]
        die("%s: unsupported lvalue `%s` at %s" % (f.name, k, where(n)))

    def cast(self, f, n, env):
        ck = n.get("castKind")
        sub = n["inner"][0]
        if ck == "LValueToRValue":
            v = self.read_lvalue(f, sub, env, n)
            ty = type_of(n)
            if v.ty != ty:
                die("%s: a %s is read as %s at %s" % (f.name, v.ty, ty, where(n)))
            return v
        ty = type_of(n)
        a = self.expr(f, sub, env)
        if ck == "NoOp":
            if a.ty == T_IDX and ty == U64:
                return a
            if a.ty != ty:
                die("%s: NoOp cast changes the type %s -> %s at %s" % (f.name, a.ty, ty, where(n)))
            return a
        if ck == "PointerToBoolean":
            if not isinstance(a, PtrVal):
                die("%s: PointerToBoolean on %s at %s" % (f.name, a.ty, where(n)))
            if a.kind == "opt":
                raise NullFork(a, n)
            return bval(None, a.kind == "some")
        if isinstance(a, PtrVal):
            die("%s: cast `%s` of a pointer at %s" % (f.name, ck, where(n)))
        if ck == "IntegralCast":
            return self.integral_cast(f, a, ty, n, env)
        die("%s: unsupported cast kind `%s` (%s) at %s" % (f.name, ck, n.get("kind"), where(n)))

    e_ImplicitCastExpr = cast
    e_CXXFunctionalCastExpr = cast
    e_CStyleCastExpr = cast
    e_CXXStaticCastExpr = cast

    def integral_cast(self, f, a, ty, n, env):
        if a.ty == ty:
            return a
        if a.ty == T_INT and a.const is not None and ty.kind == "nat":
            if a.const < 0:
                die("%s: conversion of the negative constant %d to %s at %s" % (f.name, a.const, ty, where(n)))
            return nlit(ty, a.const)
        if a.ty == T_INT and ty == U64:
            # size_t(p): only as the index of the header arrays, only for the handle the state describes
            if a.lean != f.handle:
                die("%s: conversion int -> size_t of something that is not the handle parameter `%s` at %s" % (f.name, f.handle, where(n)))
            self.need(f, env, "¬ (%s < 1)" % a.lean,
                      "size_t(%s) for %s < 1 (MEDDLY_DCASSERT(p>0) is compiled out): slot 0 or an index >= 2^63, not the header of a node, at %s"
                      % (a.lean, a.lean, where(n)), kind="unmodelled")
            return Val(T_IDX, a.lean, None, True)
        if a.ty == U32 and ty == U64:
            return Val(U64, a.lean, a.const, a.atom)                       # widening: value unchanged
        if a.ty == T_BOOL and ty == T_INT:
            if a.const is not None:
                return nlit(T_INT, 1 if a.const else 0)
            return Val(T_INT, "if %s then 1 else 0" % a.as_prop())       # bool -> int: true = 1, false = 0
        die("%s: IntegralCast %s -> %s of a run-time value is not modelled, at %s" % (f.name, a.ty, ty, where(n)))

    def e_UnaryOperator(self, f, n, env):
        op = n.get("opcode")
        if op != "!":
            die("%s: unsupported unary operator `%s` at %s" % (f.name, op, where(n)))
        a = self.expr(f, n["inner"][0], env)
        if isinstance(a, PtrVal) or a.ty != T_BOOL:
            die("%s: `!` on something that is not a bool at %s" % (f.name, where(n)))
        if a.const is not None:
            return bval(None, not a.const)
        return Val(T_BOOL, "!" + a.p(), None, False, prop="¬ (%s)" % a.as_prop())

    def e_BinaryOperator(self, f, n, env):
        op = n.get("opcode")
        ty = type_of(n)
        if op in ("&&", "||"):
            a = self.expr(f, n["inner"][0], env)
            if isinstance(a, PtrVal) or a.ty != T_BOOL or ty != T_BOOL:
                die("%s: `%s` on something that is not a bool at %s" % (f.name, op, where(n)))
            if a.const is not None and (op == "||") == bool(a.const):
                return a                                                   # short circuit: the right operand is not evaluated
            pend = len(f.pending)
            try:
                b = self.expr(f, n["inner"][1], env)
            except UBNow as u:
                if a.const is None:
                    die("%s: undefined behaviour (%s) in the conditionally evaluated right operand of `%s` at %s"
                        % (f.name, u.why, op, where(n)))
                raise
            if isinstance(b, PtrVal) or b.ty != T_BOOL:
                die("%s: `%s` on something that is not a bool at %s" % (f.name, op, where(n)))
            if a.const is not None:
                return b                                                   # the left operand does not decide: result = right operand
            if len(f.pending) != pend:
                die("%s: the right operand of `%s` has effects / side conditions and is evaluated conditionally "
                    "(not modelled) at %s" % (f.name, op, where(n)))
            if b.const is not None:
                if (op == "||") == bool(b.const):
                    # a || true, a && false: the value is b's, a has been evaluated (it has no effects left: see above)
                    return b
                return a                                                   # a || false = a, a && true = a
            lo = "∨" if op == "||" else "∧"
            return Val(T_BOOL, "%s %s %s" % (a.p(), op, b.p()), None, False, prop="(%s) %s (%s)" % (a.as_prop(), lo, b.as_prop()))
        if op in ("<", ">", "<=", ">=", "==", "!="):
            a = self.expr(f, n["inner"][0], env)
            b = self.expr(f, n["inner"][1], env)
            if isinstance(a, PtrVal) or isinstance(b, PtrVal):
                die("%s: comparison of pointers at %s" % (f.name, where(n)))
            if a.ty != b.ty or ty != T_BOOL or not (a.ty == T_INT or a.ty.kind == "nat"):
                die("%s: comparison `%s` of %s with %s at %s" % (f.name, op, a.ty, b.ty, where(n)))
            if a.const is not None and b.const is not None:
                c = {"<": a.const < b.const, ">": a.const > b.const, "<=": a.const <= b.const,
                     ">=": a.const >= b.const, "==": a.const == b.const, "!=": a.const != b.const}[op]
                return bval(None, c)
            lop = {"<": "<", ">": ">", "<=": "≤", ">=": "≥", "==": "=", "!=": "≠"}[op]
            p = "%s %s %s" % (a.p(), lop, b.p())
            return Val(T_BOOL, "decide (%s)" % p, None, False, prop=p)
        die("%s: unsupported binary operator `%s` at %s" % (f.name, op, where(n)))

    def e_ConditionalOperator(self, f, n, env):
        die("%s: `?:` is not modelled here, at %s" % (f.name, where(n)))

    # ---------------------------------------------------------------- member calls
    def strip_this(self, obj):
        while obj.get("kind") == "ImplicitCastExpr" and obj.get("castKind") in ("NoOp", "UncheckedDerivedToBase"):
            if obj.get("castKind") != "NoOp":
                return obj
            obj = obj["inner"][0]
        return obj

    def e_CXXMemberCallExpr(self, f, n, env):
        m = n["inner"][0]
        if m.get("kind") != "MemberExpr":
            die("%s: unsupported member call at %s" % (f.name, where(n)))
        args = n["inner"][1:]
        if any(self.contains(a, ("CXXDefaultArgExpr",)) for a in args):
            die("%s: default arguments are not modelled, at %s" % (f.name, where(n)))
        name, mid = m.get("name"), m.get("referencedMemberDecl")
        obj = self.strip_this(m["inner"][0])
        # ---- this->g(p)
        if obj.get("kind") == "CXXThisExpr":
            if mid in self.event_members:
                if len(args) != 1:
                    die("%s: %s with %d arguments at %s" % (f.name, name, len(args), where(n)))
                self.handle_arg(f, args[0], env, name)
                self.event(f, env, "%s %s" % (self.event_members[mid], f.handle))
                f.note("%s(%s) at %s: logged as an event (its body leaves the modelled entries of the handle unchanged: checked syntactically)"
                       % (name, f.handle, where(n)))
                return VOID_RESULT
            g = self.members.get(mid)
            if g is None:
                die("%s: call of member function `%s`, which is not one of the translated members, at %s" % (f.name, name, where(n)))
            if len(args) != 1:
                die("%s: call of %s with %d arguments at %s" % (f.name, name, len(args), where(n)))
            self.handle_arg(f, args[0], env, name)
            st = self.pack(f, env)
            if g.retkind == "value":
                r = f.fresh("r")
                f.pending.append(("bind", r, "%s %s %s" % (g.name, st, f.handle)))
                f.note("call of the const member %s at %s: the generated `%s`" % (name, where(n), g.name))
                if g.ret == T_BOOL:
                    return bval(r)
                return Val(g.ret, r, None, True)
            res = f.fresh("s")
            if g.retkind == "both":
                r = f.fresh("r")
                f.pending.append(("bind", "(%s, %s)" % (res, r), "%s %s %s" % (g.name, st, f.handle)))
                out = Val(g.ret, r, None, True)
            else:
                f.pending.append(("bind", res, "%s %s %s" % (g.name, st, f.handle)))
                out = VOID_RESULT
            self.reload(env, res)
            f.note("call of %s at %s: the generated `%s` is applied to the current state" % (name, where(n), g.name))
            return out
        # ---- parent.deleteNode(p)
        if obj.get("kind") == "MemberExpr" and obj.get("name") == "parent" and obj["inner"][0].get("kind") == "CXXThisExpr" \
                and not m.get("isArrow"):
            if not self.parent_ok or mid not in self.delete_ids or name != "deleteNode" or len(args) != 1:
                die("%s: call of `parent.%s`, which is not forest::deleteNode(node_handle), at %s" % (f.name, name, where(n)))
            self.handle_arg(f, args[0], env, "parent.deleteNode")
            self.event(f, env, "Event.deleteNode %s" % f.handle)
            st = self.pack(f, env)
            res = f.fresh("s")
            f.pending.append(("bind", res, "deleteNode_effect %s %s" % (st, f.handle)))
            self.reload(env, res)
            f.note("parent.deleteNode(%s) at %s: logged as an event, followed by its ASSUMED effect on this header "
                   "(`deleteNode_effect` = deactivate)" % (f.handle, where(n)))
            return VOID_RESULT
        # ---- X->m(size_t(p), ...)
        pv = self.expr(f, m["inner"][0], env)
        if not isinstance(pv, PtrVal) or not m.get("isArrow"):
            die("%s: member call `%s` on something that is neither `this`, `parent` nor one of the array members at %s"
                % (f.name, name, where(n)))
        cls = pv.ty.cls
        if (cls, name) not in ARRAY_METHODS:
            die("%s: call of %s::%s, which is not one of the modelled array members (%s), at %s"
                % (f.name, cls, name, ", ".join(sorted(x[1] for x in ARRAY_METHODS if x[0] == cls)), where(n)))
        if pv.kind == "none":
            raise UBNow("member call %s->%s through a null pointer at %s" % (pv.field, name, where(n)))
        if pv.kind == "opt":
            raise NullFork(pv, n)
        want = ARRAY_METHODS[(cls, name)]
        nargs = want.count(",") + 1
        if len(args) != nargs:
            die("%s: %s::%s with %d arguments at %s" % (f.name, cls, name, len(args), where(n)))
        idx = self.expr(f, args[0], env)
        if isinstance(idx, PtrVal) or idx.ty != T_IDX or idx.lean != f.handle:
            die("%s: %s->%s is called with an index that is not size_t(%s) (the per-handle state cannot express an access "
                "to another entry) at %s" % (f.name, pv.field, name, f.handle, where(n)))
        rty = type_of(n)
        if rty.name != want.split(" (")[0].replace("size_t", "unsigned long"):
            die("%s: %s::%s returns %s, expected %s, at %s" % (f.name, cls, name, rty, want, where(n)))
        c = pv.content
        key = ("this", pv.field)

        def update(term):
            env[key] = PtrVal(pv.ty, pv.field, "some", term, True)

        if name == "get":
            if cls == "bitvector":
                return bval(c)
            return Val(pv.ty.elem_ty, c, None, atomic(c))
        if name == "set":
            v = self.expr(f, args[1], env)
            if isinstance(v, PtrVal) or v.ty != pv.ty.elem_ty:
                die("%s: %s->set of a %s at %s" % (f.name, pv.field, v.ty, where(n)))
            t = v.lean if v.atom else self.bind_let(f, pv.field, pv.ty.elem_lean, v.lean)
            update(t)
            return VOID_RESULT
        # counter_array
        c2 = f.fresh(pv.field)
        if name in ("increment", "decrement"):
            f.pending.append(("bind", c2, "Counter.%s %s" % (name, par(c))))
            update(c2)
            return VOID_RESULT
        r = f.fresh("r")
        f.pending.append(("bind", "(%s, %s)" % (c2, r), "Counter.%s %s" % (name, par(c))))
        update(c2)
        return bval(r)

    def event(self, f, env, ev):
        cur, _ = env[("this", "events")]
        name = self.bind_let(f, "events", "List Event", "%s ++ [%s]" % (cur, ev if ev.startswith("Event.") else "Event." + ev))
        env[("this", "events")] = (name, True)

    def reload(self, env, base):
        facts = self.facts(env)
        keep = {k: v for k, v in env.items() if k[0] == "var"}
        env.clear()
        env.update(keep)
        env[("facts",)] = facts
        self.load_state(env, base)

    # ---------------------------------------------------------------- statements
    def wrap(self, pending, tree):
        for it in reversed(pending):
            if it[0] == "let":
                tree = ("let", it[1], it[2], it[3], tree)
            elif it[0] == "bind":
                tree = ("bind", it[1], it[2], tree)
            else:
                tree = ("assert", it[1], it[2], tree, it[3])
        return tree

    def leaf(self, f, v, env):
        if isinstance(v, PtrVal):
            die("%s: returns a pointer" % f.name)
        return ("ret", v, self.state_term(f, env))

    def run(self, f, stmts, env):
        while stmts:
            n, stmts = stmts[0], stmts[1:]
            snap_env, snap_cnt = dict(env), dict(f.counters)
            try:
                r = self.stmt(f, n, stmts, env)
            except NullFork as fk:
                env.clear()
                env.update(snap_env)
                f.counters = snap_cnt
                self.take(f)
                return self.null_fork(f, fk, [n] + stmts, env)
            except UBNow as u:
                self.take(f)
                return ("ub", u.why)
            if r[0] == "tree":
                return r[1]
            stmts = r[1]
            pend = self.take(f)
            if pend:
                return self.wrap(pend, self.run(f, stmts, env))
        return self.leaf(f, None, env)

    def null_fork(self, f, fk, stmts, env):
        pv = fk.pv
        scrut = "%s.%s" % (env[("base",)], pv.field)
        name = f.fresh(pv.field)
        e1, e2 = dict(env), dict(env)
        e1[("this", pv.field)] = PtrVal(pv.ty, pv.field, "some", name, False)
        e2[("this", pv.field)] = PtrVal(pv.ty, pv.field, "none")
        t1 = self.run(f, stmts, e1)
        t2 = self.run(f, stmts, e2)
        f.note("`%s` tested / dereferenced at %s: match on the member (none = nullptr)" % (pv.field, where(fk.node)))
        return ("match", scrut, name, t1, t2)

    def is_stat(self, n):
        """`stats.x`, `mstats.x`: a statistics counter (not part of the model)"""
        return n.get("kind") == "MemberExpr" and n["inner"][0].get("kind") == "MemberExpr" \
            and n["inner"][0].get("name") in ("stats", "mstats") and n["inner"][0]["inner"][0].get("kind") == "CXXThisExpr"

    def stmt(self, f, n, rest, env):
        k = n.get("kind")
        if k == "NullStmt":
            return ("cont", rest)
        if k == "CompoundStmt":
            return ("cont", list(n.get("inner", [])) + rest)
        if k == "ReturnStmt":
            if n.get("inner"):
                v = self.expr(f, n["inner"][0], env)
                return ("tree", self.wrap(self.take(f), self.leaf(f, v, env)))
            return ("tree", self.leaf(f, None, env))
        if k == "IfStmt":
            if n.get("hasInit") or n.get("hasVar") or n.get("isConstexpr"):
                die("%s: if with init / declaration / constexpr at %s" % (f.name, where(n)))
            inner = n["inner"]
            c = self.expr(f, inner[0], env)
            if isinstance(c, PtrVal) or c.ty != T_BOOL:
                die("%s: if condition that is not a bool at %s" % (f.name, where(n)))
            pend = self.take(f)
            th = [inner[1]]
            el = [inner[2]] if len(inner) > 2 else []
            if c.const is not None:
                f.note("`if` at %s decided in this branch of the translation: %s" % (where(n), "true" if c.const else "false"))
                return ("tree", self.wrap(pend, self.run(f, (th if c.const else el) + rest, env)))
            p = c.as_prop()
            e1, e2 = dict(env), dict(env)
            self.add_fact(e1, p)
            self.add_fact(e2, "¬ (%s)" % p)
            return ("tree", self.wrap(pend, ("if", p, self.run(f, th + rest, e1), self.run(f, el + rest, e2))))
        if k == "CXXMemberCallExpr":
            v = self.e_CXXMemberCallExpr(f, n, env)
            if v is not VOID_RESULT:
                f.note("value of the call at %s discarded" % where(n))
            return ("cont", rest)
        if k == "UnaryOperator" and n.get("opcode") in ("++", "--") and self.is_stat(n["inner"][0]):
            f.note("`%s.%s%s` at %s: statistics, no effect on the model" % (n["inner"][0]["inner"][0].get("name"),
                                                                          n["inner"][0].get("name"), n.get("opcode"), where(n)))
            return ("cont", rest)
        die("%s: unsupported statement node kind `%s` at %s" % (f.name, k, where(n)))


# --------------------------------------------------------------------------- emission
def emit(t, indent, retkind, f):
    pad = " " * indent
    k = t[0]
    if k == "let":
        ty = t[2].lean if isinstance(t[2], Ty) else t[2]
        return pad + "let %s : %s := %s\n" % (t[1], ty, t[3]) + emit(t[4], indent, retkind, f)
    if k == "assert":
        why = ("undefined behaviour: " if t[4] == "ub" else "not modelled: ") + t[2]
        return (pad + "if %s then\n" % t[1] + emit(t[3], indent + 2, retkind, f) + "\n" + pad
                + "else .error .%s  -- %s" % (t[4], why))
    if k == "if":
        return (pad + "if %s then\n" % t[1] + emit(t[2], indent + 2, retkind, f) + "\n" + pad + "else\n"
                + emit(t[3], indent + 2, retkind, f))
    if k == "match":
        return (pad + "match %s with\n" % t[1] + pad + "| some %s =>\n" % t[2] + emit(t[3], indent + 2, retkind, f) + "\n"
                + pad + "| none =>\n" + emit(t[4], indent + 2, retkind, f))
    if k == "bind":
        sub = t[3]
        if retkind == "state" and sub[0] == "ret" and sub[1] is None and sub[2] == t[1]:
            return pad + t[2]                       # tail call
        return (pad + "match %s with\n" % t[2] + pad + "| .error e => .error e\n" + pad + "| .ok %s =>\n" % t[1]
                + emit(sub, indent + 2, retkind, f))
    if k == "ub":
        return pad + ".error .ub  -- undefined behaviour: %s" % t[1]
    if k != "ret":
        die("internal: outcome %s" % k)
    v, st = t[1], t[2]
    if retkind == "state":
        if v is not None:
            die("%s: a void member returns a value" % f.name)
        return pad + ".ok %s" % par(st)
    if v is None:
        die("%s: a path ends without a return value" % f.name)
    if retkind == "value":
        if st != "s":
            die("%s: a const member changes the state (%s)" % (f.name, st))
        return pad + ".ok %s" % v.p()
    return pad + ".ok (%s, %s)" % (st, v.lean)


PRELUDE = '''set_option linter.unusedVariables false

namespace Gen.NodeHeaders

/-- how a call can fail: undefined behaviour (a member call through a null array pointer), or a situation that is
    outside the modelled contract (a handle < 1 used as an index, a counter leaving 0 .. 2^32-1) -/
inductive Err where
  | ub
  | unmodelled
  deriving DecidableEq, Repr, Inhabited

/-- the calls that leave the translated logic, in the order in which they are issued -/
inductive Event where
  | deleteNode (p : Int)            -- `parent.deleteNode(p)`: the forest destroys the node (unlinks its children, frees its storage)
  | recycleNodeHandle (p : Int)     -- `recycleNodeHandle(p)`: the handle goes back to the free lists
  | reviveNode (p : Int)            -- `reviveNode(p)`: an unreachable node got its first incoming edge again
  deriving DecidableEq, Repr, Inhabited

/- SPECIFICATION (fixed text, not translated here) of the `counter_array` members called by node_headers, for ONE in-range
   entry holding `c`.  Props/NodeHeadersGen.lean (`NodeHeadersCounter.counter_spec`) proves that the counter_array GENERATED from arrays.h /
    arrays.cc (Gen/CounterArray.lean) does exactly this to entry i and leaves every other entry alone, on every
    in-contract call.  Outside 0 .. 2^32-1 the real counters wrap around: `.error .unmodelled`. -/
namespace Counter
def increment (c : Nat) : Except Err Nat :=
  if c + 1 < 4294967296 then .ok (c + 1) else .error .unmodelled
def decrement (c : Nat) : Except Err Nat :=
  if 0 < c then .ok (c - 1) else .error .unmodelled
def isZeroBeforeIncrement (c : Nat) : Except Err (Nat × Bool) :=
  if c + 1 < 4294967296 then .ok (c + 1, decide (c = 0)) else .error .unmodelled
def isPositiveAfterDecrement (c : Nat) : Except Err (Nat × Bool) :=
  if 0 < c then .ok (c - 1, decide (0 < c - 1)) else .error .unmodelled
end Counter
'''


def body_of(d):
    b = [c for c in d.get("inner", []) if c.get("kind") == "CompoundStmt"]
    return b[0] if b else None


def walk(n, fn):
    if isinstance(n, dict):
        fn(n)
        for c in n.get("inner", []):
            walk(c, fn)


EXPECTED_FIELDS = [("levels", "MEDDLY::level_array *"), ("cache_counts", "MEDDLY::counter_array *"),
                   ("is_in_cache", "MEDDLY::bitvector *"), ("incoming_counts", "MEDDLY::counter_array *"),
                   ("is_reachable", "MEDDLY::bitvector *"), ("pessimistic", "bool")]
FIELD_DOC = {"levels": "`level_array* levels`: none = nullptr, some k = levels->get(p); k = 0 means DELETED (isDeleted)",
             "cache_counts": "`counter_array* cache_counts`: some c = cache_counts->get(p) (compute-table entries mentioning p)",
             "is_in_cache": "`bitvector* is_in_cache` (mark and sweep only; nullptr when reference counts are used)",
             "incoming_counts": "`counter_array* incoming_counts`: some c = incoming_counts->get(p) (incoming edges of p)",
             "is_reachable": "`bitvector* is_reachable` (mark and sweep only; nullptr when reference counts are used)",
             "pessimistic": "`bool pessimistic` (= parent.getPolicies().isPessimistic(), set by initialize())",
             "events": "GHOST: the calls that left the translated logic so far, oldest first"}

# name, clang type, where, retkind
FUNCS = [("isDeleted", "bool (MEDDLY::node_handle) const", "inline", "value"),
         ("isActive", "bool (MEDDLY::node_handle) const", "inline", "value"),
         ("deactivate", "void (MEDDLY::node_handle)", "inline", "state"),
         ("getNodeCacheCount", "unsigned long (MEDDLY::node_handle) const", "inline", "value"),
         ("getIncomingCount", "unsigned long (MEDDLY::node_handle) const", "inline", "value"),
         None,                                                                       # deleteNode_effect goes here
         ("lastUnlink", "void (MEDDLY::node_handle)", "cc", "state"),
         ("lastUncache", "void (MEDDLY::node_handle)", "cc", "state"),
         ("cacheNode", "void (MEDDLY::node_handle)", "inline", "state"),
         ("uncacheNode", "void (MEDDLY::node_handle)", "inline", "state"),
         ("linkNode", "MEDDLY::node_handle (MEDDLY::node_handle)", "inline", "both"),
         ("unlinkNode", "void (MEDDLY::node_handle)", "inline", "state")]
EVENT_FUNCS = [("reviveNode", "void (MEDDLY::node_handle)", "Event.reviveNode"),
               ("recycleNodeHandle", "void (MEDDLY::node_handle)", "Event.recycleNodeHandle")]


def check_arrays(adocs):
    """the array members used here exist in arrays.h with the expected types"""
    found = {}
    for d in adocs:
        if d.get("kind") == "CXXRecordDecl" and d.get("name") in ARRS and d.get("completeDefinition"):
            for m in d.get("inner", []):
                if m.get("kind") == "CXXMethodDecl":
                    found.setdefault((d["name"], m.get("name")), []).append(m["type"]["qualType"])
    for key, want in sorted(ARRAY_METHODS.items()):
        if found.get(key) != [want]:
            die("arrays.h: expected exactly one %s::%s of type `%s`, found %s" % (key[0], key[1], want, found.get(key)))


def check_delete_node(fdocs, fsrc):
    """forest::deleteNode(p) must call nodeHeaders.deactivate(p) exactly once, unconditionally, and touch the headers in
    no other way that the per-handle model would see -> source position of the call"""
    defs = [d for d in fdocs if d.get("kind") == "CXXMethodDecl" and d.get("name") == "deleteNode" and body_of(d) is not None]
    if len(defs) != 1:
        die("%s: expected exactly one definition of forest::deleteNode, found %d" % (fsrc, len(defs)))
    d = defs[0]
    if d["type"]["qualType"] != "void (MEDDLY::node_handle)":
        die("forest::deleteNode has the unexpected type %s" % d["type"]["qualType"])
    ps = [p for p in d.get("inner", []) if p.get("kind") == "ParmVarDecl"]
    pid = ps[0]["id"]
    body = body_of(d)
    calls = []

    def visit(n):
        if n.get("kind") == "CXXMemberCallExpr":
            m = n["inner"][0]
            if m.get("kind") == "MemberExpr" and m["inner"][0].get("kind") == "MemberExpr" and m["inner"][0].get("name") == "nodeHeaders":
                calls.append((m.get("name"), n))

    walk(body, visit)
    names = [c[0] for c in calls]
    bad = [x for x in names if x not in ("deactivate", "lastUsedHandle", "getNodeAddress", "setNodeAddress")]
    if bad:
        die("forest::deleteNode calls nodeHeaders.%s: the assumed effect of deleteNode on the header (deactivate only) does not hold" % bad[0])
    if names.count("deactivate") != 1:
        die("forest::deleteNode calls nodeHeaders.deactivate %d times (expected exactly once)" % names.count("deactivate"))
    call = [c[1] for c in calls if c[0] == "deactivate"][0]
    if not any(c is call for c in body.get("inner", [])):
        die("forest::deleteNode: nodeHeaders.deactivate is not called unconditionally (not a top-level statement of the body) at %s" % where(call))
    arg = call["inner"][1:]
    ok = len(arg) == 1 and arg[0].get("kind") == "ImplicitCastExpr" and arg[0].get("castKind") == "LValueToRValue" \
        and arg[0]["inner"][0].get("kind") == "DeclRefExpr" and arg[0]["inner"][0].get("referencedDecl", {}).get("id") == pid
    if not ok:
        die("forest::deleteNode: nodeHeaders.deactivate is not called with the parameter itself at %s" % where(call))

    def forbid(n):                                                      # the forest's own wrappers around the header operations
        if n.get("kind") == "CXXMemberCallExpr":
            m = n["inner"][0]
            if m.get("kind") == "MemberExpr" and m["inner"][0].get("kind") == "CXXThisExpr" \
                    and m.get("name") in ("linkNode", "unlinkNode", "cacheNode", "uncacheNode", "setNodeLevel", "deleteNode"):
                die("forest::deleteNode calls %s directly at %s: not covered by the assumed effect" % (m.get("name"), where(n)))

    walk(body, forbid)
    return "%s %s" % (os.path.basename(fsrc), where(call))


def translate(docs, adocs, fdocs, header, source, fsrc):
    check_arrays(adocs)
    dn_where = check_delete_node(fdocs, fsrc)
    # ---- the class ------------------------------------------------------------------------------
    cls = [d for d in docs if d.get("kind") == "CXXRecordDecl" and d.get("name") == "node_headers" and d.get("completeDefinition")]
    if len(cls) != 1:
        die("expected exactly one definition of class MEDDLY::node_headers, found %d" % len(cls))
    cls = cls[0]
    if os.path.realpath(file_of(cls) or "") != os.path.realpath(header):
        die("class node_headers was read from %s, not from %s (include order / include guard?)" % (file_of(cls), header))
    methods, fields_cxx = {}, {}
    for m in cls.get("inner", []):
        if m.get("kind") == "CXXMethodDecl" and not m.get("isImplicit"):
            methods.setdefault(m.get("name"), []).append(m)
        elif m.get("kind") == "FieldDecl":
            fields_cxx[m.get("name")] = m["type"].get("qualType")
    for name, q in EXPECTED_FIELDS:
        if fields_cxx.get(name) != q:
            die("node_headers::%s is %s, expected `%s` (is REFCOUNTS_ON still defined in defines.h? the translation is for "
                "the reference-counting configuration)" % (name, "`%s`" % fields_cxx[name] if name in fields_cxx else "missing", q))
    if fields_cxx.get("parent") != "MEDDLY::forest &" or fields_cxx.get("stats") != "MEDDLY::statset &":
        die("node_headers::parent / stats changed their types: %s / %s" % (fields_cxx.get("parent"), fields_cxx.get("stats")))
    fields = []
    for name, q in EXPECTED_FIELDS:
        fields.append((name, ALL_TYPES[q] if q in ALL_TYPES else die("internal: type %s" % q)))
    fields.append(("events", Ty("<event log>", "ghost", "List Event")))
    outofline = {}
    for d in docs:
        if d.get("kind") == "CXXMethodDecl" and d.get("parentDeclContextId") == cls.get("id") and body_of(d) is not None:
            if os.path.realpath(file_of(d) or "") != os.path.realpath(source):
                die("node_headers::%s was read from %s, not from %s" % (d.get("name"), file_of(d), source))
            outofline.setdefault(d.get("name"), []).append(d)

    def definition(name, sig, where_):
        decls = [m for m in methods.get(name, []) if m["type"]["qualType"] == sig]
        if len(decls) != 1:
            die("expected exactly one declaration of node_headers::%s with type `%s`, found %d%s"
                % (name, sig, len(decls), " (REFCOUNTS_ON undefined?)" if name in ("linkNode", "unlinkNode", "cacheNode", "uncacheNode") else ""))
        decl = decls[0]
        if where_ == "inline":
            if body_of(decl) is None:
                die("node_headers::%s is not defined inline in node_headers.h any more" % name)
            return decl, decl
        defs = [d for d in outofline.get(name, []) if d["type"]["qualType"] == sig]
        if len(defs) != 1 or body_of(decl) is not None:
            die("expected exactly one out-of-line definition of node_headers::%s in node_headers.cc, found %d" % (name, len(defs)))
        return decl, defs[0]

    ex = NHExec(fields)
    ex.parent_ok = True
    # forest::deleteNode as seen from node_headers.cc (forest.h is included there): its declaration id
    def find_forest(n):
        if n.get("kind") == "MemberExpr" and n.get("name") == "deleteNode" and n["inner"][0].get("kind") == "MemberExpr" \
                and n["inner"][0].get("name") == "parent" and n["inner"][0].get("type", {}).get("qualType") == "MEDDLY::forest":
            ex.delete_ids.add(n.get("referencedMemberDecl"))
    for d in docs:
        walk(d, find_forest)

    # ---- event members: syntactic frame check -----------------------------------------------------
    modelled = [x for x, q in EXPECTED_FIELDS]
    all_defs = {}
    for name, lst in methods.items():
        for m in lst:
            b = body_of(m)
            if b is not None:
                all_defs[m["id"]] = (name, m)
    for name, lst in outofline.items():
        for d in lst:
            all_defs[d["id"]] = (name, d)
            if d.get("previousDecl"):
                all_defs[d["previousDecl"]] = (name, d)
            for m in methods.get(name, []):
                if m["type"]["qualType"] == d["type"]["qualType"]:
                    all_defs[m["id"]] = (name, d)
    FORBIDDEN_CALLEES = {"linkNode", "unlinkNode", "cacheNode", "uncacheNode", "lastUnlink", "lastUncache", "deactivate",
                         "setNodeLevel", "swapNodes", "initialize", "setInCacheBit", "clearAllInCacheBits", "linkReachable"}

    def frame_check(root_name, d, seen, notes):
        if d["id"] in seen:
            return
        seen.add(d["id"])

        def visit(n):
            k = n.get("kind")
            if k == "CXXMemberCallExpr":
                m = n["inner"][0]
                if m.get("kind") != "MemberExpr":
                    return
                obj = m["inner"][0]
                while obj.get("kind") == "ImplicitCastExpr":
                    obj = obj["inner"][0]
                if obj.get("kind") == "MemberExpr" and obj["inner"][0].get("kind") == "CXXThisExpr":
                    if obj.get("name") in modelled and m.get("name") not in FRAME_OK:
                        die("%s: %s->%s at %s changes a modelled entry of the header: the event `%s` is assumed to leave "
                            "level / counts of every handle unchanged" % (root_name, obj.get("name"), m.get("name"), where(n), root_name))
                    if obj.get("name") == "parent":
                        if m.get("name") not in ("FID", "getPolicies"):
                            die("%s: calls parent.%s at %s (a call back into the forest inside the event `%s` is not modelled)"
                                % (root_name, m.get("name"), where(n), root_name))
                if obj.get("kind") == "CXXThisExpr":
                    if m.get("name") in FORBIDDEN_CALLEES:
                        die("%s: calls %s at %s (inside the event `%s`: not modelled)" % (root_name, m.get("name"), where(n), root_name))
                    callee = all_defs.get(m.get("referencedMemberDecl"))
                    if callee is None:
                        die("%s: calls the member %s, whose definition is not visible, at %s" % (root_name, m.get("name"), where(n)))
                    notes.append(callee[0])
                    frame_check(root_name, callee[1], seen, notes)
            if k in ("BinaryOperator", "CompoundAssignOperator") and n.get("opcode", "=").endswith("=") and n.get("opcode") not in ("==", "!=", "<=", ">="):
                lhs = n["inner"][0]
                while lhs.get("kind") in ("ParenExpr",):
                    lhs = lhs["inner"][0]
                if lhs.get("kind") == "MemberExpr" and lhs["inner"][0].get("kind") == "CXXThisExpr" and lhs.get("name") in modelled:
                    die("%s: assigns the member `%s` at %s (inside the event `%s`: not modelled)" % (root_name, lhs.get("name"), where(n), root_name))

        walk(body_of(d), visit)

    event_notes = {}
    for name, sig, ctor in EVENT_FUNCS:
        decl, d = definition(name, sig, "cc")
        ps = [p for p in d.get("inner", []) if p.get("kind") == "ParmVarDecl"]
        if len(ps) != 1:
            die("node_headers::%s: unexpected parameter list" % name)
        notes = []
        frame_check(name, d, set(), notes)
        event_notes[name] = (d, sorted(set(notes)))
        ex.event_members[decl["id"]] = ctor
        ex.event_members[d["id"]] = ctor

    # ---- translated members -----------------------------------------------------------------------
    out, index = [], []

    def member(name, sig, where_, retkind):
        decl, d = definition(name, sig, where_)
        ps = [p for p in d.get("inner", []) if p.get("kind") == "ParmVarDecl"]
        if len(ps) != 1:
            die("node_headers::%s: expected exactly one parameter (the node handle)" % name)
        pty, ref = type_of_json(ps[0]["type"], "parameter of %s" % name)
        pn = ps[0].get("name")
        if ref or pty != T_INT or not pn or pn in LEAN_RESERVED or pn in [x for x, _ in fields]:
            die("node_headers::%s: the parameter must be a plain node_handle with a usable name (`%s`)" % (name, pn))
        f = Fn("%s (MEDDLY::node_headers::%s : %s)" % (name, name, sig), "fork")
        f.decl, f.handle = d, pn
        f.reserved = {pn, "s", "e"}
        env = {}
        ex.load_state(env, "s")
        env[("var", ps[0]["id"])] = Val(T_INT, pn, None, True)
        tree = ex.run(f, [body_of(d)], env)
        rcxx = sig.split(" (")[0]
        ret = {"void": T_VOID, "bool": T_BOOL, "unsigned long": U64, "MEDDLY::node_handle": T_INT}.get(rcxx)
        if ret is None or (retkind == "state") != (ret == T_VOID):
            die("node_headers::%s: unexpected return type %s" % (name, rcxx))
        rlean = {"state": "State", "value": ret.lean, "both": "(State × %s)" % ret.lean}[retkind]
        text = emit(tree, 2, retkind, f)
        lines = ["/-- `%s node_headers::%s(node_handle %s)%s`" % (rcxx, name, pn, " const" if sig.endswith("const") else ""),
                 "    source: %s %s" % (os.path.basename(file_of(d) or "?"), where(d))]
        for s in f.notes:
            lines.append("    * " + s)
        lines.append("-/")
        lines.append("def %s (s : State) (%s : Int) : Except Err %s :=" % (name, pn, rlean))
        lines.append(text)
        out.append("\n".join(lines))
        m = Member(name, retkind, ret)
        ex.members[decl["id"]] = m
        ex.members[d["id"]] = m
        index.append("%s  <-  node_headers::%s : %s (%s %s)" % (name, name, sig, os.path.basename(file_of(d) or "?"), where(d)))

    for spec in FUNCS:
        if spec is None:
            out.append("\n".join([
                "/-- ASSUMPTION (fixed text): the effect of `forest::deleteNode(p)` on the header of handle p is exactly",
                "    `nodeHeaders.deactivate(p)` (checked syntactically by the translator: forest::deleteNode calls it exactly once,",
                "    unconditionally, with its own parameter, at %s, and calls no other header operation besides" % dn_where,
                "    get/setNodeAddress); everything else deleteNode does (unique table, node storage, `unlinkNode` on the CHILDREN of p,",
                "    which are other handles at lower levels) is outside this per-handle state. -/",
                "def deleteNode_effect (s : State) (p : Int) : Except Err State := deactivate s p"]))
            continue
        member(*spec)

    step = ["/-- The four reference-count operations as one step function (NOT translated from C++: a fixed dispatcher over the",
            "    generated members; the value returned by linkNode is dropped). -/",
            "inductive Op where",
            "  | link", "  | unlink", "  | cache", "  | uncache",
            "  deriving Repr, DecidableEq", "",
            "def step (s : State) (p : Int) : Op → Except Err State",
            "  | .link => (linkNode s p).map fun r => r.1",
            "  | .unlink => unlinkNode s p",
            "  | .cache => cacheNode s p",
            "  | .uncache => uncacheNode s p"]
    out.append("\n".join(step))

    hdr = ["/-",
           "  GENERATED by translate/nodeheaders_to_lean.py from %s and %s — do not edit" % (header, source),
           "",
           "  The node-lifetime decision logic of `class MEDDLY::node_headers` as Lean functions over the header of ONE handle:",
           "  every function below takes the State of the handle it is called with and that handle `p`.",
           "",
           "  Configuration: REFCOUNTS_ON is defined in defines.h (the members linkNode / unlinkNode / cacheNode / uncacheNode and",
           "  the fields cache_counts / incoming_counts exist in the AST; without it the translator fails).  DEVELOPMENT_CODE and",
           "  the TRACK_* / DEBUG_* macros are undefined: MEDDLY_DCASSERT(..) expands to nothing (a NullStmt), so a call outside",
           "  the contract is NOT stopped by the code; here it runs on as the C++ would, or ends in `.error`.",
           "  The mark-and-sweep alternative (policies::useReferenceCounts = false: is_in_cache / is_reachable non-null,",
           "  cache_counts / incoming_counts null) is translated as well, as far as these functions read it (the `none` / `some`",
           "  branches below); the theorems of Props/NodeHeadersGen.lean are about the reference-counting states only",
           "  (cache_counts, incoming_counts, levels non-null; is_in_cache, is_reachable null), which is what",
           "  node_headers::initialize() sets up for every forest created with the default policies.",
           "",
           "  Translation conventions (the trusted base of everything proved about this file):",
           "    node_handle p, int     Int (no arithmetic on them occurs; comparisons are the mathematical ones)",
           "    X->m(size_t(p), ..)    X one of levels, cache_counts, is_in_cache, incoming_counts, is_reachable: the State holds",
           "                           `Option entry`: none = the pointer is null, some v = v is the entry of handle p.  A call",
           "                           through a pointer of unknown nullness is a `match`; through nullptr `.error .ub`.",
           "                           The index must be size_t(p) for the function's own parameter (else the translator fails);",
           "                           p < 1 there is `.error .unmodelled` (slot 0 / an index >= 2^63); that p is below the",
           "                           allocated size of the arrays (p <= a_last < a_size) is ASSUMED (MEDDLY_CHECK_RANGE is",
           "                           compiled out; an out-of-range index is undefined behaviour and not modelled).",
           "    level_array get / set, bitvector get / set     read / replace the entry",
           "    counter_array get      the entry; increment / decrement / isZeroBeforeIncrement / isPositiveAfterDecrement:",
           "                           `Counter.*` of the prelude (specification of one entry; tied to the generated",
           "                           counter_array by Props/NodeHeadersGen: counter_spec); a counter leaving 0 .. 2^32-1 is",
           "                           `.error .unmodelled`",
           "    if (X), X && e         PointerToBoolean of a member pointer: `match` on the Option",
           "    a && b, a || b         short circuit: b is not evaluated when a decides; a conditionally evaluated operand with",
           "                           effects or side conditions is rejected by the translator",
           "    this->f(p)             the generated `f` applied to the packed current state; `.error` propagates; after the call",
           "                           every member is re-read from the result",
           "    parent.deleteNode(p)   appended to the GHOST list `events`, then `deleteNode_effect` (ASSUMED, see there)",
           "    recycleNodeHandle(p), reviveNode(p)     appended to `events`; ASSUMED to leave level / counts of every handle as they",
           "                           are (checked syntactically: their bodies and the members they call only `get`, `expand`,",
           "                           `shrink` the modelled arrays, assign none of the modelled members and call neither the",
           "                           forest nor link / unlink / cache / uncache / deactivate).  The free-list bookkeeping of",
           "                           recycleNodeHandle / getFreeNodeHandle (a_unused, a_last, a_freed, shrinkHandleList) is NOT",
           "                           translated: a while loop over OTHER handles, outside a per-handle state.",
           "    stats.x++              statistics: no effect on the model",
           "  Functions:"]
    for s in index:
        hdr.append("    " + s)
    for name, (d, notes) in event_notes.items():
        hdr.append("    (event) %s  <-  node_headers::%s (%s %s); frame check covered: %s"
                   % (name, name, os.path.basename(file_of(d) or "?"), where(d), ", ".join([name] + notes)))
    hdr.append("    (assumed) deleteNode_effect  <-  forest::deleteNode calls nodeHeaders.deactivate(p) at %s" % dn_where)
    hdr.append("-/")
    state = ["/-- the header of ONE node handle as node_headers sees it (+ the ghost event log) -/", "structure State where"]
    for name, ty in fields:
        state.append("  /-- %s -/" % FIELD_DOC[name])
        state.append("  %s : %s" % (name, ty.lean))
    state.append("  deriving DecidableEq, Repr, Inhabited")
    return "\n".join(hdr) + "\n" + PRELUDE + "\n" + "\n".join(state) + "\n\n" + "\n\n".join(out) + "\n\nend Gen.NodeHeaders\n"


def main():
    ap = argparse.ArgumentParser(description="translate the lifetime logic of MEDDLY::node_headers into Lean")
    ap.add_argument("--out", required=True, help="Lean file to (re)write, e.g. lean/MeddlyModel/Gen/NodeHeaders.lean")
    ap.add_argument("--repo", default="/repo", help="MEDDLY checkout (default /repo)")
    ap.add_argument("-I", dest="inc", action="append", default=[],
                    help="extra directory searched BEFORE <repo>/src for node_headers.h, node_headers.cc, arrays.h, forest.cc "
                         "(mutated private copies)")
    ap.add_argument("--clang", default="clang++-14")
    ap.add_argument("--check", action="store_true", help="do not write; exit 1 if the file would change")
    a = ap.parse_args()
    incs = list(a.inc) + [a.repo, os.path.join(a.repo, "src")]
    search = list(a.inc) + [os.path.join(a.repo, "src")]
    try:
        header = find_header("node_headers.h", search)
        source = find_header("node_headers.cc", search)
        fsrc = find_header("forest.cc", search)
        if header is None or source is None or fsrc is None:
            die("node_headers.h / node_headers.cc / forest.cc not found under %s" % ", ".join(search))
        probe = '#include "node_headers.h"\n#include "%s"\n' % source
        docs = parse_docs(run_clang(a.clang, probe, incs, "MEDDLY::node_headers"))
        adocs = parse_docs(run_clang(a.clang, '#include "arrays.h"\n', incs, "MEDDLY"))
        fdocs = parse_docs(run_clang(a.clang, '#include "node_headers.h"\n#include "%s"\n' % fsrc, incs, "MEDDLY::forest::deleteNode"))
        text = translate(docs, adocs, fdocs, header, source, fsrc)
    except Unsupported as e:
        sys.stderr.write("%s: UNSUPPORTED / FAILED: %s\n" % (PROG, e))
        sys.stderr.write("%s: %s was NOT written\n" % (PROG, a.out))
        return 2
    return write_if_changed(PROG, a.out, text, a.check)


if __name__ == "__main__":
    sys.exit(main())
