/-
  Acceptor plugin for family `io` (C14, exchange file round trip).

  Records
    rt  W R              the table observed after reading (edge R) must equal the table observed
                         before writing (edge W): exactly for booleans, integers and +inf, within
                         `Val.approxEq` for reals (exact agreement is counted separately).
    rtx W R <child>      cross-rule pair: the table of R must be the WRITER's graph (dump `Fw`, root
                         <child>) evaluated under the READER's shape — `XFile.read_write_eval_cross`.
    rcaudit F            reference recount of the last dump of F (no canonical-form certificate:
                         cross-rule receivers are non-canonical by design in some pairs).
    ioread Fw <pre> <post> <filenodes> <n> cw… cr…
                         replays the Lean model: `XFile.read S z (dump pre) (XFile.write S z sp (dump Fw) cw…)`
                         must succeed, return n roots whose graphs are isomorphic (one injective
                         handle map for all roots) to the real roots cr… in dump <post>, create as
                         many nodes as the real reader did, and the file must have as many node
                         records as the real reader reported.
-/
import MeddlyModel
import Driver.Base
import Driver.Ops

namespace Meddly
namespace P_Io
open Funcs Spec XFile

def recsOf (s : St) (fname : String) : List NodeRec :=
  ((s.nodes.filter (·.1 == fname)).map (·.2)).reverse

def dumpOf (s : St) (fname : String) : Dump Val :=
  (recsOf s fname).map (fun n => { handle := n.handle, pos := n.pos, down := n.down })

def valSame (a b : Val) : Bool := Val.approxEq a b

/-- one injective handle map under which the two graphs coincide -/
partial def isoChild (D1 D2 : Dump Val) (m : List (Nat × Nat)) (c1 c2 : Child Val) :
    Option (List (Nat × Nat)) :=
  match c1, c2 with
  | .tm a, .tm b => if valSame a b then some m else none
  | .nd h1, .nd h2 =>
    match m.find? (·.1 == h1) with
    | some (_, h2') => if h2' == h2 then some m else none
    | none =>
      if m.any (·.2 == h2) then none
      else match D1.find h1, D2.find h2 with
        | some n1, some n2 =>
          if n1.pos != n2.pos || n1.down.length != n2.down.length then none
          else
            (n1.down.zip n2.down).foldl
              (fun acc p => match acc with
                | none => none
                | some m' => isoChild D1 D2 m' p.1 p.2)
              (some ((h1, h2) :: m))
        | _, _ => none
  | _, _ => none

def recount (s : St) (ln : Nat) (fname : String) : St := Id.run do
  let recs := recsOf s fname
  let roots := ((s.roots.find? (·.1 == fname)).map (·.2)).getD []
  let mut s := s
  for n in recs do
    let fromParents := recs.foldl (fun acc m => acc + (m.down.filter (· == Child.nd n.handle)).length) 0
    let fromRoots := (roots.filter (· == Child.nd n.handle)).length
    s := s.tick
    if n.inCount != fromParents + fromRoots then
      s := s.diff ln "refcount" s!"forest={fname} node={n.handle} expected={fromParents + fromRoots} got={n.inCount}"
    for c in n.down do
      match c with
      | .nd h => if !(recs.any (·.handle == h)) then
          s := s.diff ln "dangling" s!"forest={fname} node={n.handle} child={h} expected=live got=missing"
      | _ => pure ()
  for c in roots do
    match c with
    | .nd h => if !(recs.any (·.handle == h)) then
        s := s.diff ln "dangling-root" s!"forest={fname} root={h} expected=live got=missing"
    | _ => pure ()
  return s

def exactTables (a b : Table) : Bool := a == b

def mulR (a b : Val) : Val :=
  match a, b with
  | .r n1 e1, .r n2 e2 => .r (n1 * n2) (e1 + e2)
  | _, _ => a

/-- EV* evaluation on the dump: product of the edge values along the path, 0 at the transparent
    terminal; skipped positions as in `DD.eval`. -/
partial def evalEVT (nodes : List NodeRec) (S : Shape) (k : Nat) (c : Child Val) (acc : Val) (a : Assign) : Val :=
  match c with
  | .tm .inf => .r 0 0
  | _ =>
    if k == 0 then (match c with | .tm _ => acc | .nd _ => .r 0 0)
    else
      let stored : Option NodeRec := match c with
        | .nd h => (nodes.find? (·.handle == h)).bind (fun n => if n.pos == k then some n else none)
        | .tm _ => none
      match stored with
      | some n =>
        let i := a k
        let ev := match n.evs.getD i none with | some v => v | none => .r 1 0
        evalEVT nodes S (k-1) (n.down.getD i (.tm .inf)) (mulR acc ev) a
      | none =>
        if S.mode k == .ident && a k != a (k+1) then .r 0 0
        else evalEVT nodes S (k-1) c acc a

/-- writing and reading never fail on well-formed input: an `err … IOWRITE/IOREAD <code>` record
    is an unexpected error -/
def spec : Ops.SpecFn := fun _ _ op _ _ =>
  match op with
  | "IOREAD" => some (.ok #[])
  | "IOWRITE" => some (.ok #[])
  | _ => none

def step (s : St) (ln : Nat) (toks : List String) : Option St :=
  match toks with
  | "rt" :: w :: r :: _ => some <| Id.run do
    let s := s.tick
    match s.table? w, s.table? r with
    | some (_, tw), some (_, tr) =>
      if tablesAgree tw tr then
        return s.bump (if exactTables tw tr then "rt.exact" else "rt.within-precision")
      else
        let i := (firstDiff tw tr).getD 0
        return s.diff ln "roundtrip" s!"edges={w},{r} index={i} expected(written)={tw.getD i default} got(read)={tr.getD i default}"
    | _, _ => return s.diff ln "rt" s!"unknown-edge {w} or {r}"
  | "rtx" :: w :: r :: ctok :: _ => some <| Id.run do
    let s := s.tick
    let some (fwName, _) := s.table? w | return s.diff ln "rtx" s!"unknown-edge {w}"
    let some (frName, tr) := s.table? r | return s.diff ln "rtx" s!"unknown-edge {r}"
    let some fr := s.forest? frName | return s.diff ln "rtx" s!"unknown-forest {frName}"
    let some fw := s.forest? fwName | return s.diff ln "rtx" s!"unknown-forest {fwName}"
    let some (c, ev) := parseChild ctok | return s.diff ln "parse" s!"bad-child {ctok}"
    let exp : Table :=
      if fr.lab == "mt" then evalRoot s fr (dumpOf s "Fw") c
      else if fr.lab == "evt" then
        let S := shapeOf s fr
        let sizes := sizesOf s fr
        let base := match ev with | some v => v | none => .r 1 0
        (Array.range (card sizes)).map (fun idx => evalEVT (recsOf s "Fw") S S.top c base (assignOf sizes idx))
      else
        let S := shapeOf s fr
        let sizes := sizesOf s fr
        let base := match ev with | some (.i v) => v | _ => 0
        (Array.range (card sizes)).map (fun idx => evalEV (recsOf s "Fw") S S.top c base (assignOf sizes idx))
    let s := s.bump "rtx"
    -- statistics: is this (writer rule > reader rule) pair lossless on this input?
    let tw := ((s.table? w).map (·.2)).getD #[]
    let s := s.bump (if tablesAgree tw tr then s!"pair.{fw.rule}>{fr.rule}.same-function" else s!"pair.{fw.rule}>{fr.rule}.DIFFERENT-function")
    if tablesAgree exp tr then return s
    else
      let i := (firstDiff exp tr).getD 0
      return s.diff ln "roundtrip-cross" s!"edges={w},{r} index={i} expected(writer-graph-under-reader-rule)={exp.getD i default} got(read)={tr.getD i default}"
  | "rcaudit" :: fname :: rest => some <| Id.run do
    let wrule := rest.headD "?"
    let mut s := recount s ln fname
    -- statistics only: does the cross-rule receiver happen to be canonical?
    match s.forest? fname with
    | some f =>
      if f.lab == "mt" then
        let roots := ((s.roots.find? (·.1 == fname)).map (·.2)).getD []
        let ok := Dump.check (shapeOf s f) (zeroOf f) (dumpOf s fname) roots
        s := s.bump (if ok then s!"pair.{wrule}>{f.rule}.receiver-canonical" else s!"pair.{wrule}>{f.rule}.receiver-NONcanonical")
    | none => pure ()
    return s
  | "ioread" :: fw :: pre :: post :: nfile :: n :: kids => some <| Id.run do
    let s := s.tick
    let some f := s.forest? post | return s.diff ln "ioread" s!"unknown-forest {post}"
    if f.lab != "mt" then return s
    let n := n.toNat?.getD 0
    let parsed := kids.map parseChild
    if parsed.any Option.isNone || kids.length != 2 * n then return s.diff ln "parse" "bad-ioread"
    let cs := (parsed.filterMap id).map (·.1)
    let cw := cs.take n
    let cr := cs.drop n
    let S := shapeOf s f
    let z := zeroOf f
    let Dw := dumpOf s fw
    let D0 : Dump Val := if pre == "-" then [] else dumpOf s pre
    let Dreal := dumpOf s post
    -- storage policy of the model writer: irrelevant by `decode_encode`; vary it anyway
    let sp : FRec Val → Bool := fun r => (r.pos + ln) % 2 == 0
    let file := writeF Dw S.top cw
    let mut s := s.bump "ioread"
    if toString file.recs.length != nfile then
      s := s.diff ln "file-nodes" s!"expected(model: reachable nodes)={file.recs.length} got(getFileNodes)={nfile}"
    match XFile.read S z D0 (XFile.write S z sp Dw cw) with
    | none => return s.diff ln "model-read" "expected=model-read-succeeds got=none"
    | some (D', rs) =>
      if rs.length != n then
        return s.diff ln "model-read" s!"expected={n} roots got={rs.length}"
      let mut m : Option (List (Nat × Nat)) := some []
      let mut bad : Option Nat := none
      for i in [0:n] do
        match m with
        | none => pure ()
        | some mm =>
          m := isoChild D' Dreal mm (rs.getD i (.tm z)) (cr.getD i (.tm z))
          if m.isNone then bad := some i
      match bad with
      | some i =>
        s := s.diff ln "structure" s!"root={i} expected(model read of model write)={repr (rs.getD i (.tm z))} got={repr (cr.getD i (.tm z))} (graphs not isomorphic)"
      | none => pure ()
      let newModel := D'.length - D0.length
      let newReal := Dreal.length - D0.length
      if newModel != newReal then
        s := s.diff ln "new-nodes" s!"expected(model)={newModel} got={newReal}"
      return s
  | _ => none

end P_Io
end Meddly
