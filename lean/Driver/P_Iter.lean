/-
  Acceptor plugin for family `iter` (C11): enumeration, cardinality, node and edge counts.

  Records (see harness/fam_iter.cc):
    iter R E F m_top … m_1 / visit R d_top … d_1 = v / endvisit R
        the visited sequence must equal the right-hand side of `DD.enumerateMask_spec`, computed
        from the table the library reported for E: all assignments in lexicographic order that
        match the mask (`matchesMask`) and whose value is not the transparent value, with that value.
    card E long|double|mpz n        n = number of non-transparent entries of E's table
    counts E F root nodes e1 e0     recount with the model's `Dump.nodeCount / edgeCount` on the last
                                    dump of F; for MT forests additionally the MODEL iterator and the
                                    model cardinality (`DD.enumerate`, `DD.card`) are run on the
                                    unfolded real node structure and compared with the table
    cubecard type n v_K … v_1       product of the free sizes (arbitrary precision)
  Operation name `ITER_DEREF_END`: dereferencing an exhausted iterator must raise INVALID_ITERATOR.
-/
import MeddlyModel
import Driver.Base
import Driver.Ops

namespace Meddly
namespace PIter
open Funcs Spec

def spec : Ops.SpecFn := fun _ _ op _ _ =>
  match op with
  | "ITER_DEREF_END" => some (.error "INVALID_ITERATOR")
  | _ => none

def parseMaskTok (t : String) : Option MaskE :=
  if t == "x" then some .free
  else if t == "c" then some .same
  else t.toNat?.map MaskE.fixed

/-- mask tokens are given top position first -/
def maskOf (toks : List String) : Option Mask :=
  let es := toks.map parseMaskTok
  if es.any Option.isNone then none
  else
    let arr := (es.filterMap id).reverse.toArray      -- arr[p-1] = entry of position p
    some (fun p => if p = 0 then .free else arr.getD (p - 1) .free)

def showDigits (ds : List Nat) : String := " ".intercalate (ds.map toString)

/-- right-hand side of `enumerateMask_spec` on a table -/
def specList (sizes : Array Nat) (zero : Val) (t : Table) (m : Mask) : List (List Nat × Val) :=
  let top := sizes.size
  (List.range (card sizes)).filterMap (fun idx =>
    let v := t.getD idx default
    if v != zero && matchesMask m (assignOf sizes idx) top then
      some ((digits sizes idx).toList.reverse, v)
    else none)

def entryStr (e : List Nat × Val) : String := s!"{showDigits e.1}={e.2}"

def firstMismatch (exp got : List (List Nat × Val)) : Option (Nat × String × String) :=
  let n := max exp.length got.length
  (List.range n).findSome? (fun i =>
    match exp[i]?, got[i]? with
    | some a, some b => if a.1 == b.1 && Val.approxEq a.2 b.2 then none else some (i, entryStr a, entryStr b)
    | some a, none => some (i, entryStr a, "end")
    | none, some b => some (i, "end", entryStr b)
    | none, none => none)

def parseVisit (toks : List String) : Option (List Nat × Val) :=
  -- d_top … d_1 = v
  match toks.reverse with
  | v :: "=" :: rds =>
    let ds := rds.reverse.map String.toNat?
    if ds.any Option.isNone then none else (Val.parse v).map (fun x => (ds.filterMap id, x))
  | _ => none

def zeroChild (f : ForestInfo) : Val := if f.lab == "mt" then zeroOf f else .inf

/-- value of the cube described by `size:u[:p]` tokens (top first): product over the variables -/
def cubeExpected (toks : List String) : Option Nat :=
  toks.foldl (fun acc tok =>
    match acc, tok.splitOn ":" with
    | some a, [sz, u] => sz.toNat?.map (fun s => a * (if u == "x" then s else 1))
    | some a, [sz, u, p] =>
      -- relation: unprimed free -> size; primed free -> size; primed DONT_CHANGE or fixed -> 1
      sz.toNat?.map (fun s => a * (if u == "x" then s else 1) * (if p == "x" then s else 1))
    | _, _ => none) (some 1)

def step (s : St) (ln : Nat) (toks : List String) : Option St :=
  match toks with
  | "iter" :: r :: e :: f :: mtoks =>
    some { s with scalars := (s!"iter:{r}", s!"{e} {f} " ++ " ".intercalate mtoks) ::
                             (s!"visits:{r}", "") :: s.scalars.filter (fun kv => kv.1 != s!"iter:{r}" && kv.1 != s!"visits:{r}") }
  | "visit" :: r :: rest =>
    let key := s!"visits:{r}"
    let old := (s.scalar? key).getD ""
    some { s with scalars := (key, old ++ "|" ++ " ".intercalate rest) :: s.scalars.filter (·.1 != key) }
  | "endvisit" :: r :: _ => some <| Id.run do
    let some hdr := s.scalar? s!"iter:{r}" | return s.diff ln "iter" s!"endvisit-without-iter {r}"
    let htoks := (hdr.splitOn " ").filter (· != "")
    let (e, fname, mtoks) := match htoks with
      | e :: f :: m => (e, f, m)
      | _ => ("", "", [])
    let some f := s.forest? fname | return s.diff ln "iter" s!"unknown-forest {fname}"
    let some (_, t) := s.table? e | return s.diff ln "iter" s!"no-table-for {e}"
    let some m := maskOf mtoks | return s.diff ln "parse" s!"bad-mask {hdr}"
    let sizes := sizesOf s f
    if mtoks.length != sizes.size then return s.diff ln "parse" s!"mask-length {hdr}"
    let raw := ((s.scalar? s!"visits:{r}").getD "").splitOn "|" |>.filter (· != "")
    let parsed := raw.map (fun l => parseVisit ((l.splitOn " ").filter (· != "")))
    if parsed.any Option.isNone then return s.diff ln "parse" s!"bad-visit-line in {r}"
    let got := parsed.filterMap id
    let exp := specList sizes (zeroOf f) t m
    let masked := mtoks.any (· != "x")
    let mut s := (s.tick).bump (if masked then "iter.masked" else "iter.full")
    s := { s with rep := s.rep.bump "iter.visited" got.length }
    if mtoks.any (· == "c") then s := s.bump "iter.mask.dontchange"
    match firstMismatch exp got with
    | some (i, a, b) =>
      s := s.diff ln "iter-sequence" s!"iter={r} edge={e} mask=[{" ".intercalate mtoks}] position={i} expected={a} got={b} expected-length={exp.length} got-length={got.length}"
    | none => pure ()
    return { s with scalars := s.scalars.filter (fun kv => kv.1 != s!"iter:{r}" && kv.1 != s!"visits:{r}") }
  | "card" :: e :: ty :: "crash" :: how => some <|
    (s.tick).diff ln "crash" s!"CARDINALITY edge={e} type={ty} expected=value got=crash {" ".intercalate how}"
  | "card" :: e :: ty :: n :: _ => some <| Id.run do
    let some (fname, t) := s.table? e | return s.diff ln "card" s!"no-table-for {e}"
    let some f := s.forest? fname | return s.diff ln "card" s!"unknown-forest {fname}"
    let z := zeroOf f
    let exp := (t.toList.filter (· != z)).length
    let s := (s.tick).bump s!"card.{ty}"
    match n.toInt? with
    | some g =>
      if g == (exp : Int) then return s
      else return s.diff ln "cardinality" s!"edge={e} type={ty} expected={exp} got={n}"
    | none => return s.diff ln "cardinality" s!"edge={e} type={ty} expected={exp} got={n}"
  | "cubecard" :: ty :: n :: vs => some <| Id.run do
    let some exp := cubeExpected vs | return s.diff ln "parse" s!"bad-cube"
    let some g := n.toInt? | return s.diff ln "cardinality" s!"cube type={ty} expected={exp} got={n}"
    let s := (s.tick).bump s!"cubecard.{ty}"
    let s := if exp ≥ 2^64 then s.bump "cubecard.beyond64bit" else s
    if ty == "double" then
      -- products of small integers in double arithmetic: relative error far below 2^-40
      let d := if g ≥ (exp : Int) then g - exp else (exp : Int) - g
      if d * (2^40 : Int) ≤ (exp : Int) then return s
      else return s.diff ln "cardinality" s!"cube type=double expected={exp} got={n}"
    else if g == (exp : Int) then return s
    else return s.diff ln "cardinality" s!"cube type={ty} expected={exp} got={n}"
  | "counts" :: e :: fname :: ctok :: nn :: e1 :: e0 :: _ => some <| Id.run do
    let some f := s.forest? fname | return s.diff ln "counts" s!"unknown-forest {fname}"
    let some (c, _) := parseChild ctok | return s.diff ln "parse" s!"bad-child {ctok}"
    let recs := (s.nodes.filter (·.1 == fname)).map (·.2)
    let D : Dump Val := recs.map (fun n => { handle := n.handle, pos := n.pos, down := n.down })
    let S := shapeOf s f
    let z := zeroChild f
    let mut s := (s.tick).bump "counts"
    let mn := Dump.nodeCount D S.top c
    let m1 := Dump.edgeCount D z S.top c true
    let m0 := Dump.edgeCount D z S.top c false
    if nn.toNat? != some mn then
      s := s.diff ln "node-count-edge" s!"edge={e} expected={mn} got={nn}"
    if e1.toNat? != some m1 then
      s := s.diff ln "edge-count" s!"edge={e} countZeroes=true expected={m1} got={e1}"
    if e0.toNat? != some m0 then
      s := s.diff ln "edge-count" s!"edge={e} countZeroes=false expected={m0} got={e0}"
    -- model iterator / model cardinality on the real structure (MT forests)
    if f.lab == "mt" then
      match s.table? e with
      | some (_, t) =>
        let sizes := sizesOf s f
        let zero := zeroOf f
        let tree := D.unfold zero S.top c
        let mEnum := DD.enumerate S zero S.top 0 tree
        let exp := specList sizes zero t Mask.allFree
        s := (s.tick).bump "model-enumerate-on-dump"
        match firstMismatch exp mEnum with
        | some (i, a, b) =>
          s := s.diff ln "model-iter-vs-table" s!"edge={e} position={i} expected(table)={a} got(model enumerate on dump)={b}"
        | none => pure ()
        let mc := DD.card S zero S.top tree
        if mc != exp.length then
          s := s.diff ln "model-card-vs-table" s!"edge={e} expected(table)={exp.length} got(model card on dump)={mc}"
      | none => pure ()
    return s
  | _ => none

end PIter
end Meddly
