/-
  Acceptor plugin for the family `pregen` (C20).

  spec  : `PREGEN_SAT.<mode>.<option>` and `PREGEN_BFS` with operands INIT EV1 … EVn
          = the set of states reachable from INIT under the union of the event tables, computed by the
          model's `Pregen.reachFix` (proved to be the least fixed point: `Pregen.reachFix_eq_lfp`).
  step  : `probe <tag> <mode> <option> <rule> <outcome…>`   outcome of a known-trigger input run in a child
          `ptop <EV> <level>`                                 |root level| of the event's DD = `Pregen.topOf`
          `pcfg renorm 0|1`                                   which variant of `finalize` the library has (F11 repair)
          `plevels <mode> <option> <n> EV1 … EVn <K> { <k> <cnt> <cnt tables> }`
                the relations `arrayForLevel(k)` holds after `finalize(option)`, levels K..1, compared with
                the model (`Pregen.finalizeByEvents` / `Pregen.finalizeLevels ∘ mergeByLevels`).

  The model's level array is a function `Nat → State → State → Bool`; evaluated naively every application
  would recompute the whole history (Lean does not share work under a partial application), so this glue
  replays `finalize` with the model's primitives (`topOf`, `commonDiagAt`, `isEmptyB`, `runion`, `rdiff`)
  and tabulates after every assignment (`glueFinalize`, a line-by-line transcription of
  `Pregen.finalizeLevels`); on domains of up to 8 states every phase of the transcription is compared with
  the model's own definition (`unionLevels`, `splitStep`, `subtractAll`, `renormStep`, `mergeByLevels`)
  applied to the tabulated state before that phase, and on domains of up to 4 states the whole composition
  `Pregen.finalizeLevels` is evaluated directly (`kind=pregen-glue` if they ever differ).
-/
import MeddlyModel
import Driver.Base
import Driver.Ops

namespace Meddly
namespace PPregen
open Spec Funcs Pregen

def isT (v : Val) : Bool := v == .b true

/-- index of a state in the set table: variable 1 least significant -/
def stateIdx (sizes : List Nat) (s : State) : Nat :=
  let rec go : List Nat → List Nat → Nat → Nat → Nat
    | sz :: rest, x :: xs, stride, acc => go rest xs (stride * sz) (acc + x * stride)
    | _, _, _, acc => acc
  go sizes s 1 0

/-- index of a pair in the relation table: digits x'_1, x_1, x'_2, x_2, … (least significant first) -/
def pairIdx (sizes : List Nat) (s t : State) : Nat :=
  let rec go : List Nat → List Nat → List Nat → Nat → Nat → Nat
    | sz :: rest, x :: xs, y :: ys, stride, acc => go rest xs ys (stride * sz * sz) (acc + y * stride + x * stride * sz)
    | _, _, _, _, acc => acc
  go sizes s t 1 0

def relOfTable (sizes : List Nat) (tab : Table) : LRel :=
  fun s t => isT (tab.getD (pairIdx sizes s t) (.b false))

structure Ctx where
  sizes : List Nat
  sts : Array State
  n : Nat

def mkCtx (dom : Array Nat) : Ctx :=
  let sizes := dom.toList
  let sts := (allStates sizes).toArray
  { sizes, sts, n := sts.size }

/-- tabulate a relation over the domain (DATA: this is where work is shared) -/
def tabulate (c : Ctx) (r : LRel) : Array Bool := Id.run do
  let mut a := Array.mkEmpty (c.n * c.n)
  for s in c.sts do
    for t in c.sts do
      a := a.push (r s t)
  return a

/-- read a tabulated relation.  NOTE for maintainers: never wrap `ofTab … (tabulate …)` in a definition of
    type `LRel` - Lean compiles such a definition with the arity of the function type, and every application
    would tabulate again.  Always write `ofTab c.sizes c.n (tabulate c r)` at the use site, where the
    argument is evaluated once. -/
def ofTab (sizes : List Nat) (n : Nat) (a : Array Bool) : LRel :=
  fun s t => a.getD (stateIdx sizes s * n + stateIdx sizes t) false

def sameOnDom (c : Ctx) (a b : LRel) : Option (State × State) := Id.run do
  for s in c.sts do
    for t in c.sts do
      if a s t != b s t then return some (s, t)
  return none

/-! ### specification of the saturation result -/

def reachSpec (dom : Array Nat) (args : List (String × Table)) : Except String Table :=
  match args with
  | [] => .error "SPEC-ARGS"
  | (_, init) :: evs =>
    let c := mkCtx dom
    let n := c.n
    let sizes := c.sizes
    let relCard := card (posSizes dom true)
    if init.size != n then .error s!"size-mismatch init {init.size} {n}"
    else if evs.any (fun e => e.2.size != relCard) then .error "size-mismatch event"
    else
      -- adjacency of the union over state indices
      let adj : Array Bool := Id.run do
        let mut a := Array.mkEmpty (n * n)
        for s in c.sts do
          for t in c.sts do
            let p := pairIdx sizes s t
            a := a.push (evs.any (fun e => isT (e.2.getD p (.b false))))
        return a
      let reach := reachFix (List.range n) (fun i => isT (init.getD i (.b false))) (fun i j => adj.getD (i * n + j) false)
      .ok ((Array.range n).map (fun i => Val.b (reach.contains i)))

def spec : Ops.SpecFn := fun dom _ op args _ =>
  if op.startsWith "PREGEN_SAT." || op == "PREGEN_BFS" then some (reachSpec dom args) else none

/-! ### `finalize` replayed with the model's primitives -/

def parseOpt (s : String) : Option SplitOpt :=
  match s with
  | "None" => some .None
  | "SplitOnly" => some .SplitOnly
  | "SplitSubtract" => some .SplitSubtract
  | "SplitSubtractAll" => some .SplitSubtractAll
  | "MonolithicSplit" => some .MonolithicSplit
  | _ => none

/-- `addToRelation` by levels (transcription of `Pregen.mergeByLevels`), tabulated -/
def glueMerge (c : Ctx) (evs : List LRel) : Array LRel := Id.run do
  let K := c.sizes.length
  let tops := evs.map (topOf c.sizes)
  let mut L : Array LRel := Array.replicate (K + 1) emptyRel
  for k in [1:K+1] do
    L := L.set! k (ofTab c.sizes c.n (tabulate c (unionRel (((evs.zip tops).filter (fun p => p.2 == k)).map (·.1)))))
  return L

def lvOf (L : Array LRel) : Lv := fun j => L.getD j emptyRel

/-- levels 0..K of the glue state against a model level array; returns the first level that differs -/
def diffLevel (c : Ctx) (L : Array LRel) (M : Lv) : Option Nat :=
  (List.range (c.sizes.length + 1)).find? (fun k => (sameOnDom c (M k) (L.getD k emptyRel)).isSome)

/-- `finalize(opt)` by levels (transcription of `Pregen.finalizeLevels`: unionLevels, splitLoop/splitStep,
    subtractAll; optionally `renormLevels`), tabulated after every assignment.  With `check` every phase of
    the transcription is compared with the MODEL's definition applied to the tabulated state before that
    phase (`unionLevels`, `splitStep` per level, `subtractAll`, `renormStep` per level); the list returned
    names the phases that differ (must stay empty). -/
def glueFinalize (c : Ctx) (opt : SplitOpt) (L0 : Array LRel) (renorm check : Bool) :
    Array LRel × List String := Id.run do
  let K := c.sizes.length
  let mut L := L0
  let mut bad : List String := []
  let mut o := opt
  if opt != .None then
    if opt == .MonolithicSplit then
      let Lc := L
      let u := ofTab c.sizes c.n (tabulate c (fun s t => (List.range K).any fun k0 => (Lc.getD (k0 + 1) emptyRel) s t))
      for k in [1:K+1] do
        L := L.set! k emptyRel
      L := L.set! (topOf c.sizes u) u
      o := .SplitOnly
      if check then
        if let some k := diffLevel c L (unionLevels c.sizes (lvOf Lc)) then bad := s!"unionLevels level={k}" :: bad
    for k in levelsDownTo2 K do
      let Lb := L
      let Lk := L.getD k emptyRel
      let d := ofTab c.sizes c.n (tabulate c (commonDiagAt c.sizes (k - 1) Lk))
      if !(isEmptyB c.sizes d) then
        if o == .SplitOnly then
          L := L.set! k (ofTab c.sizes c.n (tabulate c (rdiff Lk d)))
        let m := topOf c.sizes d
        L := L.set! m (ofTab c.sizes c.n (tabulate c (runion d (L.getD m emptyRel))))
        if o == .SplitSubtract then
          L := L.set! k (ofTab c.sizes c.n (tabulate c (rdiff (L.getD k emptyRel) (L.getD m emptyRel))))
      if check then
        if let some j := diffLevel c L (splitStep c.sizes o (lvOf Lb) k) then bad := s!"splitStep k={k} level={j}" :: bad
    if o == .SplitSubtractAll then
      let Lb := L
      for i in [1:K] do
        for j in [i+1:K+1] do
          L := L.set! j (ofTab c.sizes c.n (tabulate c (rdiff (L.getD j emptyRel) (L.getD i emptyRel))))
      if check then
        if let some j := diffLevel c L (subtractAll K (lvOf Lb)) then bad := s!"subtractAll level={j}" :: bad
  if renorm then
    -- transcription of `Pregen.renormLevels` (repair proposed for F11)
    for k in levelsDownTo1 K do
      let Lb := L
      let Lk := L.getD k emptyRel
      let m := topOf c.sizes Lk
      if m != k then
        L := L.set! m (ofTab c.sizes c.n (tabulate c (runion (L.getD m emptyRel) Lk)))
        L := L.set! k emptyRel
      if check then
        if let some j := diffLevel c L (renormStep c.sizes (lvOf Lb) k) then bad := s!"renormStep k={k} level={j}" :: bad
  return (L, bad)

def showState (s : State) : String := "(" ++ ",".intercalate (s.map toString) ++ ")"

/-! ### record handlers -/

/-- split `cnt` tables of `p` tokens off the token list -/
partial def takeTables (toks : List String) (cnt p : Nat) (acc : List Table) : Option (List Table × List String) :=
  if cnt == 0 then some (acc.reverse, toks)
  else
    let (h, rest) := (toks.take p, toks.drop p)
    if h.length != p then none
    else match parseTable h with
      | some t => takeTables rest (cnt - 1) p (t :: acc)
      | none => none

partial def parseLevels (toks : List String) (p : Nat) (acc : List (Nat × List Table)) :
    Option (List (Nat × List Table)) :=
  match toks with
  | [] => some acc.reverse
  | k :: cnt :: rest =>
    match k.toNat?, cnt.toNat? with
    | some k, some cnt =>
      match takeTables rest cnt p [] with
      | some (ts, rest') => parseLevels rest' p ((k, ts) :: acc)
      | none => none
    | _, _ => none
  | _ => none

def handleLevels (s : St) (ln : Nat) (mode optS : String) (rest : List String) : St := Id.run do
  let some opt := parseOpt optS | return s.diff ln "parse" s!"bad-option {optS}"
  let some nev := (rest.headD "").toNat? | return s.diff ln "parse" "bad-plevels"
  let names := (rest.drop 1).take nev
  let rest := rest.drop (1 + nev)
  let some K := (rest.headD "").toNat? | return s.diff ln "parse" "bad-plevels-K"
  let rest := rest.drop 1
  let c := mkCtx s.dom
  let sizes := c.sizes
  if K != sizes.length then return s.diff ln "parse" "plevels-K"
  let p := card (posSizes s.dom true)
  let some levels := parseLevels rest p [] | return s.diff ln "parse" "bad-plevels-tables"
  let evTabs := names.map (fun nm => s.table? nm)
  if evTabs.any Option.isNone then return s.diff ln "plevels" "unknown-event"
  let evs : List LRel := (evTabs.filterMap id).map (fun ft => ofTab c.sizes c.n (tabulate c (relOfTable sizes ft.2)))
  let mut s := s.bump s!"plevels.{mode}.{optS}"
  if mode == "events" then
    for (k, obs) in levels do
      let exp := finalizeByEvents sizes evs k
      s := s.tick
      if exp.length != obs.length then
        s := s.diff ln "pregen-level" s!"mode=events level={k} expected-count={exp.length} got-count={obs.length}"
      else
        for (e, o) in exp.zip obs do
          match sameOnDom c e (relOfTable sizes o) with
          | some (a, b) =>
            s := s.diff ln "pregen-level" s!"mode=events level={k} pair={showState a}->{showState b} expected={e a b} got={!(e a b)}"
          | none => pure ()
  else
    let renorm := s.scalar? "pregen.renorm" == some "1"
    let L0 := glueMerge c evs
    -- phase-wise comparison of the transcription with the model's definitions on domains up to 8 states
    let check := c.n ≤ 8
    let (L, bad) := glueFinalize c opt L0 renorm check
    if check then
      s := (s.bump "plevels.glue-vs-model").tick
      for b in bad do
        s := s.diff ln "pregen-glue" s!"option={optS} {b}"
      if (diffLevel c L0 (mergeByLevels sizes evs)).isSome then
        s := s.diff ln "pregen-glue" "mergeByLevels"
    -- tiny domains: the whole composition `finalizeLevels` in one go
    if c.n ≤ 4 && !renorm then
      s := (s.bump "plevels.glue-vs-model.whole").tick
      if let some k := diffLevel c L (finalizeLevels sizes opt (lvOf L0)) then
        s := s.diff ln "pregen-glue" s!"finalizeLevels option={optS} level={k}"
    for (k, obs) in levels do
      let e := L.getD k emptyRel
      let empty := isEmptyB sizes e
      s := s.tick
      match obs with
      | [] =>
        if !empty then
          s := s.diff ln "pregen-level" s!"mode=levels option={optS} level={k} expected=non-empty got=empty"
      | o :: _ =>
        match sameOnDom c e (relOfTable sizes o) with
        | some (a, b) =>
          s := s.diff ln "pregen-level" s!"mode=levels option={optS} level={k} pair={showState a}->{showState b} expected={e a b} got={!(e a b)}"
        | none => pure ()
  return s

def step (s : St) (ln : Nat) (toks : List String) : Option St :=
  match toks with
  | "probe" :: tag :: mode :: opt :: rule :: outcome =>
    let s := (s.tick).bump s!"probe.{tag}"
    if outcome == ["ok"] then some s
    else some (s.diff ln "crash" s!"probe={tag} mode={mode} option={opt} rule={rule} outcome={" ".intercalate outcome}")
  | "ptop" :: ev :: lvl :: _ =>
    match s.table? ev, lvl.toNat? with
    | some (_, t), some l =>
      let c := mkCtx s.dom
      let m := topOf c.sizes (ofTab c.sizes c.n (tabulate c (relOfTable c.sizes t)))
      let s := (s.tick).bump "ptop"
      if m == l then some s
      else some (s.diff ln "pregen-top" s!"event={ev} expected(topOf)={m} got(|getLevel|)={l}")
    | _, _ => some (s.diff ln "ptop" s!"unknown-event {ev}")
  | "plevels" :: mode :: opt :: rest => some (handleLevels s ln mode opt rest)
  | "pcfg" :: k :: v :: _ => some { s with scalars := ("pregen." ++ k, v) :: s.scalars.filter (·.1 != "pregen." ++ k) }
  | _ => none

end PPregen
end Meddly
