/-
  Acceptor for the function-level families (setops, arith, build, copy, image,
  reach, canon, iter, index, io, reorder, policy, errors …).

  The harness prints, per case: the domain, the forests, explicit input tables,
  observed tables (`dd_edge::evaluate` at every assignment), the operations it
  performed and dumps of the real node stores.  This acceptor
    * recomputes every operation's result from the *specification* (Spec/*) on
      the operand tables and compares it with the observed result table;
    * runs the verified certificate checker `Dump.check` on every MT dump
      (soundness: `Dump.check_sound`, hence `DD.canon` applies to that state);
    * recounts incoming references from the dump;
    * evaluates every dumped root with the model's `eval` and compares it with
      the table the library reported for that edge;
    * compares every observed `==` with equality of denotations.
-/
import MeddlyModel

namespace Meddly
namespace Funcs
open Spec

structure ForestInfo where
  name : String
  fid : Nat
  rel : Bool
  range : String
  lab : String
  rule : String
  pol : String
  deriving Repr, Inhabited

structure NodeRec where
  handle : Nat
  pos : Nat
  inCount : Nat
  cacheCount : Nat
  down : List (Child Val)
  evs : List (Option Val)       -- edge values (EV forests)
  deriving Repr, Inhabited

structure St where
  rep : Report := {}
  caseNo : Nat := 0
  dom : Array Nat := #[]
  forests : List ForestInfo := []
  /-- latest observed table of each edge: (edge, forest, table) -/
  tables : List (String × String × Table) := []
  firstSeen : List (String × Table) := []
  inputs : List (String × Table) := []
  /-- expectation registered by an `op` line for a result edge -/
  pending : List (String × String × Except String Table) := []
  nodes : List (String × NodeRec) := []        -- (forest, node), most recent dump only
  roots : List (String × List (Child Val)) := []
  scalars : List (String × String) := []
  /-- where each edge points: (edge, forest, child) from the last `root` record -/
  edgeRoots : List (String × String × Child Val) := []
  /-- name of the harness family that produced the transcript (from the `family` record) -/
  family : String := ""
  deriving Inhabited

def St.diff (s : St) (ln : Nat) (kind detail : String) : St :=
  { s with rep := s.rep.addDiff s!"line={ln} case={s.caseNo} kind={kind} {detail}" }
def St.tick (s : St) : St := { s with rep := s.rep.tick }
def St.bump (s : St) (k : String) : St := { s with rep := s.rep.bump k }

def St.forest? (s : St) (n : String) : Option ForestInfo := s.forests.find? (·.name == n)
def St.table? (s : St) (e : String) : Option (String × Table) :=
  (s.tables.find? (·.1 == e)).map (·.2)
def St.setTable (s : St) (e f : String) (t : Table) : St :=
  { s with tables := (e, f, t) :: s.tables.filter (·.1 != e),
           firstSeen := if s.firstSeen.any (·.1 == e) then s.firstSeen else (e, t) :: s.firstSeen }

def parseTable (toks : List String) : Option Table :=
  toks.foldl (fun acc t => match acc, Val.parse t with
    | some a, some v => some (a.push v)
    | _, _ => none) (some #[])

def showTable (t : Table) : String := " ".intercalate (t.toList.map toString)

def zeroOf (f : ForestInfo) : Val :=
  if f.lab == "evp" || f.lab == "idx" then .inf
  else if f.range == "bool" then .b false
  else if f.range == "int" then .i 0
  else .r 0 0

def parseChild (tok : String) : Option (Child Val × Option Val) :=
  let (c, ev) := match tok.splitOn ":" with
    | [c, e] => (c, Val.parse e)
    | _ => (tok, none)
  if c.startsWith "N" then
    (c.drop 1).toString.toNat?.map (fun h => (Child.nd h, ev))
  else if c == "TZ" then some (Child.tm Val.inf, ev)         -- EV transparent terminal
  else if c == "TW" then some (Child.tm (Val.i 0), ev)       -- EV omega terminal (value 0 below)
  else if c.startsWith "T" then
    (Val.parse (c.drop 1).toString).map (fun v => (Child.tm v, ev))
  else none

def shapeOf (s : St) (f : ForestInfo) : Shape := mkShape s.dom f.rel f.rule
def sizesOf (s : St) (f : ForestInfo) : Array Nat := posSizes s.dom f.rel

/-- table of a dumped root through the model's verified evaluator -/
def evalRoot (s : St) (f : ForestInfo) (D : Dump Val) (c : Child Val) : Table :=
  let S := shapeOf s f
  let sizes := sizesOf s f
  let n := card sizes
  (Array.range n).map (fun idx => Dump.evalFast S (zeroOf f) D c (assignOf sizes idx))

/-- EV+ evaluation on the dump: sum of edge values along the path, inf at the transparent terminal;
    skipped positions are read as in `DD.eval` (ident: the value must equal the one above). -/
partial def evalEV (nodes : List NodeRec) (S : Shape) (k : Nat) (c : Child Val) (acc : Int) (a : Assign) : Val :=
  match c with
  | .tm .inf => .inf
  | _ =>
    if k == 0 then (match c with | .tm _ => .i acc | .nd _ => .inf)
    else
      let stored : Option NodeRec := match c with
        | .nd h => (nodes.find? (·.handle == h)).bind (fun n => if n.pos == k then some n else none)
        | .tm _ => none
      match stored with
      | some n =>
        let i := a k
        let ev := match n.evs.getD i none with | some (.i v) => v | _ => 0
        evalEV nodes S (k-1) (n.down.getD i (.tm .inf)) (acc + ev) a
      | none =>
        if S.mode k == .ident && a k != a (k+1) then .inf
        else evalEV nodes S (k-1) c acc a


/-- kind lookup used by the spec oracle: forest name ↦ (isRelation, range, labeling, rule) -/
def St.kindOf (s : St) : String → Option (Bool × String × String × String) :=
  fun n => (s.forest? n).map (fun f => (f.rel, f.range, f.lab, f.rule))

def St.scalar? (s : St) (k : String) : Option String := (s.scalars.find? (·.1 == k)).map (·.2)

end Funcs
end Meddly
