/-
  Acceptor plugin of family `errors` (C16).

  Records handled here (everything else of the family uses the generic records of Driver/Funcs.lean):

    pre <OP> <kindA> <kindB> <kindC> <domains> -> ok applied | err <CODE> | crash <why>
        one row of the constructor decision table; compared with `Errors.precheck`.  <domains> = 1 | a | 0
        (`Errors.Doms.ofTok`).  An accepted row must have been COMPUTED (`ok applied`): no row is withheld
        (the records `ok built <TAG>` / `skipped <TAG>` of earlier revisions, which steered away from crash
        findings F1..F6, are gone and would be reported as a parse DIFF).  `crash` only comes from the
        development aid `--isolate 1`.
    misuse <scenario> <outcome...>
        scripted misuse of the non-operation API; compared with `Errors.misuseExpect`.
    fit <what> <value> -> ok | err <CODE>
        a value offered to an integer terminal; compared with the documented range (`Errors.fitsInt`).
    auditcanon <F>
        canonical-form part of `audit` only (verified checker `Dump.check`), dangling children, and the
        one-sided reference recount: a stored incoming count may EXCEED the recount (references leaked
        by an operation that was aborted by an error) but never be below it.
    leakinfo <F> <nodes> <refs>
        the harness' own count of nodes / references in excess; must equal the acceptor's recount of
        the same dump (information, never a DIFF by itself).
-/
import MeddlyModel
import Driver.Base
import Driver.Ops

namespace Meddly
namespace PErrors
open Funcs Errors
open Spec hiding Range Lab Rule Kind

def parseKind (tok : String) : Option ForestKind :=
  match tok.splitOn "." with
  | [sr, rg, lb, ru] => do
    let rel ← (if sr == "set" then some false else if sr == "rel" then some true else none)
    let range ← (if rg == "bool" then some Errors.Range.bool else if rg == "int" then some Errors.Range.int
                 else if rg == "real" then some Errors.Range.real else none)
    let lab ← (if lb == "mt" then some Errors.Lab.mt else if lb == "evp" then some Errors.Lab.evp
               else if lb == "idx" then some Errors.Lab.idx else if lb == "evt" then some Errors.Lab.evt else none)
    let rule ← (if ru == "fully" then some Errors.Rule.fully else if ru == "quasi" then some Errors.Rule.quasi
                else if ru == "ident" then some Errors.Rule.ident else none)
    some ⟨rel, range, lab, rule⟩
  | _ => none

def stepPre (s : St) (ln : Nat) (toks : List String) : St :=
  match toks with
  | "pre" :: opn :: ta :: tb :: tc :: sd :: "->" :: outcome =>
    match OpKind.ofName opn, parseKind ta, Doms.ofTok sd with
    | some op, some ka, some dp =>
      let kb := (parseKind tb).getD ka
      let kc := (parseKind tc).getD ka
      let same := dp.allSame
      let s := s.tick
      if !(ka.legal && kb.legal && kc.legal) then s.diff ln "pre" s!"illegal-kind in {opn} {ta} {tb} {tc}" else
      let exp := precheck op ka kb kc dp
      let expS := match exp with | none => "ok" | some e => s!"err {e.name}"
      let row := s!"{opn} {ta} {tb} {tc} {sd}"
      let s := s.bump (if (decide (compatible op ka kb kc same)) then "pre.compatible"
                       else if lax op ka kb kc same then "pre.lax" else "pre.rejected")
      match outcome with
      | ["ok", "applied"] =>
        if exp == none then s.bump "pre.ok.applied"
        else s.diff ln "error-code" s!"row=[{row}] expected={expS} got=ok"
      | ["err", code] =>
        if exp.map ErrCode.name == some code then s.bump s!"pre.{code}"
        else s.diff ln (if exp == none then "unexpected-error" else "error-code") s!"row=[{row}] expected={expS} got=err:{code}"
      | "crash" :: why =>
        s.diff ln "crash" s!"row=[{row}] expected={expS} got=crash:{" ".intercalate why}"
      | _ => s.diff ln "parse" s!"bad-pre-outcome {outcome}"
    | _, _, _ => s.diff ln "parse" s!"bad-pre-row {opn} {ta} {sd}"
  | _ => s.diff ln "parse" "bad-pre-record"

/-- one-sided recount + canonical form -/
def auditCanon (s : St) (ln : Nat) (fname : String) : St := Id.run do
  let some f := s.forest? fname | return s.diff ln "auditcanon" s!"unknown-forest {fname}"
  let mut s := s
  let recs := (s.nodes.filter (·.1 == fname)).map (·.2)
  let roots := ((s.roots.find? (·.1 == fname)).map (·.2)).getD []
  let mut extraNodes := 0
  let mut extraRefs := 0
  for n in recs do
    let fromParents := recs.foldl (fun acc m => acc + (m.down.filter (· == Child.nd n.handle)).length) 0
    let fromRoots := (roots.filter (· == Child.nd n.handle)).length
    s := s.tick
    if n.inCount < fromParents + fromRoots then
      s := s.diff ln "refcount" s!"forest={fname} node={n.handle} expected>={fromParents + fromRoots} got={n.inCount}"
    else if n.inCount > fromParents + fromRoots then
      extraNodes := extraNodes + 1
      extraRefs := extraRefs + (n.inCount - (fromParents + fromRoots))
    for c in n.down do
      match c with
      | .nd h => if !(recs.any (·.handle == h)) then
          s := s.diff ln "dangling" s!"forest={fname} node={n.handle} child={h} expected=live got=missing"
      | _ => pure ()
  for c in roots do
    match c with
    | .nd h => if !(recs.any (·.handle == h)) then
        s := s.diff ln "dangling-root" s!"forest={fname} root={h} expected=live got=missing"
    | _ => pure ()
  s := { s with scalars := (s!"leak.{fname}", s!"{extraNodes} {extraRefs}") :: s.scalars.filter (·.1 != s!"leak.{fname}") }
  if extraRefs > 0 then
    s := s.bump "leak.forests"
    s := { s with rep := s.rep.bump "leak.refs" extraRefs }
  if f.lab == "mt" then
    let D : Dump Val := recs.map (fun n => { handle := n.handle, pos := n.pos, down := n.down })
    let S := shapeOf s f
    let z := zeroOf f
    s := s.tick
    s := s.bump "auditcanon.mt"
    if !(Dump.check S z D roots) then
      let why :=
        if !(Dump.storeOK D) then
          (if !(Dump.distinctOK D) then "duplicate-node-or-handle" else "bad-child-or-level")
        else match D.find? (fun n => !(Dump.nodeOK S z D n)) with
          | some n => s!"node-not-reduced handle={n.handle} pos={n.pos}"
          | none => match roots.find? (fun r => !(Dump.rootOK S z D r)) with
            | some r => s!"root-not-reduced {repr r}"
            | none => "unknown"
      s := s.diff ln "canonical" s!"forest={fname} rule={f.rule} expected=Dump.check-accepts got={why}"
  else
    -- EV forests: no duplicate (pos, children, edge values)
    s := s.bump "auditcanon.ev"
    let rec dup : List NodeRec → Option Nat
      | [] => none
      | n :: rest => if rest.any (fun m => m.pos == n.pos && m.down == n.down && m.evs == n.evs) then some n.handle else dup rest
    match dup recs with
    | some h => s := s.diff ln "canonical" s!"forest={fname} expected=no-duplicate-node got=duplicate-of {h}"
    | none => pure ()
  return s

def step (s : St) (ln : Nat) (toks : List String) : Option St :=
  match toks with
  | "pre" :: _ => some (stepPre s ln toks)
  | "auditcanon" :: fname :: _ => some (auditCanon s ln fname)
  | "leakinfo" :: fname :: n :: r :: _ =>
    let s := s.tick
    match s.scalar? s!"leak.{fname}" with
    | some v =>
      if v == s!"{n} {r}" then some (if r != "0" then s.bump "leakinfo.nonzero" else s.bump "leakinfo.zero")
      else some (s.diff ln "leakinfo" s!"forest={fname} expected(recount of dump)={v} got={n} {r}")
    | none => some (s.diff ln "leakinfo" s!"no-auditcanon-for {fname}")
  | "misuse" :: scen :: rest =>
    let s := (s.tick).bump s!"misuse.{scen}"
    let got := " ".intercalate rest
    match misuseExpect scen with
    | some e =>
      if got == e then some s else some (s.diff ln "error-code" s!"misuse={scen} expected={e} got={got}")
    | none => some (s.diff ln "misuse" s!"unknown-scenario {scen}")
  | "fit" :: what :: v :: "->" :: rest =>
    let s := (s.tick).bump s!"fit.{what}"
    match v.toInt? with
    | none => some (s.diff ln "parse" s!"bad-fit-value {v}")
    | some x =>
      let exp := if fitsInt x then "ok" else "err VALUE_OVERFLOW"
      let got := " ".intercalate rest
      let s := s.bump (if fitsInt x then "fit.inside" else "fit.outside")
      if got == exp then some s else some (s.diff ln "error-code" s!"fit={what} value={x} expected={exp} got={got}")
  | _ => none

/-- Value semantics of the operations used by the deep-error scripts.  Names are private to this family
    (`E_…`) so that they never shadow another plugin's specification. -/
def evalE (op : String) (x y : Val) : Except String Val :=
  match op, x, y with
  -- multi-terminal integers (C++ `long` arithmetic, truncating division)
  | "E_DIVIDE", .i _, .i 0 => .error "DIVIDE_BY_ZERO"
  | "E_DIVIDE", .i a, .i b => .ok (.i (Int.tdiv a b))
  | "E_MODULO", .i _, .i 0 => .error "DIVIDE_BY_ZERO"
  | "E_MODULO", .i a, .i b => .ok (.i (Int.tmod a b))
  | "E_PLUS", .i a, .i b => if fitsInt (a + b) then .ok (.i (a + b)) else .error "VALUE_OVERFLOW"
  | "E_MULTIPLY", .i a, .i b => if fitsInt (a * b) then .ok (.i (a * b)) else .error "VALUE_OVERFLOW"
  | "E_MINUS", .i a, .i b => .ok (.i (a - b))
  -- EV+ : infinity is absorbing, except that it cannot be subtracted or divided by itself
  | "E_MINUS", .inf, .inf => .ok .inf          -- shortcut: an infinite minuend is returned unexamined
  | "E_MINUS", .i _, .inf => .error "SUBTRACT_INFINITY"
  | "E_MINUS", .inf, .i _ => .ok .inf
  | "E_PLUS", .inf, _ => .ok .inf
  | "E_PLUS", _, .inf => .ok .inf
  | "E_DIVIDE", .inf, .inf => .error "INFINITY_DIV_INFINITY"
  | "E_DIVIDE", .inf, .i 0 => .error "DIVIDE_BY_ZERO"
  | "E_DIVIDE", .inf, .i _ => .ok .inf
  | "E_DIVIDE", .i _, .inf => .ok (.i 0)
  | "E_MODULO", .inf, .inf => .error "INFINITY_DIV_INFINITY"
  | "E_MODULO", .inf, .i 0 => .error "DIVIDE_BY_ZERO"
  | "E_MODULO", .inf, .i _ => .ok .inf
  | "E_MODULO", .i a, .inf => .ok (.i a)
  -- reals on the exactness grid: only division by zero matters here
  | "E_DIVIDE", .r _ _, .r 0 _ => .error "DIVIDE_BY_ZERO"
  | "E_DIVIDE", .r a e, .r b f =>
    -- (a/2^e) / (b/2^f) to 40 fractional bits (observations are compared approximately)
    .ok (.r (Int.tdiv (a * (2 : Int) ^ (f.toNat + 40)) (b * (2 : Int) ^ e.toNat)) 40)
  | _, _, _ => .error "TYPE_MISMATCH"

def spec : Ops.SpecFn := fun _ _ op args _ =>
  if op.startsWith "E_" then
    match args with
    | [(_, a), (_, b)] => some (pointwise2 (evalE op) a b)
    | _ => some (.error "WRONG_NUMBER")
  else none

end PErrors
end Meddly
