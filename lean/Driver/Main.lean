import MeddlyModel
def main : IO Unit := IO.println "drv"
