import MeddlyModel
import Driver.Funcs

open Meddly

partial def readAll (h : IO.FS.Stream) (acc : Array String) : IO (Array String) := do
  let line ← h.getLine
  if line.isEmpty then return acc
  readAll h (acc.push (line.trimAscii.toString))

/-- families handled by the generic function-level acceptor -/
def funcFamilies : List String :=
  ["ctstress", "setops", "arith", "build", "copy", "image", "reach", "canon", "iter", "index", "io",
   "reorder", "policy", "errors", "pregen", "life", "oplife"]

def main (args : List String) : IO UInt32 := do
  let lines ← match args with
    | [path] => do
      let s ← IO.FS.readFile path
      pure ((s.splitOn "\n").map (fun l => l.trimAscii.toString)).toArray
    | _ => do readAll (← IO.getStdin) #[]
  let fam := match lines.toList.find? (fun l => l.startsWith "family ") with
    | some l => (l.drop 7).toString
    | none => ""
  let rep : Report :=
    if funcFamilies.contains fam then Funcs.accept lines
    else if fam == "terminal" then acceptTerminal lines
    else if fam == "memman" then acceptMemMan lines
    else if fam == "ctable" then acceptCTable lines
    else if fam == "nodelife" then acceptNodeLife lines
    else if fam == "lifecycle" then acceptLifecycle lines
    else if fam == "gen" then acceptGen lines
    else ({} : Report).addDiff s!"line=0 kind=unknown-family {fam}"
  rep.print
  return (if rep.ok then 0 else 1)
