/-
  Acceptor plugin for family `image` (C09).

  `spec`: specification tables (Spec/Image.lean) for
      op R POST_IMAGE  S REL      op R PRE_IMAGE   S REL
      op R VM_MULTIPLY V M        op R MV_MULTIPLY M V        (operand order as in the record)
  including the error the call must raise for forest triples the factories do not
  support (`_IMAGE_factory::build_new`, `VM_/MV_MULTIPLY_factory::build_new` and the
  checks in the constructor of `prepost_set_mtrel`).  The result forest is the one
  announced by the preceding `resforest` record.

  `step`: two additional records
      imagemodel R OP Fc rootR Fx rootS Fr rootREL
                              structural tie: the MODEL's algorithm (`DD.imageG`, Ops/Image.lean) is run on
                              the operand trees unfolded from the last dumps of the forests `Fx` (set /
                              vector operand) and `Fr` (relation / matrix) and the resulting tree is
                              compared with the tree of the implementation's result unfolded from the dump
                              of `Fc`.  By `imageG_unique` both are the unique reduced tree of the specified
                              function, so they must be identical (multi-terminal forests; boolean images,
                              integer distances, integer products).
      disttable R F v0 v1 …   observed table of an MT-integer distance result whose
                              operand carried several different negative values: compared
                              with the expectation up to the choice of the negative value
                              (`Spec.distAgree`: "negative = unreachable").
-/
import MeddlyModel
import Driver.Base
import Driver.Ops

namespace Meddly
namespace P_Image
open Spec Funcs

abbrev K4 := Bool × String × String × String     -- isRelation, range, labeling, rule

def K4.rel (k : K4) : Bool := k.1
def K4.range (k : K4) : String := k.2.1
def K4.lab (k : K4) : String := k.2.2.1
def K4.rule (k : K4) : String := k.2.2.2

/-- the checks in the constructor of `prepost_set_mtrel` (a: set/vector forest, b: relation/matrix
    forest, c: result forest); the domains are equal by construction of the harness -/
def construct (a b c : K4) : Except String Unit :=
  if a.rel || !b.rel || c.rel then .error "TYPE_MISMATCH"
  else if a.lab != c.lab || b.lab != "mt" then .error "TYPE_MISMATCH"
  else if a.range != c.range then .error "TYPE_MISMATCH"
  else .ok ()

/-- `_IMAGE_factory<FWD>::build_new` followed by the computation -/
def imageSpec (dom : Array Nat) (fwd : Bool) (a b c : K4) (s r : Table) : Except String Table :=
  if a.lab == "mt" then
    if c.range == "bool" then do
      construct a b c
      pure (imageBool dom fwd s r)
    else if c.range == "int" then
      if c.rule == "fully" then do
        construct a b c
        pure (imageDistMT dom fwd s r)
      else .error "NOT_IMPLEMENTED"
    else .error "NOT_IMPLEMENTED"
  else if a.lab == "evp" then do
    construct a b c
    pure (imageDistEV dom fwd s r)
  else .error "NOT_IMPLEMENTED"

/-- `VM_MULTIPLY_factory::build_new` / `MV_MULTIPLY_factory::build_new` (a: vector forest, b: matrix
    forest) followed by the computation -/
def vecMatSpec (dom : Array Nat) (fwd : Bool) (a b c : K4) (v m : Table) : Except String Table :=
  if c.range == "int" || c.range == "real" then do
    construct a b c
    if c.lab != "mt" then .error "ANY-ERROR"   -- documented: "all forests must be multi-terminal"
    else pure (vecMat dom fwd (c.range == "real") v m)
  else .error "TYPE_MISMATCH"

def spec : Ops.SpecFn := fun dom kindOf op args scalars =>
  let resK : Option K4 := ((scalars.find? (·.1 == "resforest")).map (·.2)).bind kindOf
  match op, args with
  | "POST_IMAGE", [(fs, s), (fr, r)] =>
    match kindOf fs, kindOf fr, resK with
    | some a, some b, some c => some (imageSpec dom true a b c s r)
    | _, _, _ => some (.error "SPEC-MISSING-FOREST")
  | "PRE_IMAGE", [(fs, s), (fr, r)] =>
    match kindOf fs, kindOf fr, resK with
    | some a, some b, some c => some (imageSpec dom false a b c s r)
    | _, _, _ => some (.error "SPEC-MISSING-FOREST")
  | "VM_MULTIPLY", [(fv, v), (fm, m)] =>
    match kindOf fv, kindOf fm, resK with
    | some a, some b, some c => some (vecMatSpec dom true a b c v m)
    | _, _, _ => some (.error "SPEC-MISSING-FOREST")
  | "MV_MULTIPLY", [(fm, m), (fv, v)] =>
    match kindOf fv, kindOf fm, resK with
    | some a, some b, some c => some (vecMatSpec dom false a b c v m)
    | _, _, _ => some (.error "SPEC-MISSING-FOREST")
  | _, _ => none

/-! ### structural tie: model algorithm on the dumped operands = dumped result -/

def orV (x y : Val) : Val := .b (x.isTrue || y.isTrue)
def andV (a r : Val) : Val := .b (a.isTrue && isEdge r)
def distMinV (x y : Val) : Val :=
  match x, y with
  | .i a, .i b => .i (DD.distMin a b)
  | a, _ => a
def distStepV (a r : Val) : Val :=
  match a with
  | .i d => .i (DD.distStep d (isEdge r))
  | _ => .i (-1)
def mulIntV (a r : Val) : Val := vMul a (toElem false r)

def treeAt (s : St) (fname ctok : String) : Option (ForestInfo × DD Val) := do
  let f ← s.forest? fname
  let (c, _) ← parseChild ctok
  let recs := (s.nodes.filter (·.1 == fname)).map (·.2)
  let D : Dump Val := recs.map (fun n => { handle := n.handle, pos := n.pos, down := n.down })
  pure (f, Dump.unfold D (zeroOf f) ((shapeOf s f).top + 1) c)

def imageModel (s : St) (ln : Nat) (op fc rootR fx rootS fr rootREL : String) : St :=
  match treeAt s fc rootR, treeAt s fx rootS, treeAt s fr rootREL with
  | some (kc, tr), some (ks, ta), some (kr, tb) =>
    if kc.lab != "mt" || ks.lab != "mt" || kr.lab != "mt" then s.bump "imagemodel.skipped-ev"
    else
      let Ss := shapeOf s ks; let Sr := shapeOf s kr; let Sc := shapeOf s kc
      let za := zeroOf ks; let zb := zeroOf kr; let zc := zeroOf kc
      let fwd := op == "POST_IMAGE" || op == "VM_MULTIPLY"
      let model : Option (DD Val) :=
        if op == "POST_IMAGE" || op == "PRE_IMAGE" then
          if kc.range == "bool" then some (DD.imageG Ss Sr Sc za zb zc orV andV (.b false) fwd Sc.top ta tb)
          else if kc.range == "int" then some (DD.imageG Ss Sr Sc za zb zc distMinV distStepV (.i (-1)) fwd Sc.top ta tb)
          else none
        else if kc.range == "int" then some (DD.imageG Ss Sr Sc za zb zc vAdd mulIntV (.i 0) fwd Sc.top ta tb)
        else none
      match model with
      | none => s.bump "imagemodel.skipped-real"
      | some m =>
        let s := (s.tick).bump s!"imagemodel.{op}"
        if m == tr then s
        else s.diff ln "model-structure" s!"op={op} expected(model imageG on the dumped operands)≠got(dumped result tree)"
  | _, _, _ => s.diff ln "imagemodel" "missing forest or root"

def step (s : St) (ln : Nat) (toks : List String) : Option St :=
  match toks with
  | ["imagemodel", _res, op, fc, rootR, fx, rootS, fr, rootREL] =>
    some (imageModel s ln op fc rootR fx rootS fr rootREL)
  | "disttable" :: e :: f :: rest =>
    match parseTable rest with
    | none => some (s.diff ln "parse" "bad-disttable")
    | some t => Id.run do
      let mut s := s.bump "disttable"
      match s.pending.find? (·.1 == e) with
      | some (_, opdesc, exp) =>
        s := { s with pending := s.pending.filter (·.1 != e) }
        s := s.tick
        match exp with
        | .ok et =>
          if !(distAgree et t) then
            let i := ((List.range (max et.size t.size)).find? fun i =>
              !(distAgree #[et.getD i default] #[t.getD i default])).getD 0
            s := s.diff ln "op-result" s!"op=[{opdesc}] index={i} expected={et.getD i default} got={t.getD i default} (negative = unreachable)"
        | .error code =>
          s := s.diff ln "op-should-fail" s!"op=[{opdesc}] expected=error:{code} got=value"
      | none => pure ()
      return some (s.setTable e f t)
  | _ => none

end P_Image
end Meddly
