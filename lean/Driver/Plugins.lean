/-
  Registry of acceptor plugins.  A plugin contributes
    * `spec : Ops.SpecFn`   — specification of additional operation names, and/or
    * `step : Funcs.St → Nat → List String → Option Funcs.St` — handlers for additional record kinds.
-/
import Driver.Base
import Driver.Ops
import Driver.P_Pregen
import Driver.P_Reorder
import Driver.P_Reach
import Driver.P_Build
import Driver.P_Errors
import Driver.P_Io
import Driver.P_Image
import Driver.P_Arith
import Driver.P_Copy
import Driver.P_Index
import Driver.P_Iter

namespace Meddly
namespace Plugins
open Funcs

def specChain : List Ops.SpecFn := [PPregen.spec, PReach.spec, PErrors.spec, P_Io.spec, P_Image.spec, PArith.spec, PCopy.spec, PIndex.spec, PIter.spec, Ops.specSet, Ops.specNumBasic]

/-- record handlers, each restricted to the harness families it belongs to (several families use a
    record named `probe` with different layouts); an empty family list means "any family" -/
def stepChain : List (List String × (St → Nat → List String → Option St)) :=
  [(["pregen"], PPregen.step), (["reorder"], PReorder.step), (["reach"], PReach.step), (["build"], PBuild.step),
   (["errors"], PErrors.step), (["io"], P_Io.step), (["image"], P_Image.step), ([], PArith.step),
   (["index"], PIndex.step), (["iter", "index"], PIter.step)]

def spec (dom : Array Nat) (kindOf : Ops.KindOf) (op : String) (args : List (String × Spec.Table))
    (scalars : List (String × String)) : Except String Spec.Table :=
  match specChain.findSome? (fun f => f dom kindOf op args scalars) with
  | some r => r
  | none => .error s!"SPEC-UNKNOWN {op}"

def step (s : St) (ln : Nat) (toks : List String) : Option St :=
  stepChain.findSome? (fun (fams, f) => if fams.isEmpty || fams.contains s.family then f s ln toks else none)

end Plugins
end Meddly
