/-
  Acceptor plugin for the `reorder` family (C13).

  Records (see harness/fam_reorder.cc):
    reorder <F> <heuristic> <var|level> ok|err <CODE> target <v1 … vK>
        F->reorderVariables(target) returned / threw CODE.  Registers the expectation for the
        next `order F` record: `ok` → the order must BE the target; `err` → the order must be
        what it was.  An error is admissible only for the combinations the library documents as
        unsupported (LEVEL swap: NOT_IMPLEMENTED / INVALID_OPERATION; edge-valued relations:
        NOT_IMPLEMENTED).
    order <F> <v1 … vK>
        getVariableOrder: variable at level 1..K.  Must be a permutation, must satisfy the pending
        expectation, and without a pending `reorder` must equal the previous order of that forest
        (a bystander forest never moves).
    permcheck <E> <E@L> <F>
        the by-level table (alias E@L) must be `Spec.levelTable` of the by-variable table E under
        F's current order: evaluation reads minterms by level, the function of the VARIABLES is E.
    probe <id> <heuristic> <flavour> rc <n>
        outcome of a reordering executed in a child process (0 = completed with the right order and
        tables; 42 tables changed; 43 order ≠ target; 128+26 (SIGVTALRM) = CPU budget exhausted, i.e. the
        reordering does not terminate; other = crash).
-/
import MeddlyModel
import Driver.Base

namespace Meddly
namespace PReorder
open Funcs Spec

def joinC (xs : List String) : String := ",".intercalate xs

def setScalar (s : St) (k v : String) : St :=
  { s with scalars := (k, v) :: s.scalars.filter (·.1 != k) }
def dropScalar (s : St) (k : String) : St :=
  { s with scalars := s.scalars.filter (·.1 != k) }

def parseOrder (v : String) : Array Nat := ((v.splitOn ",").filterMap String.toNat?).toArray

def step (s : St) (ln : Nat) (toks : List String) : Option St :=
  match toks with
  | "reorder" :: f :: heur :: swap :: rest =>
    some <| Id.run do
      let (res, code, tgt) := match rest with
        | "ok" :: "target" :: t => ("ok", "", t)
        | "err" :: c :: "target" :: t => ("err", c, t)
        | _ => ("?", "", [])
      let mut s := (s.tick).bump s!"reorder.{heur}.{swap}.{res}"
      if res == "?" then return s.diff ln "parse" "bad-reorder-record"
      if res == "err" then
        let kindOK := match s.forest? f with
          | some fi =>
            (swap == "level" && (code == "NOT_IMPLEMENTED" || code == "INVALID_OPERATION")) ||
            (fi.rel && (fi.lab == "evp" || fi.lab == "evt") && code == "NOT_IMPLEMENTED")
          | none => false
        if !kindOK then
          s := s.diff ln "unexpected-error" s!"op=[reorderVariables {f} heuristic={heur} swap={swap}] expected=value got={code}"
      return setScalar s s!"pending.reorder.{f}" s!"{heur} {swap} {res} {joinC tgt}"
  | "order" :: f :: vs =>
    some <| Id.run do
      let cur := joinC vs
      let mut s := s.tick
      let arr := parseOrder cur
      if arr.size != s.dom.size || !(isPermutation arr) then
        s := s.diff ln "order" s!"forest={f} expected=permutation-of-1..{s.dom.size} got={cur}"
      let prev := s.scalar? s!"order.{f}"
      match s.scalar? s!"pending.reorder.{f}" with
      | some p =>
        match p.splitOn " " with
        | [heur, swap, res, tgt] =>
          -- a refused reordering leaves the order as it was (a forest never seen before has the default order)
          let dflt := joinC ((List.range s.dom.size).map (fun i => toString (i + 1)))
          let expected := if res == "ok" then tgt else prev.getD dflt
          if cur != expected then
            s := s.diff ln "order" s!"forest={f} heuristic={heur} swap={swap} result={res} expected={expected} got={cur}"
          else s := s.bump "order.reached"
        | _ => s := s.diff ln "order" "bad-pending"
        s := dropScalar s s!"pending.reorder.{f}"
      | none =>
        match prev with
        | some pv =>
          if pv != cur then
            s := s.diff ln "order" s!"forest={f} (no reordering requested) expected={pv} got={cur}"
          else s := s.bump "order.stable"
        | none => pure ()
      return setScalar s s!"order.{f}" cur
  | ["permcheck", e, el, f] =>
    some <| Id.run do
      let s := s.tick
      let some fi := s.forest? f | return s.diff ln "permcheck" s!"unknown-forest {f}"
      let some (_, tv) := s.table? e | return s.diff ln "permcheck" s!"unknown-edge {e}"
      let some (_, tl) := s.table? el | return s.diff ln "permcheck" s!"unknown-edge {el}"
      let some o := s.scalar? s!"order.{f}" | return s.diff ln "permcheck" s!"no-order-for {f}"
      let exp := levelTable s.dom fi.rel (parseOrder o) tv
      if tablesAgree exp tl then return s.bump "permcheck.ok"
      else
        let i := (firstDiff exp tl).getD 0
        return s.diff ln "op-result" s!"op=[evaluate-by-level {e} order={o}] index={i} expected={exp.getD i default} got={tl.getD i default}"
  | ["probe", id, heur, flavour, "rc", rc] =>
    some <| Id.run do
      let s := (s.tick).bump s!"probe.{id}"
      if rc == "0" then return s
      else if rc == "154" || rc == "142" then
        return s.diff ln "hang" s!"probe={id} heuristic={heur} flavour={flavour} rc={rc} expected=terminates got=killed-by-timer"
      else if rc == "42" then
        return s.diff ln "operand-changed" s!"probe={id} heuristic={heur} flavour={flavour} rc={rc}"
      else if rc == "43" then
        return s.diff ln "order" s!"probe={id} heuristic={heur} flavour={flavour} rc={rc} expected=target got=other"
      else
        return s.diff ln "crash" s!"probe={id} heuristic={heur} flavour={flavour} rc={rc}"
  | _ => none

end PReorder
end Meddly
