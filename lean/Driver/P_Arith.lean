/-
  Acceptor plugin for family `arith` (C05): specification of the element-wise
  arithmetic / comparison / min-max / distance / user-defined operations and the
  range queries, from `Spec.Arith` (scalar semantics + support table).

  Records used by the family (besides the generic ones):
    resforest <F>                      forest of the next result (generic record)
    scalar umap <name>                 the user-defined map of the next USER_UNARY
    scalar rangetype long|double       C type the next MAX_RANGE / MIN_RANGE is read into
    op <R> <OPNAME> <A> [<B>]          generic; OPNAME ∈ PLUS MINUS MULTIPLY DIVIDE MODULO MAXIMUM
                                       MINIMUM DIST_MIN EQUAL NOT_EQUAL LESS_THAN LESS_THAN_EQUAL
                                       GREATER_THAN GREATER_THAN_EQUAL DIST_INC USER_UNARY
                                       MAX_RANGE MIN_RANGE
    scalarres <R> <value>              the scalar a range query returned (handled here)
    evalfail <R> <CODE>                dd_edge::evaluate raised CODE on the result edge (handled here: always a DIFF)
    err <R> <OPNAME> <A> [<B>] <CODE>  generic
-/
import MeddlyModel
import Driver.Base
import Driver.Ops

namespace Meddly
namespace PArith
open Spec Spec.Arith Funcs

def kindOfTuple (k : Bool × String × String × String) : Spec.Arith.Kind :=
  { rel := k.1, range := k.2.1, lab := k.2.2.1, rule := k.2.2.2 }

def lookup (scalars : List (String × String)) (k : String) : Option String :=
  (scalars.find? (·.1 == k)).map (·.2)

def spec : Ops.SpecFn := fun _dom kindOf op args scalars =>
  let kOf : String → Option Spec.Arith.Kind := fun f => (kindOf f).map kindOfTuple
  let resK : Option Spec.Arith.Kind := (lookup scalars "resforest").bind kOf
  match ArithOp.ofName op with
  | some aop =>
    match args with
    | [(fa, a), (fb, b)] =>
      match kOf fa, kOf fb, resK with
      | some ka, some kb, some kc => some (binTable aop ka kb kc a b)
      -- no `resforest` record: not a transcript of this family (e.g. `policy` uses PLUS / MAXIMUM
      -- through Ops.specNumBasic, registered after this plugin)
      | _, _, _ => none
    | _ => none
  | none =>
    match op, args with
    | "DIST_INC", [(fa, a)] =>
      match kOf fa, resK with
      | some ka, some kc => some (do supportDistInc ka kc; pointwise1 distInc a)
      | _, _ => some (.error "SPEC-MISSING-KIND")
    | "USER_UNARY", [(fa, a)] =>
      match kOf fa, resK, (lookup scalars "umap").bind UMap.ofName with
      | some ka, some kc, some m =>
        some (if ka.rel != kc.rel then .error "TYPE_MISMATCH" else pointwise1 (userMap m kc.rng) a)
      | _, _, _ => some (.error "SPEC-MISSING-KIND-OR-MAP")
    | "MAX_RANGE", [(fa, a)] =>
      match kOf fa with
      | some ka => some (do supportRange ka (lookup scalars "rangetype" == some "double"); pure #[rangeMax a])
      | none => some (.error "SPEC-MISSING-KIND")
    | "MIN_RANGE", [(fa, a)] =>
      match kOf fa with
      | some ka => some (do supportRange ka (lookup scalars "rangetype" == some "double"); pure #[rangeMin a])
      | none => some (.error "SPEC-MISSING-KIND")
    | _, _ => none

/-- `scalarres <R> <value>`: the scalar result of a range query -/
def step (s : St) (ln : Nat) (toks : List String) : Option St :=
  match toks with
  | "scalarres" :: e :: v :: _ =>
    match s.pending.find? (·.1 == e) with
    | none => some (s.diff ln "scalarres" s!"no-pending-op-for {e}")
    | some (_, opdesc, exp) =>
      let s := { s with pending := s.pending.filter (·.1 != e) }
      let s := s.tick
      match exp, Val.parse v with
      | _, none => some (s.diff ln "parse" s!"bad-scalar {v}")
      | .error code, some _ => some (s.diff ln "op-should-fail" s!"op=[{opdesc}] expected=error:{code} got=value")
      | .ok et, some got =>
        let want := et.getD 0 default
        if Val.approxEq want got then some (s.bump "scalarres.ok")
        else some (s.diff ln "op-result" s!"op=[{opdesc}] expected={want} got={got}")
  | "evalfail" :: e :: code :: _ =>
    -- the library returned a result edge that cannot be evaluated
    let opdesc := match s.pending.find? (·.1 == e) with | some (_, d, _) => d | none => e
    let s := { s with pending := s.pending.filter (·.1 != e) }
    some ((s.tick).diff ln "op-result" s!"op=[{opdesc}] expected=evaluable-result got=evaluate-raised:{code}")
  | _ => none

end PArith
end Meddly
