/-
  Acceptor plugin for the `build` family (C03): records
    mt <i> <value> <from 1..K> [| <to 1..K>]
    coll <R> <F> max|min <dflt> incontract|offcontract <i j k ...>
    single <R> <F> <i> <dflt>
    const <R> <F> <v>
    var <R> <F> <level> <primed 0|1> [t0 t1 ...]
    builderr <R> <F> <what> <CODE>
  Each construction record registers the table the result must have as the pending expectation
  for `R` (exactly like `op`), so the `table R …` line that follows is compared with it.

  Expected tables:
    * coll, inside the documented contract (`Spec.defaultOK`, decided here, not taken from the
      harness): the specification `Spec.specColl` — and the code-mirroring recursion
      `Build.semColl` must give the same table (theorem `Build.semColl_eq_spec`; checked again at
      run time as a self-test of the plugin's value operations);
    * coll, outside the contract: `Build.semColl` (what the modelled code computes; the
      specification is not promised there);
    * single: `Spec.specSingle`; const: `Spec.specConst`; var: `Spec.specVar`.
-/
import MeddlyModel
import Driver.Base

namespace Meddly
namespace PBuild
open Funcs Spec Build

/-- value order of the model: Booleans F < T, numbers by value, `inf` on top -/
def valLE (x y : Val) : Bool :=
  match x, y with
  | _, .inf => true
  | .inf, _ => false
  | .b a, .b b => !a || b
  | .i a, .i b => a ≤ b
  | _, _ =>
    -- reals (and mixed): compare n₁/2^e₁ with n₂/2^e₂ exactly
    let num : Val → Int := fun v => match v with | .r n _ => n | .i n => n | .b v => if v then 1 else 0 | .inf => 0
    let ex : Val → Int := fun v => match v with | .r _ e => e | _ => 0
    let e1 := ex x; let e2 := ex y
    let m := min e1 e2
    -- scale both to denominator 2^(max e) : n₁·2^(e₂-m)·… ; shift exponents to be non-negative
    let s1 := (e2 - m).toNat; let s2 := (e1 - m).toNat
    num x * (2 : Int) ^ s1 ≤ num y * (2 : Int) ^ s2

def valMax (x y : Val) : Val := if valLE x y then y else x
def valMin (x y : Val) : Val := if valLE x y then x else y

def parseEntry (t : String) : Option Entry :=
  if t == "x" then some .dontCare
  else if t == "c" then some .dontChange
  else t.toNat?.map .fixed

/-- `minterm::setVars`: `(v, DONT_CHANGE)` is stored as `(v, v)` -/
def setVars (f t : Entry) : Entry × Entry :=
  match f, t with
  | .fixed v, .dontChange => (.fixed v, .fixed v)
  | _, _ => (f, t)

/-- entries by position from the `mt` record: sets: position = variable; relations: position 2k =
    from[k], position 2k-1 = to[k] -/
def mkMinterm (rel : Bool) (toks : List String) : Option (Minterm Val) := do
  match toks with
  | [] => none
  | v :: rest =>
    let v ← Val.parse v
    if rel then
      let parts := rest.splitOn "|"
      match parts with
      | [fs, ts] =>
        let fs ← fs.mapM parseEntry
        let ts ← ts.mapM parseEntry
        if fs.length != ts.length then none
        else
          let pairs := (fs.zip ts).map (fun (f, t) => setVars f t)
          some { ent := pairs.foldr (fun (f, t) acc => t :: f :: acc) [], val := v }
      | _ => none
    else
      let fs ← rest.mapM parseEntry
      some { ent := fs, val := v }

def getMT (s : St) (rel : Bool) (i : String) : Option (Minterm Val) :=
  (s.scalar? s!"mt.{i}").bind (fun str => mkMinterm rel ((str.splitOn " ").filter (· != "")))

def tableOfFn (sizes : Array Nat) (f : Assign → Val) : Table :=
  (Array.range (card sizes)).map (fun idx => f (assignOf sizes idx))

def setPending (s : St) (res line : String) (t : Except String Table) : St :=
  { s with pending := (res, line, t) :: s.pending.filter (·.1 != res) }

def step (s : St) (ln : Nat) (toks : List String) : Option St :=
  match toks with
  | "mt" :: i :: rest =>
    some { s with scalars := (s!"mt.{i}", " ".intercalate rest) :: s.scalars.filter (·.1 != s!"mt.{i}") }
  | "coll" :: res :: fname :: mode :: dflt :: tag :: idx => Id.run do
    let line := " ".intercalate toks
    let some f := s.forest? fname | return some (s.diff ln "coll" s!"unknown-forest {fname}")
    let some d := Val.parse dflt | return some (s.diff ln "parse" s!"bad-default {dflt}")
    let mts := idx.map (getMT s f.rel)
    if mts.any Option.isNone then return some (s.diff ln "coll" s!"unknown-or-bad-minterm in {line}")
    let ms := mts.filterMap id
    let op := if mode == "max" then valMax else valMin
    let sizes := sizesOf s f
    let top := sizes.size
    let inContract := decide (defaultOK op d ms)
    let mut s := s.bump s!"op.coll.{mode}"
    s := s.bump (if inContract then "coll.incontract" else "coll.offcontract")
    if inContract != (tag == "incontract") then
      s := s.diff ln "contract-flag" s!"op=[{line}] expected(defaultOK)={inContract} got={tag}"
    let sem := tableOfFn sizes (semColl f.rel op d top ms)
    if inContract then
      let spec := tableOfFn sizes (specColl op top ms d)
      -- self-test of theorem semColl_eq_spec on the plugin's value operations
      if spec != sem then
        s := s.diff ln "model-selftest" s!"op=[{line}] specColl and semColl differ inside the contract"
      return some (setPending s res line (.ok spec))
    else
      let spec := tableOfFn sizes (specColl op top ms d)
      if spec != sem then s := s.bump "coll.offcontract.differs-from-spec"
      return some (setPending s res line (.ok sem))
  | "single" :: res :: fname :: i :: dflt :: _ => Id.run do
    let line := " ".intercalate toks
    let some f := s.forest? fname | return some (s.diff ln "single" s!"unknown-forest {fname}")
    let some d := Val.parse dflt | return some (s.diff ln "parse" s!"bad-default {dflt}")
    let some m := getMT s f.rel i | return some (s.diff ln "single" s!"unknown-or-bad-minterm {i}")
    let sizes := sizesOf s f
    let s := s.bump "op.single"
    return some (setPending s res line (.ok (tableOfFn sizes (specSingle sizes.size m d))))
  | "const" :: res :: fname :: v :: _ => Id.run do
    let line := " ".intercalate toks
    let some f := s.forest? fname | return some (s.diff ln "const" s!"unknown-forest {fname}")
    let some v := Val.parse v | return some (s.diff ln "parse" s!"bad-value")
    let s := s.bump "op.const"
    return some (setPending s res line (.ok (tableOfFn (sizesOf s f) (specConst v))))
  | "var" :: res :: fname :: level :: primed :: terms => Id.run do
    let line := " ".intercalate toks
    let some f := s.forest? fname | return some (s.diff ln "var" s!"unknown-forest {fname}")
    let some lvl := level.toNat? | return some (s.diff ln "parse" s!"bad-level")
    let pos := if f.rel then (if primed == "1" then 2 * lvl - 1 else 2 * lvl) else lvl
    let tv := terms.map Val.parse
    if tv.any Option.isNone then return some (s.diff ln "parse" "bad-terms")
    let tvs := tv.filterMap id
    -- without a terms array: the value of the variable, in the forest's range type
    let dfltTerm : Nat → Val := fun i =>
      if f.range == "bool" then .b (i != 0)
      else if f.range == "int" then .i i
      else .r i 0
    let tf : Nat → Val := if terms.isEmpty then dfltTerm else fun i => tvs.getD i (zeroOf f)
    let s := s.bump (if terms.isEmpty then "op.var" else "op.varterms")
    return some (setPending s res line (.ok (tableOfFn (sizesOf s f) (specVar tf pos))))
  | "builderr" :: res :: _f :: what :: code :: _ =>
    -- the construction raised an error: none of the generated constructions is expected to
    let s := s.bump s!"builderr.{what}.{code}"
    let s := { s with pending := s.pending.filter (·.1 != res) }
    some (s.diff ln "unexpected-error" s!"edge={res} what={what} expected=value got={code}")
  | _ => none

end PBuild
end Meddly
