/-
  Acceptor for the function-level families: record handlers.  See Driver/Base.lean
  for the state and Driver/Ops.lean for the specification oracle.
-/
import MeddlyModel
import Driver.Base
import Driver.Ops
import Driver.Plugins

namespace Meddly
namespace Funcs
open Spec

def audit (s : St) (ln : Nat) (fname : String) : St := Id.run do
  let some f := s.forest? fname | return s.diff ln "audit" s!"unknown-forest {fname}"
  let mut s := s
  let recs := (s.nodes.filter (·.1 == fname)).map (·.2)
  let roots := ((s.roots.find? (·.1 == fname)).map (·.2)).getD []
  -- (1) reference recount (C06): in(h) = #parent slots + #root edges
  let mut recountOK := true
  for n in recs do
    let fromParents := recs.foldl (fun acc m => acc + (m.down.filter (· == Child.nd n.handle)).length) 0
    let fromRoots := (roots.filter (· == Child.nd n.handle)).length
    s := s.tick
    if n.inCount != fromParents + fromRoots then
      recountOK := false
      s := s.diff ln "refcount" s!"forest={fname} node={n.handle} expected={fromParents + fromRoots} got={n.inCount}"
    -- no dangling children
    for c in n.down do
      match c with
      | .nd h => if !(recs.any (·.handle == h)) then
          s := s.diff ln "dangling" s!"forest={fname} node={n.handle} child={h} expected=live got=missing"
      | _ => pure ()
  for c in roots do
    match c with
    | .nd h => if !(recs.any (·.handle == h)) then
        s := s.diff ln "dangling-root" s!"forest={fname} root={h} expected=live got=missing"
    | _ => pure ()
  -- the same recount through the definition the theorems of State/Recount.lean are about (`Recount.ok`:
  -- `no_leak`, `count_zero_of_no_roots`, `root_counted`): both must give the same verdict
  let DR : Dump Val := recs.map (fun n => { handle := n.handle, pos := n.pos, down := n.down })
  let inc : Nat → Nat := fun h => match recs.find? (·.handle == h) with | some n => n.inCount | none => 0
  s := s.tick
  if Recount.ok DR roots inc != recountOK then
    s := s.diff ln "recount-definition" s!"forest={fname} expected(loop)={recountOK} got(Recount.ok)={Recount.ok DR roots inc}"
  -- (2) canonical form certificate (C01/C02), MT forests: verified checker
  if f.lab == "mt" then
    let D : Dump Val := recs.map (fun n => { handle := n.handle, pos := n.pos, down := n.down })
    let S := shapeOf s f
    let z := zeroOf f
    s := s.tick
    s := s.bump "audit.mt"
    if !(Dump.check S z D roots) then
      -- locate the failing component for the replay
      let why :=
        if !(Dump.storeOK D) then
          (if !(Dump.distinctOK D) then "duplicate-node-or-handle" else "bad-child-or-level")
        else match D.find? (fun n => !(Dump.nodeOK S z D n)) with
          | some n => s!"node-not-reduced handle={n.handle} pos={n.pos}"
          | none => match roots.find? (fun r => !(Dump.rootOK S z D r)) with
            | some r => s!"root-not-reduced {repr r}"
            | none => "unknown"
      s := s.diff ln "canonical" s!"forest={fname} rule={f.rule} expected=Dump.check-accepts got={why}"
  else if f.lab == "evp" || f.lab == "idx" then
    -- EV+ forests: verified checker for the EV+ normal form (EDump.check_sound, EDD.canon)
    let toE : Child Val → EChild := fun c => match c with
      | .nd h => .nd h
      | .tm .inf => .inf
      | .tm _ => .omega
    let evOf : Option Val → Int := fun v => match v with | some (.i x) => x | _ => 0
    let D : EDump := recs.map (fun n =>
      { handle := n.handle, pos := n.pos, down := (n.evs.zip n.down).map (fun (e, c) => (evOf e, toE c)) })
    let S := shapeOf s f
    let eroots : List (Int × EChild) := roots.map (fun c => (0, toE c))
    s := s.tick
    s := s.bump "audit.evp"
    if !(EDump.check S D eroots) then
      let why :=
        if !(EDump.storeOK D) then "store-not-ok(duplicate node/handle or bad child)"
        else match D.find? (fun n => !(EDump.nodeOK S D n)) with
          | some n => s!"node-not-normal handle={n.handle} pos={n.pos}"
          | none => "root-not-reduced"
      s := s.diff ln "canonical" s!"forest={fname} rule={f.rule} labeling={f.lab} expected=EDump.check-accepts got={why}"
  else
    s := s.bump "audit.evt"
  return s

def checkRoot (s : St) (ln : Nat) (e fname : String) (ctok : String) : St := Id.run do
  let some f := s.forest? fname | return s.diff ln "root" s!"unknown-forest {fname}"
  let some (c, ev) := parseChild ctok | return s.diff ln "parse" s!"bad-child {ctok}"
  let some (_, t) := s.table? e | return s.diff ln "root" s!"no-table-for {e}"
  let recs := (s.nodes.filter (·.1 == fname)).map (·.2)
  let mut s := { s with edgeRoots := (e, fname, c) :: s.edgeRoots.filter (·.1 != e) }
  if f.lab == "mt" then
    let D : Dump Val := recs.map (fun n => { handle := n.handle, pos := n.pos, down := n.down })
    let mt := evalRoot s f D c
    s := s.tick
    s := s.bump "evalroot.mt"
    if !(tablesAgree mt t) then
      let i := (firstDiff mt t).getD 0
      s := s.diff ln "eval-vs-structure" s!"edge={e} index={i} expected(model-eval-of-dump)={mt.getD i default} got(evaluate)={t.getD i default}"
  else if f.lab == "evp" || f.lab == "idx" then
    let S := shapeOf s f
    let sizes := sizesOf s f
    let base := match ev with | some (.i v) => v | _ => 0
    let mt := (Array.range (card sizes)).map (fun idx => evalEV recs S S.top c base (assignOf sizes idx))
    s := s.tick
    s := s.bump "evalroot.evp"
    if !(tablesAgree mt t) then
      let i := (firstDiff mt t).getD 0
      s := s.diff ln "eval-vs-structure" s!"edge={e} index={i} expected(model-eval-of-dump)={mt.getD i default} got(evaluate)={t.getD i default}"
  return s

/-- the unfolded tree of an edge (from the last dump of its forest) -/
def treeOf (s : St) (e : String) : Option (ForestInfo × DD Val) := do
  let (_, fname, c) ← s.edgeRoots.find? (·.1 == e)
  let f ← s.forest? fname
  let recs := (s.nodes.filter (·.1 == fname)).map (·.2)
  let D : Dump Val := recs.map (fun n => { handle := n.handle, pos := n.pos, down := n.down })
  let S := shapeOf s f
  pure (f, Dump.unfold D (zeroOf f) S.top c)

/-- `modelop R OP A [B]`: run the MODEL's algorithm (`DD.apply2` / `DD.apply1`) on the unfolded operand
    trees and compare with the unfolded result tree of the implementation.  By `apply2_unique` both are
    the unique reduced tree of the pointwise function, so they must be identical. -/
def modelOp (s : St) (ln : Nat) (res op : String) (args : List String) : St := Id.run do
  let bf : Option (Bool → Bool → Bool) := match op with
    | "UNION" => some (· || ·) | "INTERSECTION" => some (· && ·) | "DIFFERENCE" => some (fun x y => x && !y)
    | _ => none
  let vb (f : Bool → Bool → Bool) : Val → Val → Val := fun x y => .b (f x.isTrue y.isTrue)
  match treeOf s res with
  | none => return s.diff ln "modelop" s!"no-root-for {res}"
  | some (fc, tr) =>
    if fc.lab != "mt" then return s
    let Sc := shapeOf s fc
    match op, args with
    | "COMPLEMENT", [a] =>
      match treeOf s a with
      | some (fa, ta) =>
        let m := DD.apply1 (shapeOf s fa) Sc (zeroOf fa) (zeroOf fc) (fun x => Val.b (!x.isTrue)) Sc.top none ta
        let s := (s.tick).bump "modelop.apply1"
        if m == tr then return s else return s.diff ln "model-structure" s!"op={op} expected(model apply1)≠got(dump)"
      | none => return s.diff ln "modelop" s!"no-root-for {a}"
    | _, [a, b] =>
      match bf, treeOf s a, treeOf s b with
      | some f, some (fa, ta), some (fb, tb) =>
        let m := DD.apply2 (shapeOf s fa) (shapeOf s fb) Sc (zeroOf fa) (zeroOf fb) (zeroOf fc) (vb f) Sc.top none ta tb
        let s := (s.tick).bump "modelop.apply2"
        if m == tr then return s else return s.diff ln "model-structure" s!"op={op} expected(model apply2)≠got(dump)"
      | _, _, _ => return s.diff ln "modelop" s!"cannot-run {op}"
    | _, _ => return s.diff ln "modelop" s!"bad-arity {op}"

def stepLine (s : St) (ln : Nat) (line : String) : St := Id.run do
  let toks := (line.splitOn " ").filter (· != "")
  match toks with
  | [] => return s
  | "family" :: f :: _ => return { s with family := f }
  | "family" :: _ => return s
  | "seed" :: _ => return s
  | "tier" :: _ => return s
  | "stat" :: _ => return s
  | "note" :: _ => return s
  | "cfg" :: _ => return s.bump "cfg"
  | "done" :: rc :: _ =>
    if rc != "0" then return s.diff ln "harness" s!"exit={rc}" else return s
  | "crash" :: rest => return s.diff ln "crash" (" ".intercalate rest)
  | "case" :: n :: _ =>
    return { s with caseNo := n.toNat?.getD 0, dom := #[], forests := [], tables := [], firstSeen := [],
                    inputs := [], pending := [], nodes := [], roots := [], scalars := [], edgeRoots := [],
                    rep := s.rep.bump "cases" }
  | "endcase" :: _ =>
    let mut s := s
    for (e, _, _) in s.pending do
      s := s.diff ln "missing-result" s!"edge={e}"
    return { s with pending := [] }
  | "dom" :: rest => return { s with dom := (rest.filterMap String.toNat?).toArray }
  | "forest" :: name :: fid :: sr :: rng :: lab :: rule :: rest =>
    let fi : ForestInfo := { name, fid := fid.toNat?.getD 0, rel := sr == "rel", range := rng, lab, rule,
                             pol := " ".intercalate rest }
    let s := s.bump s!"kind.{sr}.{rng}.{lab}.{rule}"
    return { s with forests := fi :: s.forests.filter (·.name != name) }
  | "input" :: e :: rest =>
    match parseTable rest with
    | some t => return { s with inputs := (e, t) :: s.inputs.filter (·.1 != e) }
    | none => return s.diff ln "parse" "bad-input-table"
  | "table" :: e :: f :: rest =>
    match parseTable rest with
    | none => return s.diff ln "parse" "bad-table"
    | some t =>
      let mut s := s
      -- a table named like an input must equal the input (the builder is correct: C03)
      match s.inputs.find? (·.1 == e) with
      | some (_, it) =>
        s := s.tick
        if !(tablesAgree it t) then
          let i := (firstDiff it t).getD 0
          s := s.diff ln "build" s!"edge={e} index={i} expected={it.getD i default} got={t.getD i default}"
      | none => pure ()
      match s.pending.find? (·.1 == e) with
      | some (_, opdesc, exp) =>
        s := { s with pending := s.pending.filter (·.1 != e) }
        s := s.tick
        match exp with
        | .ok et =>
          if !(tablesAgree et t) then
            let i := (firstDiff et t).getD 0
            s := s.diff ln "op-result" s!"op=[{opdesc}] index={i} expected={et.getD i default} got={t.getD i default}"
        | .error code =>
          s := s.diff ln "op-should-fail" s!"op=[{opdesc}] expected=error:{code} got=value"
      | none => pure ()
      return s.setTable e f t
  | "op" :: res :: opname :: args =>
    let s := s.bump s!"op.{opname}"
    let argTabs := args.map (fun a => s.table? a)
    if argTabs.any Option.isNone then
      return s.diff ln "op" s!"unknown-operand in {line}"
    else
      let ats := argTabs.filterMap id
      let exp := Plugins.spec s.dom s.kindOf opname ats s.scalars
      match exp with
      | .error e =>
        if e.startsWith "SPEC-UNKNOWN" then return s.diff ln "op" s!"no-spec-for {opname}"
        else return { s with pending := (res, line, .error e) :: s.pending.filter (·.1 != res) }
      | .ok t => return { s with pending := (res, line, .ok t) :: s.pending.filter (·.1 != res) }
  | "resforest" :: f :: _ =>
    -- tells the spec which forest the next op result lives in (conversion of result values)
    return { s with scalars := ("resforest", f) :: s.scalars.filter (·.1 != "resforest") }
  | "scalar" :: k :: v :: _ =>
    return { s with scalars := (k, v) :: s.scalars.filter (·.1 != k) }
  | "err" :: _res :: opname :: rest =>
    -- err R OP args… CODE : the library raised CODE
    let code := rest.getLastD ""
    let args := rest.dropLast
    let s := s.bump s!"err.{opname}.{code}"
    let argTabs := args.map (fun a => s.table? a)
    if argTabs.any Option.isNone then return s.diff ln "err" s!"unknown-operand in {line}"
    let ats := argTabs.filterMap id
    let exp := Plugins.spec s.dom s.kindOf opname ats s.scalars
    let s := s.tick
    match exp with
    | .error e =>
      if e.startsWith "SPEC-UNKNOWN" then return s.diff ln "op" s!"no-spec-for {opname}"
      else if e == code || e == "ANY-ERROR" then return s
      else return s.diff ln "error-code" s!"op=[{line}] expected={e} got={code}"
    | .ok _ => return s.diff ln "unexpected-error" s!"op=[{line}] expected=value got={code}"
  | "unchanged" :: e :: _ =>
    let s := s.tick
    match s.table? e, s.firstSeen.find? (·.1 == e) with
    | some (_, t), some (_, t0) =>
      if tablesAgree t t0 then return s
      else
        let i := (firstDiff t0 t).getD 0
        return s.diff ln "operand-changed" s!"edge={e} index={i} expected={t0.getD i default} got={t.getD i default}"
    | _, _ => return s.diff ln "unchanged" s!"unknown-edge {e}"
  | "eq" :: e1 :: e2 :: b :: _ =>
    let s := s.tick
    match s.table? e1, s.table? e2 with
    | some (f1, t1), some (f2, t2) =>
      let same := f1 == f2 && t1 == t2        -- exact: canonicity is about exact equality of functions
      let got := b == "1"
      let s := s.bump (if same then "eq.same" else "eq.different")
      if same == got then return s
      else return s.diff ln "canonicity" s!"edges={e1},{e2} forest={f1} expected-equal={same} got-equal={got}"
    | _, _ => return s.diff ln "eq" s!"unknown-edge {e1} or {e2}"
  | "node" :: fname :: h :: pos :: inc :: cc :: _n :: kids =>
    let parsed := kids.map parseChild
    if parsed.any Option.isNone then return s.diff ln "parse" s!"bad-node-line {line}"
    let ps := parsed.filterMap id
    let r : NodeRec := { handle := h.toNat?.getD 0, pos := pos.toNat?.getD 0, inCount := inc.toNat?.getD 0,
                         cacheCount := cc.toNat?.getD 0, down := ps.map (·.1), evs := ps.map (·.2) }
    return { s with nodes := (fname, r) :: s.nodes }
  | "cleardump" :: fname :: _ =>
    return { s with nodes := s.nodes.filter (·.1 != fname), roots := s.roots.filter (·.1 != fname) }
  | "roots" :: fname :: kids =>
    let ps := (kids.map parseChild).filterMap id
    return { s with roots := (fname, ps.map (·.1)) :: s.roots.filter (·.1 != fname) }
  | "count" :: fname :: "live" :: a :: "reported" :: b :: _ =>
    let s := s.tick
    if a == b then return s
    else return s.diff ln "node-count" s!"forest={fname} expected(live nodes)={a} got(reported)={b}"
  | "audit" :: fname :: _ => return audit s ln fname
  | "modelop" :: res :: op :: args => return modelOp s ln res op args
  | "root" :: e :: fname :: ctok :: _ => return checkRoot s ln e fname ctok
  | "expect" :: what :: a :: b :: _ =>
    -- generic scalar observation: expect <what> <expected> <got>
    let s := (s.tick).bump s!"expect.{what}"
    if a == b then return s else return s.diff ln what s!"expected={a} got={b}"
  | k :: _ =>
    match Plugins.step s ln toks with
    | some s' => return s'
    | none => return s.diff ln "unknown-record" k

def accept (lines : Array String) : Report := Id.run do
  let mut s : St := {}
  let mut ln := 0
  for l in lines do
    ln := ln + 1
    s := stepLine s ln l
  return s.rep

end Funcs
end Meddly
