/-
  Acceptor plugin for C10: specification of the operation name `COPY`.

  `op R COPY A` / `err R COPY A <CODE>`: the operand pair carries (forest of A, table of A); the
  target forest is announced by the preceding `resforest <G>` record; `scalar copydom other` says
  that the target forest lives over another domain object.  Expected result:
    * the error code of `Spec.copyImpl` (the factory's support table) for unsupported pairs,
      `DOMAIN_MISMATCH` for another domain (checked after the set/relation test, as in copy.cc);
    * otherwise the table `Spec.conv ka kb` applied pointwise to A's table.
  A source value that is not of A's kind is reported as a spec error (never happens on a sane
  transcript).  Where the library's copy is NOT a scalar conversion (`Spec.convExact` false, or an
  identity-reduced source going to EV+ — FINDINGS F-C10-1/2 in NOTES.md) the oracle still demands
  `conv`, so such inputs show up as `op-result` DIFFs.
-/
import MeddlyModel
import Driver.Base
import Driver.Ops

namespace Meddly
namespace PCopy
open Spec

def kindOfForest (kindOf : Ops.KindOf) (f : String) : Option Kind :=
  (kindOf f).bind Kind.ofStrings

def spec : Ops.SpecFn := fun _dom kindOf op args scalars =>
  match op, args with
  | "COPY", [(fa, ta)] =>
    let resf := (scalars.find? (·.1 == "resforest")).map (·.2)
    let otherDom := (scalars.find? (·.1 == "copydom")).map (·.2) == some "other"
    match kindOfForest kindOf fa, resf.bind (kindOfForest kindOf) with
    | some ka, some kb =>
      if !(ka.legal && kb.legal) then some (.error "SPEC-ILLEGAL-KIND")
      else
        let same := resf == some fa
        match copyImpl ka kb same with
        | .error code => some (.error code)
        | .ok _ =>
          if otherDom then some (.error "DOMAIN_MISMATCH")
          else if ta.any (fun v => !(hasKind ka v)) then some (.error "SPEC-ILL-TYPED-SOURCE")
          else some (.ok (ta.map (conv ka kb)))
    | _, _ => some (.error "SPEC-NO-KIND")
  | _, _ => none

end PCopy
end Meddly
