/-
  Acceptor plugin for family `reach` (C08).

  Operation names (harness/fam_reach.cc):
      REACH_FS_FWD / REACH_FS_BWD        REACHABLE_TRAD_FS(true/false)
      REACH_NOFS_FWD / REACH_NOFS_BWD    REACHABLE_TRAD_NOFS(true/false)
      REACH_SAT_FWD / REACH_SAT_BWD      REACHABLE_SATUR(true/false, 1)
  operands: the initial set (its forest decides boolean / MT-integer distance / EV+ distance)
  and the relation.  All six names have ONE specification per kind: the least fixed point
  (Spec.reachFwd/Bwd) or the shortest distances (Spec.distFwd/Bwd); what differs is which kinds
  an algorithm is offered for (anything else must raise NOT_IMPLEMENTED).

  Record `probe <tag> rel-<rule> <outcome>`: how a forked probe scenario ended; anything but
  `returned` is a crash of the library.
-/
import MeddlyModel
import Driver.Base
import Driver.Ops

namespace Meddly
namespace PReach
open Spec Spec.ReachTables

def isReachOp (op : String) : Bool :=
  ["REACH_FS_FWD", "REACH_FS_BWD", "REACH_NOFS_FWD", "REACH_NOFS_BWD", "REACH_SAT_FWD", "REACH_SAT_BWD"].contains op

def spec : Ops.SpecFn := fun dom kindOf op args scalars =>
  if !isReachOp op then none else
  match args with
  | [(fS, init), (_fR, rel)] =>
    let fwd := op.endsWith "_FWD"
    let alg := if op.startsWith "REACH_FS" then "FS" else if op.startsWith "REACH_NOFS" then "NOFS" else "SAT"
    match kindOf fS with
    | none => some (.error "unknown-forest")
    | some (_, range, lab, _) =>
      -- rule of the result forest (MT integer distances need a fully-reduced result forest)
      let resRule : String :=
        match scalars.find? (·.1 == "resforest") with
        | some (_, f) => (match kindOf f with | some (_, _, _, r) => r | none => "fully")
        | none => "fully"
      if range == "bool" && lab == "mt" then
        some (.ok (if fwd then reachFwd dom init rel else reachBwd dom init rel))
      else if alg == "FS" then some (.error "NOT_IMPLEMENTED")
      else if range == "int" && lab == "mt" then
        if resRule != "fully" then some (.error "NOT_IMPLEMENTED")
        else some (.ok (if fwd then distFwd dom false init rel else distBwd dom false init rel))
      else if range == "int" && lab == "evp" then
        some (.ok (if fwd then distFwd dom true init rel else distBwd dom true init rel))
      else some (.error "NOT_IMPLEMENTED")
  | _ => some (.error "WRONG_NUMBER")

def step : Funcs.St → Nat → List String → Option Funcs.St := fun s ln toks =>
  match toks with
  | "probe" :: tag :: rel :: outcome :: _ =>
    let s := (s.tick).bump s!"probe.{tag}"
    if outcome == "returned" then some s
    else some (s.diff ln "crash" s!"probe={tag} {rel} expected=returned got={outcome}")
  | _ => none

end PReach
end Meddly
