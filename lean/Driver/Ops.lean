/-
  Specification oracle used by the acceptor: for an operation name and the
  tables of its operands, the table the result must have (or the error code the
  call must raise).  These are the Layer-0 definitions (Spec/*): the most naive
  reading of each operation.  Plugins (Driver/P_*.lean) add operations; each
  returns `none` for names it does not know.
-/
import MeddlyModel
import Driver.Base

namespace Meddly
namespace Ops
open Spec

/-- kind lookup: forest name ↦ (isRelation, range, labeling, rule) -/
abbrev KindOf := String → Option (Bool × String × String × String)

/-- signature of a spec plugin -/
abbrev SpecFn := Array Nat → KindOf → String → List (String × Table) → List (String × String) →
    Option (Except String Table)

def boolOp (f : Bool → Bool → Bool) (x y : Val) : Except String Val :=
  match x, y with
  | .b a, .b b => .ok (.b (f a b))
  | _, _ => .error "TYPE_MISMATCH"

def zeroOfKind (k : Bool × String × String × String) : Val :=
  if k.2.2.1 == "evp" || k.2.2.1 == "idx" then .inf
  else if k.2.1 == "bool" then .b false
  else if k.2.1 == "int" then .i 0
  else .r 0 0

/-- C04: set algebra -/
def specSet : SpecFn := fun dom _ op args _ =>
  match op, args with
  | "UNION", [(_, a), (_, b)] => some (pointwise2 (boolOp (· || ·)) a b)
  | "INTERSECTION", [(_, a), (_, b)] => some (pointwise2 (boolOp (· && ·)) a b)
  | "DIFFERENCE", [(_, a), (_, b)] => some (pointwise2 (boolOp (fun x y => x && !y)) a b)
  | "COMPLEMENT", [(_, a)] =>
    some (pointwise1 (fun x => match x with | .b v => .ok (.b (!v)) | _ => .error "TYPE_MISMATCH") a)
  | "CROSS", [(_, a), (_, b)] =>
    -- relation over the same variables: position 2k = unprimed (from a), 2k-1 = primed (from b)
    some (do
      let sizes := dom
      let rsizes := posSizes dom true
      let n := card rsizes
      let mut out : Table := Array.mkEmpty n
      for idx in [0:n] do
        let ds := digits rsizes idx
        let un := (Array.range sizes.size).map (fun k => ds.getD (2*k+1) 0)
        let pr := (Array.range sizes.size).map (fun k => ds.getD (2*k) 0)
        let va := a.getD (undigits sizes un) default
        let vb := b.getD (undigits sizes pr) default
        out := out.push (← boolOp (· && ·) va vb)
      return out)
  | _, _ => none

/-- basic numeric operations on integers with +inf (used by the policy family; the arith
    plugin, registered before this one, supersedes it) -/
def numOp (op : String) (x y : Val) : Except String Val :=
  match op, x, y with
  | "PLUS", .i a, .i b => .ok (.i (a + b))
  | "PLUS", .inf, _ => .ok .inf
  | "PLUS", _, .inf => .ok .inf
  | "MAXIMUM", .i a, .i b => .ok (.i (max a b))
  | "MAXIMUM", .inf, _ => .ok .inf
  | "MAXIMUM", _, .inf => .ok .inf
  | "MINIMUM", .i a, .i b => .ok (.i (min a b))
  | "MINIMUM", .inf, v => .ok v
  | "MINIMUM", v, .inf => .ok v
  | _, _, _ => .error "TYPE_MISMATCH"

def specNumBasic : SpecFn := fun _ _ op args _ =>
  match op, args with
  | "PLUS", [(_, a), (_, b)] => some (pointwise2 (numOp "PLUS") a b)
  | "MAXIMUM", [(_, a), (_, b)] => some (pointwise2 (numOp "MAXIMUM") a b)
  | "MINIMUM", [(_, a), (_, b)] => some (pointwise2 (numOp "MINIMUM") a b)
  | _, _ => none

end Ops
end Meddly
