/-
  Specification oracle used by the acceptor: for an operation name and the
  tables of its operands, the table the result must have (or the error code the
  call must raise).  These are the Layer-0 definitions (Spec/*): the most naive
  reading of each operation.
-/
import MeddlyModel

namespace Meddly
namespace Ops
open Spec

/-- kind lookup: forest name ↦ (isRelation, range, labeling) -/
abbrev KindOf := String → Option (Bool × String × String)

def vbool : Val → Bool := Val.isTrue

def boolOp (f : Bool → Bool → Bool) (x y : Val) : Except String Val :=
  match x, y with
  | .b a, .b b => .ok (.b (f a b))
  | _, _ => .error "TYPE_MISMATCH"

/-- transparent value of a forest kind -/
def zeroOfKind (k : Bool × String × String) : Val :=
  if k.2.2 == "evp" || k.2.2 == "idx" then .inf
  else if k.2.1 == "bool" then .b false
  else if k.2.1 == "int" then .i 0
  else .r 0 0

def spec (dom : Array Nat) (kindOf : KindOf) (op : String) (args : List (String × Table))
    (scalars : List (String × String)) : Except String Table :=
  let _ := dom; let _ := kindOf; let _ := scalars
  match op, args with
  | "UNION", [(_, a), (_, b)] => pointwise2 (boolOp (· || ·)) a b
  | "INTERSECTION", [(_, a), (_, b)] => pointwise2 (boolOp (· && ·)) a b
  | "DIFFERENCE", [(_, a), (_, b)] => pointwise2 (boolOp (fun x y => x && !y)) a b
  | "COMPLEMENT", [(_, a)] => pointwise1 (fun x => match x with | .b v => .ok (.b (!v)) | _ => .error "TYPE_MISMATCH") a
  | _, _ => .error s!"SPEC-UNKNOWN {op}"

end Ops
end Meddly
