/-
  Acceptor plugin for family `index` (C15): index sets.

  Operation `CONVERT_TO_INDEX_SET S`: the result table must be `IndexSet.indexSpec` of the set S:
  members ↦ number of members lexicographically before them, non-members ↦ +infinity.
  Records (see harness/fam_index.cc):
    elem X i -> d_top … d_1 | none | crash …   `IndexSet.getElementSpec`: the i-th member (lexicographic
                                               order) of the set X indexes; none outside 0 … n-1
    hdr F child card                           stored cardinality = number of members below that node,
                                               recounted on the last dump of F
    hdrx X card                                stored cardinality of X's root = number of members of X
-/
import MeddlyModel
import Driver.Base
import Driver.Ops

namespace Meddly
namespace PIndex
open Funcs Spec

/-- `IndexSet.indexSpec` on a table: running count of the members -/
def indexTable (a : Table) : Except String Table := do
  let mut out : Table := Array.mkEmpty a.size
  let mut n : Int := 0
  for i in [0:a.size] do
    match a.getD i default with
    | .b true => out := out.push (.i n); n := n + 1
    | .b false => out := out.push .inf
    | _ => throw "TYPE_MISMATCH"
  return out

def spec : Ops.SpecFn := fun _ _ op args _ =>
  match op, args with
  | "CONVERT_TO_INDEX_SET", [(_, a)] => some (indexTable a)
  | _, _ => none

/-- number of assignments of positions `k … 1` with a finite value below child `c` -/
partial def cntEV (nodes : List NodeRec) (S : Shape) (k : Nat) (c : Child Val) : Nat :=
  match c with
  | .tm .inf => 0
  | _ =>
    if k == 0 then (match c with | .tm _ => 1 | .nd _ => 0)
    else
      let stored : Option NodeRec := match c with
        | .nd h => (nodes.find? (·.handle == h)).bind (fun n => if n.pos == k then some n else none)
        | .tm _ => none
      match stored with
      | some n => n.down.foldl (fun acc d => acc + cntEV nodes S (k-1) d) 0
      | none => S.size k * cntEV nodes S (k-1) c

/-- leaves of an MT-bool dump tree as booleans -/
partial def toBoolDD : DD Val → DD Bool
  | .leaf v => .leaf (v == .b true)
  | .node p cs => .node p (cs.map toBoolDD)

/-! ### large product sets (closed form, no table) -/

def sortedB : List Nat → Bool
  | a :: b :: rest => decide (a < b) && sortedB (b :: rest)
  | _ => true

/-- `5:0134,4:012,...` (top variable first) -> per variable (size, sorted allowed values) -/
def parseProd (str : String) : Option (List (Nat × List Nat)) :=
  (str.splitOn ",").mapM (fun part =>
    match part.splitOn ":" with
    | [sz, ds] => do
      let n ← sz.toNat?
      let vals := ds.toList.map (fun ch => ch.toNat - '0'.toNat)
      if vals.all (· < n) && !vals.isEmpty && sortedB vals then some (n, vals) else none
    | _ => none)

/-- the closed form and its theorems (order isomorphism between [0, card) and the members) are in
    MeddlyModel/Spec/ProdSet.lean; the transcript's description must be well-formed (sorted value lists) -/
def prodCard (p : List (Nat × List Nat)) : Nat := ProdSet.card p

def prodElem (p : List (Nat × List Nat)) (i : Int) : Option (List Nat) :=
  if i < 0 || i ≥ (prodCard p : Int) then none else some (ProdSet.elem p i.toNat)

def prodRank (p : List (Nat × List Nat)) (ds : List Nat) : Option Nat := ProdSet.rank p ds

def stepProd (s : St) (ln : Nat) (toks : List String) : Option St :=
  match toks with
  | "prodelem" :: i :: "->" :: rest => some <| Id.run do
    let some p := (s.scalar? "prodset").bind parseProd | return s.diff ln "parse" "prodelem-without-prodset"
    let some idx := i.toInt? | return s.diff ln "parse" s!"bad-index {i}"
    let exp := prodElem p idx
    let s := (s.tick).bump (if exp.isSome then "prodelem.member" else "prodelem.outside")
    let expStr := match exp with | some ds => " ".intercalate (ds.map toString) | none => "none"
    let gotStr := " ".intercalate rest
    if expStr == gotStr then return s
    else return s.diff ln "get-element" s!"product-set index={i} members={prodCard p} expected={expStr} got={gotStr}"
  | "prodcard" :: how :: n :: _ => some <| Id.run do
    let some p := (s.scalar? "prodset").bind parseProd | return s.diff ln "parse" "prodcard-without-prodset"
    let s := (s.tick).bump s!"prodcard.{how}"
    if n.toNat? == some (prodCard p) then return s
    else
      let kind := if how == "header" then "header-cardinality" else "cardinality"
      return s.diff ln kind s!"product-set how={how} expected={prodCard p} got={n}"
  | "prodindex" :: rest => some <| Id.run do
    let some p := (s.scalar? "prodset").bind parseProd | return s.diff ln "parse" "prodindex-without-prodset"
    let ds := rest.takeWhile (· != "->")
    let got := (rest.dropWhile (· != "->")).drop 1
    let digits := ds.filterMap String.toNat?
    if digits.length != ds.length then return s.diff ln "parse" s!"bad-digits {ds}"
    let exp := match prodRank p digits with | some r => toString r | none => "inf"
    let s := (s.tick).bump (if exp == "inf" then "prodindex.nonmember" else "prodindex.member")
    if got == [exp] then return s
    else return s.diff ln "op-result" s!"product-set evaluate at=[{" ".intercalate ds}] expected={exp} got={" ".intercalate got}"
  | _ => none

def step (s : St) (ln : Nat) (toks : List String) : Option St :=
  match stepProd s ln toks with
  | some s' => some s'
  | none =>
  match toks with
  | "elem" :: x :: i :: "->" :: rest => some <| Id.run do
    let some (fname, t) := s.table? x | return s.diff ln "elem" s!"no-table-for {x}"
    let some f := s.forest? fname | return s.diff ln "elem" s!"unknown-forest {fname}"
    let some idx := i.toInt? | return s.diff ln "parse" s!"bad-index {i}"
    let sizes := sizesOf s f
    -- members in lexicographic order = increasing table index
    let members := (List.range t.size).filter (fun j => t.getD j default != .inf)
    let exp : Option (List Nat) :=
      if idx < 0 then none else (members[idx.toNat]?).map (fun j => (digits sizes j).toList.reverse)
    let expStr := match exp with | some ds => PIterShow ds | none => "none"
    let s := (s.tick).bump (if exp.isSome then "elem.member" else if members.isEmpty then "elem.none.emptyset" else "elem.none.outside")
    match rest with
    | "crash" :: how =>
      return s.diff ln "crash" s!"getElement edge={x} index={i} members={members.length} expected={expStr} got=crash {" ".intercalate how}"
    | ["none"] =>
      if exp.isNone then return s
      else return s.diff ln "get-element" s!"edge={x} index={i} expected={expStr} got=none"
    | ds =>
      let got := ds.map String.toNat?
      if got.any Option.isNone then
        return s.diff ln "get-element" s!"edge={x} index={i} expected={expStr} got={" ".intercalate ds}"
      else if exp == some (got.filterMap id) then
        -- cross-check with the index function: the value at that member is i
        let j := undigits sizes (got.filterMap id).reverse.toArray
        if t.getD j default == .i idx then return s
        else return s.diff ln "get-element" s!"edge={x} index={i} member-has-index={t.getD j default}"
      else return s.diff ln "get-element" s!"edge={x} index={i} expected={expStr} got={" ".intercalate ds}"
  | "hdr" :: fname :: ctok :: card :: _ => some <| Id.run do
    let some f := s.forest? fname | return s.diff ln "hdr" s!"unknown-forest {fname}"
    let some (c, _) := parseChild ctok | return s.diff ln "parse" s!"bad-child {ctok}"
    let recs := (s.nodes.filter (·.1 == fname)).map (·.2)
    let S := shapeOf s f
    let s := (s.tick).bump "hdr"
    let k := match c with
      | .nd h => ((recs.find? (·.handle == h)).map (·.pos)).getD 0
      | .tm _ => 0
    match c with
    | .nd h =>
      if !(recs.any (·.handle == h)) then
        return s.diff ln "hdr" s!"forest={fname} node={ctok} not-in-last-dump"
      else
        let exp := cntEV recs S k c
        if card.toNat? == some exp then return s
        else return s.diff ln "header-cardinality" s!"forest={fname} node={ctok} expected={exp} got={card}"
    | .tm _ =>
      let exp := cntEV recs S 0 c
      if card.toNat? == some exp then return s
      else return s.diff ln "header-cardinality" s!"forest={fname} node={ctok} expected={exp} got={card}"
  | "modelidx" :: x :: _src :: fname :: ctok :: _ => some <| Id.run do
    -- structural tie: model conversion + model getElement on the unfolded real source structure
    let some f := s.forest? fname | return s.diff ln "modelidx" s!"unknown-forest {fname}"
    let some (c, _) := parseChild ctok | return s.diff ln "parse" s!"bad-child {ctok}"
    let some (_, t) := s.table? x | return s.diff ln "modelidx" s!"no-table-for {x}"
    let recs := (s.nodes.filter (·.1 == fname)).map (·.2)
    let D : Dump Val := recs.map (fun n => { handle := n.handle, pos := n.pos, down := n.down })
    let S := shapeOf s f
    let sizes := sizesOf s f
    let tree := toBoolDD (D.unfold (.b false) S.top c)
    let r := IndexSet.toIndex S S.top tree
    let mut s := (s.tick).bump "model-toIndex-on-dump"
    -- evaluation of the model's index tree against the table of the library's index set
    let mt : Table := (Array.range (card sizes)).map (fun idx =>
      match IndexSet.evalIX r.2 (digits sizes idx).toList.reverse with
      | some n => Val.i n
      | none => Val.inf)
    if !(tablesAgree mt t) then
      let i := (firstDiff mt t).getD 0
      s := s.diff ln "model-index-vs-table" s!"edge={x} index={i} expected(model toIndex on dump)={mt.getD i default} got={t.getD i default}"
    let n := (t.toList.filter (· != .inf)).length
    if r.1 != n || r.2.hdr != n then
      s := s.diff ln "model-index-vs-table" s!"edge={x} model-cardinality={r.1} header={r.2.hdr} members={n}"
    -- the model getElement (backward scan) for i = -1 .. n+1 against the table
    let members := (List.range t.size).filter (fun j => t.getD j default != .inf)
    for k in [0:n+3] do
      let i : Int := (k : Int) - 1
      let exp : Option (List Nat) :=
        if i < 0 then none else (members[i.toNat]?).map (fun j => (digits sizes j).toList.reverse)
      let got := IndexSet.getElement S.top r.2 i
      if got != exp then
        s := s.diff ln "model-getelement-vs-table" s!"edge={x} index={i} expected(table)={exp} got(model getElement)={got}"
    return s
  | "hdrx" :: x :: card :: _ => some <| Id.run do
    let some (_, t) := s.table? x | return s.diff ln "hdr" s!"no-table-for {x}"
    let exp := (t.toList.filter (· != .inf)).length
    let s := (s.tick).bump "hdr.root"
    if card.toNat? == some exp then return s
    else return s.diff ln "header-cardinality" s!"edge={x} root expected={exp} got={card}"
  | _ => none
where
  PIterShow (ds : List Nat) : String := " ".intercalate (ds.map toString)

end PIndex
end Meddly
