import MeddlyModel.Basic.Val
import MeddlyModel.Core.DD
import MeddlyModel.Core.Canon
