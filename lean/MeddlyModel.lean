import MeddlyModel.Core.DD
