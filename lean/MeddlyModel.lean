import MeddlyModel.Basic.Val
import MeddlyModel.Basic.Report
import MeddlyModel.Core.DD
import MeddlyModel.Core.Canon
import MeddlyModel.Core.Dump
