import Driver.Base
import Driver.Ops
import Driver.Plugins
import Driver.Funcs
import Driver.Main
