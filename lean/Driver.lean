import Driver.Ops
import Driver.Funcs
import Driver.Main
