import Driver.Main
