/-
  Acceptor for the `memman` harness family (C18).

  Transcript grammar (one record per line, tokens separated by one blank):
    family memman | seed <n> | tier <t> | stat <key> <n> | done <rc> | crash ...
    case <i> ... endcase
    mm <style> <gran> <minsize> <firstMSB> <lastMSB> <manual>      style ∈ orig|array|heap|malloc|free
    req <id> <want> <got> <handle>
    reqerr <want> <error>
    rec <id> <handle> <size>
    scan <nlive> <nslots> <nbad> <ninvalid>
    bad <id> <slot> | inval <id> | ovl <id> <id'>
    tile <end> <n> <tok>*      tok = L<a>:<s> | l<a>:<s> | H<a>:<s> | U<a> | X<a>
    drop <nlive>
  Every `req`/`rec` is validated with `Alloc.legal` (all styles; handles are nondeterministic
  choices of the library, never predicted), with `Tiling.step` (hole-based styles) and with
  `FreeList.step` (free lists); every `tile` record is checked against `Tiling.inv`, against the
  client's live chunks and against the arena of the tiling model.
-/
import MeddlyModel.Basic.Report
import MeddlyModel.State.MemMan

namespace Meddly
open MemMan

namespace MemManAcc

structure St where
  rep : Report := {}
  caseNo : Nat := 0
  inCase : Bool := false
  style : Option Style := none
  /-- (id, chunk) of every live chunk, newest first; `live.map (·.2)` is the `Alloc` state -/
  live : List (Nat × Chunk) := []
  nextId : Nat := 0
  /-- arena of the tiling model; `none` = not hole-based, or out of sync until the next `tile` -/
  tiling : Option Tiling.State := none
  fl : Option FreeList.State := none
  sawDone : Bool := false
  nReq : Nat := 0
  nRec : Nat := 0
  nScan : Nat := 0
  nTile : Nat := 0
  deriving Inhabited

def St.diff (s : St) (line : Nat) (kind expected got : String) : St :=
  { s with rep := s.rep.addDiff s!"line={line} case={s.caseNo} kind={kind} expected={expected} got={got}" }
def St.tick (s : St) (n : Nat := 1) : St := { s with rep := s.rep.tick n }
def St.bump (s : St) (k : String) (n : Nat := 1) : St := { s with rep := s.rep.bump k n }

def chunkStr (c : Chunk) : String := s!"({c.h},{c.size})"

def allocState (s : St) : Alloc.State := s.live.map (·.2)

/-- why a request is illegal for `Alloc` -/
def whyIllegal (m : Mode) (st : Alloc.State) (want got h : Nat) : String :=
  if want < 1 then "want<1"
  else if got < want then s!"got<want"
  else if h < 1 then "null-handle"
  else match st.find? (fun c => !decide (disjoint m ⟨h, got⟩ c)) with
    | some c => s!"overlaps-live-chunk{chunkStr c}"
    | none => "?"

inductive Tok where
  | live (inUse : Bool) (a n : Nat)
  | hole (a n : Nat)
  | unknown (a : Nat)
  | stuck (a : Nat)
  | garbage (s : String)

def parseTok (t : String) : Tok :=
  let k : String := (t.take 1).copy
  let rest : List String := (t.drop 1).copy.splitOn ":"
  match k, rest.map String.toNat? with
  | "L", [some a, some n] => .live true a n
  | "l", [some a, some n] => .live false a n
  | "H", [some a, some n] => .hole a n
  | "U", [some a] => .unknown a
  | "X", [some a] => .stuck a
  | _, _ => .garbage t

/-- tiles + the address each token claims; `none` if some token is not a tile -/
def toksToTiles : List Tok → Option (List (Nat × Tile))
  | [] => some []
  | .live true a n :: r => (toksToTiles r).map (fun l => (a, ⟨true, n⟩) :: l)
  | .hole a n :: r => (toksToTiles r).map (fun l => (a, ⟨false, n⟩) :: l)
  | _ :: _ => none

/-- addresses are contiguous starting at `a` -/
def contiguous (a : Nat) : List (Nat × Tile) → Bool
  | [] => true
  | (b, t) :: r => a == b && contiguous (a + t.size) r

/-- hole size at handle `h`, if a hole starts there -/
def holeAt (a h : Nat) : List Tile → Option Nat
  | [] => none
  | t :: ts => if a == h then (if t.live then none else some t.size) else holeAt (a + t.size) h ts

/-- (left neighbour is a hole, right neighbour is a hole, is last tile) of the tile at `h` -/
def neighbours (a h : Nat) (prevHole : Bool) : List Tile → Option (Bool × Bool × Bool)
  | [] => none
  | t :: ts =>
    if a == h then
      match ts with
      | [] => some (prevHole, false, true)
      | u :: _ => some (prevHole, !u.live, false)
    else neighbours (a + t.size) h (!t.live) ts

def tilesStr (ts : List Tile) : String :=
  " ".intercalate (ts.map fun t => (if t.live then "L" else "H") ++ toString t.size)

def handleReq (s : St) (line : Nat) (sty : Style) (id want got h : Nat) : St := Id.run do
  let mut s := s
  let sn := sty.name
  let m := sty.mode
  let op := Op.request want got h
  s := { s with nReq := s.nReq + 1 }
  if id != s.nextId then
    s := s.diff line "req-id" (toString s.nextId) (toString id)
  s := { s with nextId := id + 1 }
  if let some mx := sty.maxRequest then
    if want > mx then
      s := s.diff line "req-too-big" "error" s!"handle={h}"
  -- (a) the specification automaton
  let ast := allocState s
  if decide (Alloc.legal m ast op) then
    s := (s.tick).bump "alloc.req.ok"
  else
    s := s.diff line "alloc-request" "legal(got>=want>=1,handle>=1,disjoint-from-live)"
      s!"want={want},got={got},handle={h}:{whyIllegal m ast want got h}"
  if got > want then s := s.bump "req.got>want"
  -- (b) tiling refinement
  if sty.holeBased then
    match s.tiling with
    | none => s := s.bump "tiling.unsynced"
    | some t =>
      match Tiling.step t op with
      | some t' =>
        s := s.tick
        let e := Tiling.endFrom 1 t
        if h == e then s := s.bump s!"tiling.{sn}.req.extend"
        else match holeAt 1 h t with
          | some hs =>
            if hs == got then s := s.bump s!"tiling.{sn}.req.exactFit"
            else if hs - got < sty.minTracked then s := s.bump s!"tiling.{sn}.req.split.untrackedRemainder"
            else s := s.bump s!"tiling.{sn}.req.split"
          | none => s := s.bump s!"tiling.{sn}.req.?"
        s := { s with tiling := some t' }
      | none =>
        s := s.diff line "tiling-request" "start-of-a-hole>=want,or-end-of-arena,got=want"
          s!"want={want},got={got},handle={h},end={Tiling.endFrom 1 t}"
        s := { s with tiling := none }
  -- free lists
  if sty == .freeLists then
    match s.fl with
    | none => pure ()
    | some f =>
      match FreeList.step f op with
      | some f' =>
        s := s.tick
        s := s.bump (if h == f.fin then "freelist.req.fresh" else "freelist.req.reuse")
        s := { s with fl := some f' }
      | none =>
        s := s.diff line "freelist-request" "recycled-chunk-of-exactly-this-size-or-end-of-array"
          s!"want={want},got={got},handle={h},fin={f.fin}"
        s := { s with fl := none }
  if h != 0 && got != 0 then
    s := { s with live := (id, ⟨h, got⟩) :: s.live }
  return s

def handleRec (s : St) (line : Nat) (sty : Style) (id h n : Nat) : St := Id.run do
  let mut s := s
  let sn := sty.name
  let m := sty.mode
  let op := Op.recycle h n
  s := { s with nRec := s.nRec + 1 }
  match s.live.find? (fun e => e.1 == id) with
  | none => s := s.diff line "rec-id" "id-of-a-live-chunk" (toString id)
  | some e =>
    if e.2 != ⟨h, n⟩ then
      s := s.diff line "rec-extent" (chunkStr e.2) (chunkStr ⟨h, n⟩)
    else s := s.tick
  let ast := allocState s
  if decide (Alloc.legal m ast op) then
    s := (s.tick).bump "alloc.rec.ok"
  else
    s := s.diff line "alloc-recycle" "chunk-is-live" (chunkStr ⟨h, n⟩)
  if sty.holeBased then
    match s.tiling with
    | none => s := s.bump "tiling.unsynced"
    | some t =>
      match Tiling.step t op with
      | some t' =>
        s := s.tick
        match neighbours 1 h false t with
        | some (l, r, last) =>
          -- after a left merge the hole may be the last tile: then the array shrinks
          let key :=
            if last then (if l then s!"tiling.{sn}.rec.mergeLeft+shrink" else s!"tiling.{sn}.rec.shrink")
            else if l && r then s!"tiling.{sn}.rec.mergeBoth"
            else if l then s!"tiling.{sn}.rec.mergeLeft"
            else if r then s!"tiling.{sn}.rec.mergeRight"
            else s!"tiling.{sn}.rec.isolated"
          s := s.bump key
        | none => s := s.bump s!"tiling.{sn}.rec.?"
        s := { s with tiling := some t' }
      | none =>
        s := s.diff line "tiling-recycle" "live-tile" (chunkStr ⟨h, n⟩)
        s := { s with tiling := none }
  if sty == .freeLists then
    match s.fl with
    | none => pure ()
    | some f =>
      match FreeList.step f op with
      | some f' => s := { s.tick with fl := some f' }
      | none => s := { s with fl := none }
  s := { s with live := s.live.filter (fun e => e.1 != id) }
  return s

def handleTile (s : St) (line : Nat) (sty : Style) (endTok : String) (nTok : String)
    (toks : List String) : St := Id.run do
  let mut s := s
  s := { s with nTile := s.nTile + 1 }
  if !sty.holeBased then
    return s.diff line "tile" "no-tile-record-for-this-style" "tile"
  let ts := toks.map parseTok
  if nTok.toNat? != some ts.length then
    s := s.diff line "tile-count" nTok (toString ts.length)
  -- tokens that must never occur
  for t in ts do
    match t with
    | .live false a n => s := s.diff line "tile-live-not-in-use" "isAddressInUse=true" s!"chunk({a},{n})"
    | .unknown a => s := s.diff line "tile-unknown-in-use" "hole-or-client-chunk" s!"addr={a}"
    | .stuck a => s := s.diff line "tile-stuck" "getNextAddress>addr" s!"addr={a}"
    | .garbage g => s := s.diff line "tile-token" "L|l|H|U|X" g
    | _ => pure ()
  match toksToTiles ts with
  | none =>
    s := { s with tiling := none }
  | some ats =>
    let obs := ats.map (·.2)
    -- partition: contiguous from slot 1, ends where the manager says the arena ends
    if contiguous 1 ats then s := s.tick
    else s := s.diff line "tile-contiguous" "tiles-contiguous-from-1" (" ".intercalate toks)
    let e := Tiling.endFrom 1 obs
    if endTok.toNat? == some e then s := s.tick
    else s := s.diff line "tile-end" (toString e) endTok
    -- invariant of the hole-based managers on the REAL arena
    if Tiling.inv obs then s := s.tick
    else s := s.diff line "tile-inv" "positive-sizes,no-adjacent-holes,last-tile-live" (tilesStr obs)
    -- live tiles = the client's live chunks
    let mine := (allocState s).mergeSort (fun a b => a.h ≤ b.h)
    if Tiling.proj obs == mine then s := s.tick
    else
      s := s.diff line "tile-live" (" ".intercalate (mine.map chunkStr))
        (" ".intercalate ((Tiling.proj obs).map chunkStr))
    -- real arena = arena of the tiling model
    match s.tiling with
    | some t =>
      if t == obs then s := (s.tick).bump "tiling.arena.equal"
      else s := s.diff line "tile-model" (tilesStr t) (tilesStr obs)
    | none => s := s.bump "tiling.resync"
    s := (s.bump "tile.holes" (obs.filter (fun t => !t.live)).length)
    s := { s with tiling := some obs }
  return s

def nat? (s : String) : Option Nat := s.toNat?

def stepLine (s : St) (line : Nat) (l : String) : St :=
  let w := l.splitOn " "
  match w with
  | ["family", f] => if f == "memman" then s else s.diff line "family" "memman" f
  | ["seed", _] => s
  | ["tier", _] => s
  | ["stat", k, v] =>
    let chk (s : St) (mine : Nat) : St :=
      if v.toNat? == some mine then s.tick else s.diff line s!"stat-{k}" (toString mine) v
    if k == "op.req" then chk s s.nReq
    else if k == "op.rec" then chk s s.nRec
    else if k == "scan.records" then chk s s.nScan
    else if k == "tile.records" then chk s s.nTile
    else s
  | ["done", rc] =>
    let s := { s with sawDone := true }
    if rc == "0" then s else s.diff line "done" "0" rc
  | "crash" :: rest => s.diff line "crash" "no-crash" (" ".intercalate rest)
  | ["case", i] =>
    let s := if s.inCase then s.diff line "case" "endcase-before-next-case" l else s
    { s with caseNo := i.toNat?.getD 0, inCase := true, style := none, live := [], nextId := 0,
             tiling := none, fl := none }.bump "cases"
  | ["endcase"] =>
    let s := if s.inCase then s else s.diff line "endcase" "inside-case" l
    { s with inCase := false, style := none }
  | ["mm", sn, g, ms, f, la, man] =>
    match Style.ofName sn, nat? g, nat? ms, nat? f, nat? la, nat? man with
    | some sty, some g, some _, some f, some la, some man =>
      let s := { s with style := some sty,
                        tiling := if sty.holeBased then some [] else none,
                        fl := if sty == Style.freeLists then some FreeList.init else none }
      let s := (s.bump s!"style.{sn}").bump s!"gran.{g}"
      let s := if g == 4 || g == 8 then s else s.diff line "mm-gran" "4|8" (toString g)
      let b (x : Bool) : Nat := if x then 1 else 0
      let s := if f == b sty.mustClearMSB then s.tick else s.diff line "mm-firstMSB" (toString (b sty.mustClearMSB)) (toString f)
      let s := if la == b sty.mustClearMSB then s.tick else s.diff line "mm-lastMSB" (toString (b sty.mustClearMSB)) (toString la)
      if man == b sty.manual then s.tick else s.diff line "mm-manual" (toString (b sty.manual)) (toString man)
    | _, _, _, _, _, _ => s.diff line "mm" "mm <style> <gran> <minsize> <f> <l> <m>" l
  | "nomm" :: _ => s.diff line "nomm" "manager-created" l
  | ["req", id, want, got, h] =>
    match s.style, nat? id, nat? want, nat? got, nat? h with
    | some sty, some id, some want, some got, some h => handleReq s line sty id want got h
    | _, _, _, _, _ => s.diff line "req" "req <id> <want> <got> <handle> after mm" l
  | ["reqerr", want, err] =>
    match s.style, nat? want with
    | some sty, some want =>
      match sty.maxRequest with
      | some mx =>
        if want > mx && err == "MISCELLANEOUS" then (s.tick).bump "req.toobig.error"
        else s.diff line "reqerr" s!"chunk-of-{want}-slots" err
      | none => s.diff line "reqerr" s!"chunk-of-{want}-slots" err
    | _, _ => s.diff line "reqerr" "reqerr <want> <error> after mm" l
  | ["rec", id, h, n] =>
    match s.style, nat? id, nat? h, nat? n with
    | some sty, some id, some h, some n => handleRec s line sty id h n
    | _, _, _, _ => s.diff line "rec" "rec <id> <handle> <size> after mm" l
  | ["scan", nl, ns, nb, ni] =>
    let s := { s with nScan := s.nScan + 1 }
    match nat? nl, nat? ns, nat? nb, nat? ni with
    | some nl, some ns, some nb, some ni =>
      let st := allocState s
      let tot := st.foldl (fun a c => a + c.size) 0
      let s := if nl == st.length then s.tick else s.diff line "scan-nlive" (toString st.length) (toString nl)
      let s := if ns == tot || ni != 0 then s.tick else s.diff line "scan-nslots" (toString tot) (toString ns)
      let s := if nb == 0 then s.tick ns else s.diff line "scan-bad" "0-changed-slots" (toString nb)
      let s := if ni == 0 then s.tick else s.diff line "scan-invalid" "0-invalid-handles" (toString ni)
      s.bump "scan.slots" ns
    | _, _, _, _ => s.diff line "scan" "scan <nlive> <nslots> <nbad> <ninvalid>" l
  | ["bad", id, slot] => s.diff line "bad" "live-slot-unchanged" s!"chunk-id={id},slot={slot}"
  | ["inval", id] => s.diff line "inval" "isValidHandle(live-chunk)" s!"chunk-id={id}"
  | ["ovl", a, b] => s.diff line "ovl" "byte-ranges-disjoint" s!"chunk-ids={a},{b}"
  | "tile" :: e :: n :: toks =>
    match s.style with
    | some sty => handleTile s line sty e n toks
    | none => s.diff line "tile" "after-mm" l
  | ["drop", n] =>
    let s := if nat? n == some s.live.length then s.tick else s.diff line "drop" (toString s.live.length) n
    { s with live := [], tiling := none, fl := none }
  | _ => s.diff line "unknown-record" "known-record-kind" l

def runLines (lines : List String) : St :=
  let rec go (s : St) (n : Nat) : List String → St
    | [] => s
    | l :: ls => go (if l.isEmpty then s else stepLine s n l) (n + 1) ls
  go {} 1 lines

end MemManAcc

def acceptMemMan (lines : Array String) : Report :=
  let s := MemManAcc.runLines lines.toList
  let s := if s.inCase then s.diff lines.size "eof" "endcase" "end-of-transcript-inside-case" else s
  let s := if s.sawDone then s else s.diff lines.size "eof" "done 0" "no-done-record"
  s.rep

end Meddly
