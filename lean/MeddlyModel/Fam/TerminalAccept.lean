/-
  Acceptor of the harness family `terminal` (C19).

  Every record of the transcript is an observation of the REAL library (class `terminal`, and
  forests built on it); it is recomputed here with the GENERATED definitions of
  `MeddlyModel/Gen/Terminal.lean` (integers, reals, booleans as terminal handles) and with the
  hand-written edge-value model of `MeddlyModel/State/Terminal.lean` (EV+, EV*), and compared.
  (It deliberately does NOT import Props/C19.lean: when terminal.h changes so that the proofs break, the
  differential run still works and tells whether the translation is faithful.)

  Grammar (one record per line; `<h>` = node handle in signed decimal, `<v>` = C++ long in signed
  decimal, `<bits>` = float bit pattern as 8 lower-case hex digits, `<E>` = MEDDLY error name):

    family terminal | seed <n> | tier <t> | stat <key> <n> | done <rc> | crash ...
    case <i> <what...>  ...  endcase
    ei <v> -> <h> | overflow | err <E>          terminal(long, INTEGER).getHandle()
    di <h> -> <v>                               terminal(INTEGER, h).getInteger()
    er <bits> -> <h>                            terminal(float|double [, REAL]).getHandle()
    dr <h> -> <bits>                            float(terminal(REAL, h).getReal())
    eb <T|F> -> <h>                             terminal(bool [, BOOLEAN]).getHandle()
    db <h> -> <T|F> | err <E>                   terminal(BOOLEAN, h).getBoolean()
    fh <int|real|bool> <value> -> <h> | overflow | err <E>        forest::handleForValue
    fv <int|real|bool> <h> -> <value> | err <E>                   forest::getValueFromHandle
    const <kind> <value> -> <value> | overflow | err <E>          createConstant ; evaluate
    cedge <kind> <value> -> <node> <edge value | ->               createConstant: the raw edge
  kinds: mtint mtintq mtreal mtrealq mtrealp mtbool evp evpq evt evtq ; values: <v> | inf | <bits> | T | F
  (q = quasi-reduced; mtrealq has terminal precision 0; mtrealp = quasi-reduced with the library's DEFAULT
   terminal precision 1e-5, see `roundTermprec`)
-/
import MeddlyModel.Basic.Report
import MeddlyModel.Gen.Terminal
import MeddlyModel.State.Terminal

namespace Meddly.TerminalAccept
open Gen.Terminal Meddly.TerminalEV

/-! ### parsing / printing -/

def hexDigit? (c : Char) : Option Nat :=
  if '0' ≤ c ∧ c ≤ '9' then some (c.toNat - '0'.toNat)
  else if 'a' ≤ c ∧ c ≤ 'f' then some (c.toNat - 'a'.toNat + 10)
  else none

/-- exactly 8 lower-case hex digits -/
def parseBits? (s : String) : Option (BitVec 32) :=
  let cs := s.toList
  if cs.length != 8 then none
  else
    (cs.foldl (fun acc c => match acc, hexDigit? c with
      | some a, some d => some (a * 16 + d)
      | _, _ => none) (some 0)).map (BitVec.ofNat 32)

def hex8 (b : BitVec 32) : String :=
  let ds := Nat.toDigits 16 b.toNat
  String.ofList (List.replicate (8 - ds.length) '0' ++ ds)

def parseLong? (s : String) : Option (BitVec 64) :=
  match s.toInt? with
  | some v => if -9223372036854775808 ≤ v ∧ v ≤ 9223372036854775807 then some (BitVec.ofInt 64 v) else none
  | none => none

def parseHandle? (s : String) : Option (BitVec 32) :=
  match s.toInt? with
  | some v => if -2147483648 ≤ v ∧ v ≤ 2147483647 then some (BitVec.ofInt 32 v) else none
  | none => none

def parseBool? (s : String) : Option Bool :=
  if s == "T" then some true else if s == "F" then some false else none

def showBool (b : Bool) : String := if b then "T" else "F"
def showH (h : BitVec 32) : String := toString h.toInt
def showL (v : BitVec 64) : String := toString v.toInt

/-- how the harness prints a thrown MEDDLY error -/
def errToken (codes : List String) : String :=
  match codes with
  | c :: _ => if c == "VALUE_OVERFLOW" then "overflow" else "err " ++ c
  | [] => "err ?"

/-! ### the model's answer to every record kind (a string, formatted like the harness does) -/

def expEncInt (v : BitVec 64) : String :=
  match encInt v with
  | .ok h => showH h
  | .error _ => errToken encInt_throws

def expDecBool (h : BitVec 32) : String :=
  match decBool h with
  | .ok b => showBool b
  | .error _ => errToken decBool_throws

/-- value tokens of `const` / `cedge` records -/
inductive CVal where
  | int (v : BitVec 64)
  | inf
  | real (b : BitVec 32)
  | bool (b : Bool)

/-- kinds: the class of forest, ignoring the reduction rule -/
inductive FKind where
  | mtint | mtreal | mtrealp | mtbool | evp | evt
  deriving DecidableEq

def parseKind? (s : String) : Option FKind :=
  if s == "mtint" || s == "mtintq" then some .mtint
  else if s == "mtreal" || s == "mtrealq" then some .mtreal
  else if s == "mtrealp" then some .mtrealp
  else if s == "mtbool" then some .mtbool
  else if s == "evp" || s == "evpq" then some .evp
  else if s == "evt" || s == "evtq" then some .evt
  else none

def parseCVal? (k : FKind) (s : String) : Option CVal :=
  match k with
  | .mtint | .evp => if s == "inf" then some .inf else (parseLong? s).map .int
  | .mtreal | .mtrealp | .evt => (parseBits? s).map .real
  | .mtbool => (parseBool? s).map .bool

/-- HAND-WRITTEN model of the rounding in `forest::createReducedNode` (forest.cc, case MULTI_TERMINAL,
    `termprec` ≠ 0): a real terminal handle `h ≠ 0` below a node is replaced by the handle of
    `float( round(double(value) / termprec) * termprec )`, `termprec` = 1e-5 by default
    (`setTerminalPrecision`, documented in docs/_releases/0.17.8.md).  Uses Lean's opaque IEEE `Float`
    (the same machine arithmetic as the C++ code); it is outside the proved part and tied to the
    library only by the differential run. -/
def roundTermprec (h : BitVec 32) : BitVec 32 :=
  if h == 0#32 then h
  else
    let prec : Float := Float.ofBits 0x3EE4F8B588E368F1      -- the double 1e-5
    let d : Float := (Float32.ofBits (UInt32.ofNat (decRealBits h).toNat)).toFloat
    let r : Float := Float.round (d / prec) * prec
    encRealBits (BitVec.ofNat 32 r.toFloat32.toBits.toNat)

/-- createConstant followed by evaluate -/
def expConst (k : FKind) (x : CVal) : Option String :=
  match k, x with
  | .mtint, .int v =>
      some (match encInt v with
        | .ok h => showL (decInt h)
        | .error _ => errToken encInt_throws)
  | .mtint, .inf => some "err NOT_IMPLEMENTED"       -- multi-terminal forests have no infinity (documented)
  | .mtreal, .real b => some (hex8 (decRealBits (encRealBits b)))
  | .mtrealp, .real b => some (hex8 (decRealBits (roundTermprec (encRealBits b))))
  | .mtbool, .bool b =>
      some (match decBool (encBool b) with
        | .ok r => showBool r
        | .error _ => errToken decBool_throws)
  | .evp, .int v =>
      some (match evpDecode (evpEncode (.fin v)) with
        | .fin r => showL r
        | .inf => "inf")
  | .evp, .inf =>
      some (match evpDecode (evpEncode .inf) with
        | .fin r => showL r
        | .inf => "inf")
  | .evt, .real b => some (hex8 (evtDecode (evtEncode b)))
  | _, _ => none

/-- the raw edge produced by createConstant in a fully-reduced forest -/
def expEdge (k : FKind) (x : CVal) : Option String :=
  match k, x with
  | .mtint, .int v =>
      some (match encInt v with
        | .ok h => showH h ++ " -"
        | .error _ => errToken encInt_throws)
  | .mtreal, .real b => some (showH (encRealBits b) ++ " -")
  | .mtbool, .bool b => some (showH (encBool b) ++ " -")
  | .evp, .int v => let e := evpEncode (.fin v); some (showH e.node ++ " " ++ showL e.value)
  | .evp, .inf => let e := evpEncode .inf; some (showH e.node ++ " " ++ showL e.value)
  | .evt, .real b => let e := evtEncode b; some (showH e.node ++ " " ++ hex8 e.value)
  | _, _ => none

/-! ### the line loop -/

structure St where
  rep : Report := {}
  line : Nat := 0
  cur : Option String := none      -- current case
  family : Bool := false
  done : Bool := false
  suppressed : Nat := 0

def maxDiffs : Nat := 500

def St.diff (s : St) (kind msg : String) : St :=
  if s.rep.diffs.size < maxDiffs then
    { s with rep := s.rep.addDiff s!"line={s.line} case={s.cur.getD "-"} kind={kind} {msg}" }
  else { s with suppressed := s.suppressed + 1 }

/-- compare the model's answer with what the library did -/
def St.check (s : St) (kind input : String) (expected : Option String) (got : String) : St :=
  match expected with
  | none => s.diff kind s!"input={input} unparsable-or-illegal-input got={got}"
  | some e =>
    let s := { s with rep := s.rep.tick }
    if e == got then s else s.diff kind s!"input={input} expected={e} got={got}"

def joinSp (l : List String) : String := " ".intercalate l

/-- split `a b c -> x y` into (["a","b","c"], "x y") -/
def splitArrow (toks : List String) : Option (List String × String) :=
  let rec go (acc : List String) : List String → Option (List String × String)
    | [] => none
    | t :: rest => if t == "->" then some (acc.reverse, joinSp rest) else go (t :: acc) rest
  go [] toks

def stepRecord (s : St) (kind : String) (args : List String) (got : String) : St :=
  let s := { s with rep := s.rep.bump kind }
  let s := if s.cur.isNone then s.diff kind "record outside case…endcase" else s
  match kind, args with
  | "ei", [v] => s.check kind v ((parseLong? v).map expEncInt) got
  | "di", [h] => s.check kind h ((parseHandle? h).map fun x => showL (decInt x)) got
  | "er", [b] =>
      s.check kind b ((parseBits? b).bind fun x => if isNaNBits x then none else some (showH (encRealBits x))) got
  | "dr", [h] =>
      s.check kind h ((parseHandle? h).bind fun x =>
        let r := decRealBits x
        if isNaNBits r then none else some (hex8 r)) got
  | "eb", [x] => s.check kind x ((parseBool? x).map fun b => showH (encBool b)) got
  | "db", [h] => s.check kind h ((parseHandle? h).map expDecBool) got
  | "fh", ["int", v] => s.check "fh.int" v ((parseLong? v).map expEncInt) got
  | "fh", ["real", b] =>
      s.check "fh.real" b ((parseBits? b).bind fun x => if isNaNBits x then none else some (showH (encRealBits x))) got
  | "fh", ["bool", x] => s.check "fh.bool" x ((parseBool? x).map fun b => showH (encBool b)) got
  | "fv", ["int", h] => s.check "fv.int" h ((parseHandle? h).map fun x => showL (decInt x)) got
  | "fv", ["real", h] =>
      s.check "fv.real" h ((parseHandle? h).bind fun x =>
        let r := decRealBits x
        if isNaNBits r then none else some (hex8 r)) got
  | "fv", ["bool", h] => s.check "fv.bool" h ((parseHandle? h).map expDecBool) got
  | "const", [k, v] =>
      let s :=
        if k == "mtrealp" then
          match parseBits? v with
          | some b =>
              let h := encRealBits b
              let h' := roundTermprec h
              if h' == h then { s with rep := s.rep.bump "termprec.unchanged" }
              else if h' == 0#32 then { s with rep := s.rep.bump "termprec.nonzero-became-transparent" }
              else { s with rep := s.rep.bump "termprec.rounded" }
          | none => s
        else s
      s.check s!"const.{k}" v ((parseKind? k).bind fun fk => (parseCVal? fk v).bind (expConst fk)) got
  | "cedge", [k, v] =>
      s.check s!"cedge.{k}" v ((parseKind? k).bind fun fk => (parseCVal? fk v).bind (expEdge fk)) got
  | _, _ => s.diff kind s!"malformed-record args={joinSp args} got={got}"

def step (s : St) (ln : String) : St :=
  let s := { s with line := s.line + 1 }
  if ln.isEmpty then s else
  let toks := ln.splitOn " "
  match toks with
  | [] => s
  | kind :: rest =>
    match kind with
    | "family" =>
        if rest == ["terminal"] then { s with family := true } else s.diff kind s!"unexpected family {joinSp rest}"
    | "seed" => s
    | "tier" => s
    | "stat" => s
    | "done" =>
        let s := { s with done := true }
        let s := if s.cur.isSome then s.diff kind "done inside a case" else s
        if rest == ["0"] then s else s.diff kind s!"harness exit status {joinSp rest}"
    | "crash" => s.diff kind (joinSp rest)
    | "case" =>
        let s := if s.cur.isSome then s.diff kind "case inside a case" else s
        let s := { s with rep := s.rep.bump "cases" }
        { s with cur := some (rest.headD "?") }
    | "endcase" =>
        if s.cur.isNone then s.diff kind "endcase without case" else { s with cur := none }
    | _ =>
      if kind ∈ ["ei", "di", "er", "dr", "eb", "db", "fh", "fv", "const", "cedge"] then
        match splitArrow rest with
        | some (args, got) => stepRecord s kind args got
        | none => s.diff kind s!"record without `->`: {ln}"
      else s.diff "unknown" s!"unknown record kind `{kind}`"

end Meddly.TerminalAccept

namespace Meddly
open TerminalAccept in
def acceptTerminal (lines : Array String) : Report :=
  let s := lines.foldl step ({} : St)
  let s := if s.family then s else s.diff "family" "no `family terminal` line"
  let s := if s.done then s else s.diff "done" "transcript truncated: no `done` line"
  let s := if s.cur.isSome then s.diff "endcase" "last case not closed" else s
  if s.suppressed > 0 then
    s.rep.addDiff s!"... and {s.suppressed} further disagreements (only the first {maxDiffs} are listed)"
  else s.rep
end Meddly
