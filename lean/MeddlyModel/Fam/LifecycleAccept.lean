/-
  Acceptor for the transcript of harness family `lifecycle` (property C17).

  Transcript grammar (one record per line, tokens separated by single blanks):

    family lifecycle | seed <n> | tier <t>                      header
    probe iter-detached  <end|error|notend|signal|abort|unavailable>
    probe reinit-opstyle <ok|error|notrejected|signal|abort|unavailable>
    probe ctclear-after-destroy <ok|hazard|error|signal|abort|unavailable>
    case <i> … endcase                                          one history; starts with the library stopped
    step <k> init <style> <stale> <maxsize>
    step <k> cleanup
    step <k> mkdom <d> <size>…           | rmdom <d>
    step <k> mkforest <d> <sb|si|se|rb|ri|re> <rr> <storage> <mm> <del>     | rmforest <fid>
    step <k> mkedge <e> <fid|0>          | copyedge <e> <e'> | assign <dst> <src> | rmedge <e>
    step <k> attach <e> <fid>            | detach <e> | fill <e> <table> | evaluate <e>
    step <k> mkiter <i> <e>              | adviter <i> | rmiter <i>
    step <k> build <o> <UNION|COPY> <fid>…   | apply <o> <UNION|COPY> <e>…  | ctclear <fid>
    info …                                                      free text, ignored
    out ok | out err <CODE> | out fid <f> | out op <id> <new|cached>
    -- then what the library reports after the step:
    run <0|1>
    maxfid <n>            (only while running)   forest::MaxFID()
    doms <marked> <still> (only while running)   live domains marked by testMarkAllDomains(true) / still marked after (false)
    forest <fid> <n>      (only while running)   non-null slot of all_forests and its countRegisteredEdges()
    edge <e> <fid|0> <table|->                   getForest()->FID() and the function, comma separated
    ops <id>…                                    tracked operations still in the operation registry
    stale <ops> <ets>                            registered binary operations / unmarked entry types that mention a dead forest
    ct <n> <fid>…                                live cache entries of entry types over exactly these forests
    endstep
    stat <key> <n> | done <rc> | crash …
-/
import MeddlyModel.Basic.Report
import MeddlyModel.State.Lifecycle

namespace Meddly.Lifecycle

structure Obs where
  run : Option Nat := none
  maxfid : Option Nat := none
  doms : Option (Nat × Nat) := none
  forests : List (Nat × Nat) := []
  edges : List (Nat × Nat × String) := []
  ops : Option (List Nat) := none
  stale : Option (Nat × Nat) := none
  ct : List (List Nat × Nat) := []
  deriving Inhabited

structure Acc where
  rep : Report := {}
  s : State := State.initial
  pre : State := State.initial
  caseNo : Nat := 0
  inCase : Bool := false
  skip : Bool := false
  op : Option Op := none
  opLine : String := ""
  fillTable : String := ""
  expected : Option Out := none
  outSeen : Bool := false
  success : Bool := false
  obs : Obs := {}
  tables : List (Nat × String) := []
  kinds : List (Nat × String) := []
  pendingKind : String := ""
  doneSeen : Bool := false
  lineNo : Nat := 0
  deriving Inhabited

def insertSorted (x : Nat) : List Nat → List Nat
  | [] => [x]
  | y :: ys => if x ≤ y then x :: y :: ys else y :: insertSorted x ys

def sortNat (l : List Nat) : List Nat := l.foldr insertSorted []

def dedupSorted : List Nat → List Nat
  | [] => []
  | [x] => [x]
  | x :: y :: ys => if x == y then dedupSorted (y :: ys) else x :: dedupSorted (y :: ys)

def natList? (ws : List String) : Option (List Nat) := ws.mapM String.toNat?

def lookupS (l : List (Nat × String)) (k : Nat) : Option String := (l.find? (fun p => p.1 == k)).map (·.2)

def setS (l : List (Nat × String)) (k : Nat) (v : String) : List (Nat × String) :=
  (k, v) :: l.filter (fun p => p.1 != k)

def kindOfCode : String → Option Kind
  | "sb" => some ⟨false, true⟩
  | "si" => some ⟨false, true⟩
  | "se" => some ⟨false, false⟩
  | "rb" => some ⟨true, true⟩
  | "ri" => some ⟨true, true⟩
  | "re" => some ⟨true, false⟩
  | _ => none

def zeroTok (code : String) : String :=
  if code == "sb" || code == "rb" then "F" else if code == "si" || code == "ri" then "0" else "inf"

def isZeroTable (code tbl : String) : Bool := (tbl.splitOn ",").all (· == zeroTok code)

def opKind? : String → Option OpKind
  | "UNION" => some .union
  | "COPY" => some .copy
  | _ => none

/-- parse the operation of a `step` line (tokens after `step <k>`) -/
def parseOp : List String → Option Op
  | "init" :: _ => some .init
  | ["cleanup"] => some .cleanup
  | "mkdom" :: d :: _ => d.toNat?.map .mkDomain
  | ["rmdom", d] => d.toNat?.map .rmDomain
  | "mkforest" :: d :: code :: _ => do
      let d ← d.toNat?
      let k ← kindOfCode code
      pure (.mkForest d k)
  | ["rmforest", f] => f.toNat?.map .rmForest
  | ["mkedge", e, f] => do
      let e ← e.toNat?
      let f ← f.toNat?
      pure (.mkEdge e (if f == 0 then none else some f))
  | ["copyedge", e, e'] => do pure (.copyEdge (← e.toNat?) (← e'.toNat?))
  | ["assign", d, s] => do pure (.assignEdge (← d.toNat?) (← s.toNat?))
  | ["rmedge", e] => e.toNat?.map .rmEdge
  | ["attach", e, f] => do pure (.attach (← e.toNat?) (← f.toNat?))
  | ["detach", e] => e.toNat?.map .detach
  | ["fill", e, _] => e.toNat?.map .fill
  | ["evaluate", e] => e.toNat?.map .evaluate
  | ["mkiter", i, e] => do pure (.mkIter (← i.toNat?) (← e.toNat?))
  | ["adviter", i] => i.toNat?.map .advIter
  | ["rmiter", i] => i.toNat?.map .rmIter
  | "build" :: o :: k :: fs => do pure (.buildOp (← o.toNat?) (← opKind? k) (← natList? fs))
  | "apply" :: o :: k :: es => do pure (.apply (← o.toNat?) (← opKind? k) (← natList? es))
  | ["ctclear", f] => f.toNat?.map .ctClear
  | _ => none

def outStr : Out → String
  | .ok => "ok"
  | .err c => s!"err {c.name}"
  | .fid f => s!"fid {f}"
  | .op o fresh => "op " ++ toString o ++ (if fresh then " new" else " cached")
  | .illegal => "illegal"

def opName : Op → String
  | .init => "init" | .cleanup => "cleanup" | .mkDomain _ => "mkdom" | .rmDomain _ => "rmdom"
  | .mkForest _ _ => "mkforest" | .rmForest _ => "rmforest" | .mkEdge _ _ => "mkedge"
  | .copyEdge _ _ => "copyedge" | .assignEdge _ _ => "assign" | .rmEdge _ => "rmedge"
  | .attach _ _ => "attach" | .detach _ => "detach" | .fill _ => "fill" | .evaluate _ => "evaluate"
  | .mkIter _ _ => "mkiter" | .advIter _ => "adviter" | .rmIter _ => "rmiter"
  | .buildOp _ _ _ => "build" | .apply _ _ _ => "apply"
  | .ctAdd _ => "ctadd" | .ctEvict _ => "ctevict" | .ctClear _ => "ctclear"

namespace Acc

def diff (a : Acc) (kind expected got : String) : Acc :=
  let msg := s!"line={a.lineNo} case={a.caseNo} kind={kind} expected={expected} got={got} step=[{a.opLine}]"
  { a with rep := a.rep.addDiff msg }

def tick (a : Acc) : Acc := { a with rep := a.rep.tick }
def bump (a : Acc) (k : String) : Acc := { a with rep := a.rep.bump k }

def check (a : Acc) (kind : String) (ok : Bool) (expected got : String) : Acc :=
  if ok then a.tick else a.diff kind expected got

/-- forests that the current step may add cache entries for -/
def ctAddable (a : Acc) : List Nat :=
  match a.op with
  | some (.fill e) => match att a.pre e with | some (some f) => [f] | _ => []
  | some (.apply _ _ es) => es.filterMap (fun e => match att a.pre e with | some (some f) => some f | _ => none)
  | _ => []

def ctMayEvict (a : Acc) : Bool :=
  match a.op with
  | some (.fill _) | some (.apply _ _ _) | some (.ctClear _) => true
  | _ => false

/-- bring the model's cache entries in line with the observation, reporting what the step was not
    allowed to do -/
def syncCt (a : Acc) : Acc := Id.run do
  let mut a := a
  let obsKeys := a.obs.ct.map (·.1)
  let modelKeys := a.s.ct.foldl (fun acc c => if acc.contains c then acc else c :: acc) []
  let keys := modelKeys.foldl (fun acc c => if acc.contains c then acc else c :: acc) obsKeys
  let addable := a.ctAddable
  for k in keys do
    let o := ((a.obs.ct.find? (fun p => p.1 == k)).map (·.2)).getD 0
    let m := a.s.ct.count k
    if o == m then
      a := a.tick
    else if o > m then
      -- entries were added
      if k.all (fun f => addable.contains f) then
        let mut okAll := true
        for _ in [0:o - m] do
          let (s', out) := step a.s (.ctAdd k)
          if out == .ok then a := { a with s := s' } else okAll := false
        a := a.check "ct-add" okAll s!"entries over live forests of one domain" s!"{o - m} new entries over {k}"
        a := a.bump "ct.added"
      else
        a := a.diff "ct" s!"{m} entries over {k}" s!"{o}"
        -- resynchronise
        a := { a with s := { a.s with ct := (List.replicate (o - m) k) ++ a.s.ct } }
    else
      if a.ctMayEvict then
        for _ in [0:m - o] do
          let (s', _) := step a.s (.ctEvict k)
          a := { a with s := s' }
        a := a.tick
        a := a.bump "ct.evicted"
      else
        a := a.diff "ct" s!"{m} entries over {k}" s!"{o}"
        a := { a with s := { a.s with ct := (a.s.ct.filter (· != k)) ++ List.replicate o k } }
  return a

/-- all checks at `endstep` -/
def endStep (a : Acc) : Acc := Id.run do
  let mut a := a
  if !a.outSeen then a := a.diff "out" "an out line" "none"
  let s := a.s
  -- running flag
  a := a.check "run" (a.obs.run == some (if s.running then 1 else 0)) s!"{s.running}" s!"{a.obs.run}"
  if s.running then
    a := a.check "maxfid" (a.obs.maxfid == some (s.nextFid - 1)) s!"{s.nextFid - 1}" s!"{a.obs.maxfid}"
    a := a.check "doms" (a.obs.doms == some (s.domains.length, 0)) s!"{s.domains.length} 0" s!"{a.obs.doms}"
  -- forest registry with the number of registered edges
  let mfor := (sortNat (fids s)).map (fun f => (f, (s.edges.filter (fun p => p.2 == some f)).length))
  let ofor := a.obs.forests.reverse
  a := a.check "forests" (mfor == ofor) s!"{mfor}" s!"{ofor}"
  -- edges
  let oedges := a.obs.edges.reverse
  let medges := sortNat (s.edges.map (·.1))
  a := a.check "edge-set" (medges == sortNat (oedges.map (·.1))) s!"{medges}" s!"{oedges.map (·.1)}"
  let written : List Nat := if a.success then (match a.op with | some o => writes o | none => []) else []
  let mut tables := a.tables
  for (e, f, tbl) in oedges do
    let ma := att s e
    let mf := match ma with | some (some g) => g | _ => 0
    a := a.check "edge-forest" (ma.isSome && mf == f) s!"edge {e} forest {mf}" s!"{f}"
    if f == 0 then
      a := a.check "edge-table" (tbl == "-") "-" tbl
    else
      let old := lookupS a.tables e
      let code := (lookupS a.kinds f).getD "?"
      let cur (x : Nat) : String := ((oedges.find? (fun p => p.1 == x)).map (fun p => p.2.2)).getD "<none>"
      if written.contains e then
        match a.op with
        | some (.mkEdge _ _) =>
          a := a.check "table-fresh" (isZeroTable code tbl) s!"all {zeroTok code}" tbl
        | some (.copyEdge src _) =>
          a := a.check "table-copy" (tbl == cur src) (cur src) tbl
        | some (.assignEdge _ src) =>
          a := a.check "table-assign" (tbl == cur src) (cur src) tbl
        | some (.attach _ g) =>
          if att a.pre e == some (some g) then
            a := a.check "table-unchanged" (old == some tbl) s!"{old}" tbl
          else
            a := a.check "table-fresh" (isZeroTable code tbl) s!"all {zeroTok code}" tbl
        | some (.fill _) =>
          a := a.check "table-fill" (tbl == a.fillTable) a.fillTable tbl
        | _ => a := a.tick
      else
        a := a.check "table-unchanged" (old == some tbl) s!"edge {e} {old}" tbl
      tables := setS tables e tbl
  -- forget tables of edges that are gone or detached
  tables := tables.filter (fun p => oedges.any (fun q => q.1 == p.1 && q.2.1 != 0))
  a := { a with tables := tables }
  -- tracked operations
  let mops := sortNat (s.ops.map (·.id))
  a := a.check "ops" (a.obs.ops == some mops) s!"{mops}" s!"{a.obs.ops}"
  a := a.check "stale" (a.obs.stale == some (0, 0)) "0 0" s!"{a.obs.stale}"
  -- coverage of destroy steps: what was there to detach / purge / keep
  if a.success then
    match a.op with
    | some op =>
      let dead := destroyedBy a.pre op
      if !dead.isEmpty then
        let det := (a.pre.edges.filter (fun p => match p.2 with | some f => dead.contains f | none => false)).length
        let surv := (s.edges.filter (fun p => p.2.isSome)).length
        let opsP := a.pre.ops.length - s.ops.length
        let ctP := a.pre.ct.length - s.ct.length
        let span := (a.pre.ct.filter (fun c => hits dead c && c.any (fun f => !dead.contains f))).length
        let opSpan := (a.pre.ops.filter (fun o => hits dead o.fids && o.fids.any (fun f => !dead.contains f))).length
        a := { a with rep := (((((((a.rep.bump "destroy.steps").bump "destroy.edges-detached" det).bump
          "destroy.edges-surviving" surv).bump "destroy.ops-purged" opsP).bump "destroy.ops-spanning" opSpan).bump
          "destroy.ct-purged" ctP).bump "destroy.ct-spanning" span).bump "destroy.ct-surviving" s.ct.length }
    | none => pure ()
  -- cache entries
  a := a.syncCt
  return { a with obs := {}, op := none, expected := none, outSeen := false }

def handleOut (a : Acc) (ws : List String) : Acc :=
  match a.expected with
  | none => a.diff "out" "a step line first" (" ".intercalate ws)
  | some ex =>
    let got := " ".intercalate ws
    let a := { a with outSeen := true }
    if ex == .illegal then
      -- the harness did something the model has no defined outcome for
      { (a.diff "illegal-step" "a call with defined behaviour" got) with skip := true }
    else if outStr ex == got then
      let a := a.tick
      let a := a.bump s!"out.{(got.splitOn " ").head!}"
      let a := match ex, a.pendingKind with
        | .fid f, code => { a with kinds := setS a.kinds f code }
        | _, _ => a
      let succ := match ex with | .err _ => false | _ => true
      let a := match ex with
        | .err c => a.bump s!"err.{c.name}"
        | _ => a
      { a with success := succ }
    else
      -- different outcome: the states have diverged, give up on this case
      { (a.diff "out" (outStr ex) got) with skip := true }

def handleLine (a : Acc) (line : String) : Acc :=
  let a := { a with lineNo := a.lineNo + 1 }
  let ws := line.splitOn " "
  match ws with
  | "family" :: _ | "seed" :: _ | "tier" :: _ | "info" :: _ | "stat" :: _ => a
  | ["probe", "iter-detached", r] =>
    if r == "end" || r == "error" then a.tick
    else if r == "unavailable" then a.bump "probe.unavailable"
    else a.diff "FINDING-F-C17-1" "dd_edge::iterator on an edge without forest is an end iterator or raises an error" r
  | ["probe", "reinit-opstyle", r] =>
    if r == "ok" then a.tick
    else if r == "unavailable" then a.bump "probe.unavailable"
    else a.diff "FINDING-F-C17-2" "a rejected second MEDDLY::initialize() leaves the library usable" r
  | ["probe", "ctclear-after-destroy", r] =>
    if r == "ok" then a.tick
    else if r == "unavailable" then a.bump "probe.unavailable"
    else a.diff "FINDING-F-C17-3"
      "removeAllComputeTableEntries() on a survivor of a destroyed cross-forest operation touches no freed table" r
  | ["done", rc] => { (a.check "done" (rc == "0") "0" rc) with doneSeen := true }
  | "crash" :: rest => a.diff "crash" "no crash" (" ".intercalate rest)
  | ["case", i] =>
    let a := if a.inCase then a.diff "case" "endcase before the next case" line else a
    { a with caseNo := i.toNat?.getD 0, inCase := true, skip := false, s := State.initial,
             pre := State.initial, tables := [], kinds := [], obs := {}, op := none, expected := none,
             opLine := "", rep := a.rep.bump "cases" }
  | ["endcase"] =>
    let a := if a.skip then a.bump "cases.abandoned" else
      let a := a.check "endcase" (!a.s.running && a.s.edges.isEmpty && a.s.iters.isEmpty)
        "library stopped, no client objects left" s!"running={a.s.running} edges={a.s.edges.length} iters={a.s.iters.length}"
      a.check "endcase-initial" (a.s == State.initial) "the initial state" "something else"
    { a with inCase := false, skip := false, opLine := "" }
  | _ =>
    if a.skip then a
    else if !a.inCase then a.diff "unknown" "a record outside a case" line
    else match ws with
    | "step" :: _ :: rest =>
      let a := if a.op.isSome then a.diff "step" "endstep before the next step" line else a
      match parseOp rest with
      | none => a.diff "unknown" "a known step" line
      | some op =>
        let (s', out) := step a.s op
        let a := a.bump s!"step.{opName op}"
        { a with pre := a.s, s := s', op := some op, expected := some out, outSeen := false, success := false,
                 opLine := " ".intercalate rest, obs := {},
                 fillTable := (match rest with | ["fill", _, t] => t | _ => ""),
                 pendingKind := (match rest with | "mkforest" :: _ :: code :: _ => code | _ => "") }
    | "out" :: rest => a.handleOut rest
    | ["run", r] => { a with obs := { a.obs with run := r.toNat? } }
    | ["maxfid", n] => { a with obs := { a.obs with maxfid := n.toNat? } }
    | ["doms", m, t] => { a with obs := { a.obs with doms := do pure ((← m.toNat?), (← t.toNat?)) } }
    | ["forest", f, n] =>
      match f.toNat?, n.toNat? with
      | some f, some n => { a with obs := { a.obs with forests := (f, n) :: a.obs.forests } }
      | _, _ => a.diff "unknown" "forest <fid> <n>" line
    | ["edge", e, f, t] =>
      match e.toNat?, f.toNat? with
      | some e, some f => { a with obs := { a.obs with edges := (e, f, t) :: a.obs.edges } }
      | _, _ => a.diff "unknown" "edge <e> <fid> <table>" line
    | "ops" :: ids =>
      match natList? ids with
      | some l => { a with obs := { a.obs with ops := some l } }
      | none => a.diff "unknown" "ops <id>…" line
    | ["stale", x, y] => { a with obs := { a.obs with stale := do pure ((← x.toNat?), (← y.toNat?)) } }
    | "ct" :: n :: fs =>
      match n.toNat?, natList? fs with
      | some n, some fs => { a with obs := { a.obs with ct := (dedupSorted (sortNat fs), n) :: a.obs.ct } }
      | _, _ => a.diff "unknown" "ct <n> <fid>…" line
    | ["endstep"] => a.endStep
    | _ => a.diff "unknown" "a known record kind" line

end Acc

end Meddly.Lifecycle

namespace Meddly

/-- replay a `lifecycle` transcript on `Lifecycle.step` -/
def acceptLifecycle (lines : Array String) : Report :=
  let a := lines.foldl (fun a l => if l.isEmpty then a else Lifecycle.Acc.handleLine a l) ({} : Lifecycle.Acc)
  let a := if a.inCase then a.diff "truncated" "endcase" "end of transcript inside a case" else a
  let a := if a.doneSeen then a else a.diff "truncated" "done 0" "no done record (harness died?)"
  a.rep

end Meddly
