/-
  Acceptor of the harness family `gen`: differential validation of the source-to-Lean translators
  translate/levels_to_lean.py, translate/hashstream_to_lean.py, translate/counterarray_to_lean.py and
  translate/nodeheaders_to_lean.py.

  Every record of the transcript is an observation of the REAL inline functions of forest_levels.h /
  defines.h / hash_stream.h / arrays.h (and of arrays.cc in the library) as compiled into the harness; it is
  recomputed here with the GENERATED definitions of `MeddlyModel/Gen/Levels.lean`,
  `MeddlyModel/Gen/HashStream.lean`, `MeddlyModel/Gen/CounterArray.lean` and `MeddlyModel/Gen/NodeHeaders.lean`
  and compared.
  (It deliberately imports ONLY the generated files, not Props/Levels.lean / Props/HashStreamGen.lean /
  Props/CounterArrayGen.lean / Props/NodeHeadersGen.lean nor the hand-written models: when a header changes so that
  the proofs break, this differential run still works and tells whether the translation is faithful.)

  Grammar (one record per line; all numbers in decimal, levels signed, words unsigned 32 bit):

    family gen | seed <n> | tier <t> | stat <key> <n> | done <rc> | crash ...
    case <i>  ...  endcase
    lv <fn> <k> -> <r>           fn: ABS MDD.downLevel MDD.upLevel MXD.downLevel MXD.upLevel
                                     MXD.unprimedOfLevel MXD.primedOfLevel
    lv <fn> <k1> <k2> -> <r>     fn: MAX MDD.topLevel MXD.topLevel MXD.topUnprimed isLevelAbove (r = 0 | 1)
    hr <x> <k> -> <r>            hash_stream::rot(x, k)
    hm mix|final_mix <a> <b> <c> -> <a'> <b'> <c'>
    hs <init|-> <spec> <w1> .. <wn> -> <h> | throw <E>
                                 start(init) (`-`: start()); one call per character of <spec>
                                 (`1` push(a), `2` push(a,b), `3` push(a,b,c); `.` = no call); finish()

    gc new <0|1>                 a fresh counter_array (1: constructed with an array_watcher that records its calls)
    gc <op> <args> -> <result> <entry_bits>
                                 op: expand n | shrink n | get i | swap i j | inc i | dec i | izbi i | ipad i |
                                     rep n inc|dec|izbi|ipad i   (n calls; result = sum of the n results)
                                 replayed with `Gen.CounterArray.step`; entry_bits with `Gen.CounterArray.entry_bits`
    gc watched -> e:<old>:<new> s:<old>:<new> ... | -      the watcher's calls so far = the ghost member `watched`

    nh forest <0|1>              a fresh forest (1: node_headers::pessimistic): every handle free
    nh adopt <h> <lvl> <in> <cc> after createReducedNode (NOT translated): the observed header of h replaces the model's
    nh kids <h> <k1> .. <kn>     the children of the new node h
    nh link <h> -> <ret> <A|D|F> <in> <cc>   |   nh unlink|cache|uncache <h> -> <A|D|F> <in> <cc>
                                 one call of forest::linkNode / unlinkNode / cacheNode / uncacheNode, replayed with
                                 `Gen.NodeHeaders.linkNode` .. on the header of h (class: A level ≠ 0, D level 0 and cache
                                 count > 0, F otherwise).  Every `deleteNode` EVENT of the generated code is followed by the
                                 generated `unlinkNode` on each child of the deleted node (what forest::deleteNode does),
                                 recursively.                                                       kind=gen-nh
    nh also <h> -> <A|D|F> <in> <cc>         another handle whose header changed during the call     kind=gen-nh-cascade
    nh end -> <n>                            number of other handles changed during the call         kind=gen-nh-frame

  A level record whose arguments violate the generated `<fn>_defined` predicate (the model says the C++ call
  has undefined behaviour) is reported as kind=gen-lv-undefined; a hash record on which a generated function
  returns `.error .ub` as `expected=ub`, `.error .thrown` as `expected=throw <code>`.
-/
import MeddlyModel.Basic.Report
import MeddlyModel.Gen.Levels
import MeddlyModel.Gen.HashStream
import MeddlyModel.Gen.CounterArray
import MeddlyModel.Gen.NodeHeaders

namespace Meddly.GenAccept

/-! ### parsing -/

def parseInt32? (s : String) : Option Int :=
  match s.toInt? with
  | some v => if -2147483648 ≤ v ∧ v ≤ 2147483647 then some v else none
  | none => none

def parseWord? (s : String) : Option UInt32 :=
  match s.toNat? with
  | some v => if v < 4294967296 then some (UInt32.ofNat v) else none
  | none => none

def parseWords? (l : List String) : Option (List UInt32) := l.mapM parseWord?

def joinSp (l : List String) : String := " ".intercalate l

def showW (w : UInt32) : String := toString w.toNat

/-! ### the model's answers (strings, formatted like the harness does) -/

open Gen.Levels in
/-- (value, `_defined` holds) of a unary level function -/
def unaryLevel? (fn : String) (k : Int) : Option (Int × Bool) :=
  match fn with
  | "ABS" => some (ABS k, decide (ABS_defined k))
  | "MDD.downLevel" => some (MDD.downLevel k, decide (MDD.downLevel_defined k))
  | "MDD.upLevel" => some (MDD.upLevel k, decide (MDD.upLevel_defined k))
  | "MXD.downLevel" => some (MXD.downLevel k, decide (MXD.downLevel_defined k))
  | "MXD.upLevel" => some (MXD.upLevel k, decide (MXD.upLevel_defined k))
  | "MXD.unprimedOfLevel" => some (MXD.unprimedOfLevel k, decide (MXD.unprimedOfLevel_defined k))
  | "MXD.primedOfLevel" => some (MXD.primedOfLevel k, decide (MXD.primedOfLevel_defined k))
  | _ => none

open Gen.Levels in
def binaryLevel? (fn : String) (k1 k2 : Int) : Option (Int × Bool) :=
  match fn with
  | "MAX" => some (MAX k1 k2, decide (MAX_defined k1 k2))
  | "MDD.topLevel" => some (MDD.topLevel k1 k2, decide (MDD.topLevel_defined k1 k2))
  | "MXD.topLevel" => some (MXD.topLevel k1 k2, decide (MXD.topLevel_defined k1 k2))
  | "MXD.topUnprimed" => some (MXD.topUnprimed k1 k2, decide (MXD.topUnprimed_defined k1 k2))
  | "isLevelAbove" => some (if isLevelAbove k1 k2 then 1 else 0, decide (isLevelAbove_defined k1 k2))
  | _ => none

def errToken (codes : List String) : Gen.HashStream.Err → String
  | .ub => "ub"
  | .thrown => "throw " ++ (codes.headD "?")

open Gen.HashStream in
/-- run the calls of `spec` on the words; `none`: spec and number of words do not fit -/
def runSpec (g : State) : List Char → List UInt32 → Option (Except String State)
  | [], [] => some (.ok g)
  | [], _ :: _ => none
  | '1' :: cs, a :: ws =>
      match push g a with
      | .ok g' => runSpec g' cs ws
      | .error e => some (.error (errToken push_throws e))
  | '2' :: cs, a :: b :: ws =>
      match push2 g a b with
      | .ok g' => runSpec g' cs ws
      | .error e => some (.error (errToken push2_throws e))
  | '3' :: cs, a :: b :: c :: ws =>
      match push3 g a b c with
      | .ok g' => runSpec g' cs ws
      | .error e => some (.error (errToken push3_throws e))
  | _, _ => none

open Gen.HashStream in
def expStream (init spec : String) (ws : List String) : Option String := do
  let g ← if init == "-" then some start0 else (parseWord? init).map start
  let words ← parseWords? ws
  let cs := if spec == "." then [] else spec.toList
  match ← runSpec g cs words with
  | .ok g' => some (showW (finish g'))
  | .error e => some e

open Gen.HashStream in
def expRot (x k : String) : Option String := do
  let xv ← parseWord? x
  let kv ← parseInt32? k
  if decide (rot_defined xv kv) then some (showW (rot xv kv)) else some "ub"

open Gen.HashStream in
def expMix (which : String) (a b c : String) : Option String := do
  let av ← parseWord? a
  let bv ← parseWord? b
  let cv ← parseWord? c
  let r ← if which == "mix" then some (mix av bv cv) else if which == "final_mix" then some (final_mix av bv cv) else none
  some s!"{showW r.1} {showW r.2.1} {showW r.2.2}"

/-! ### counter_array: the generated step function -/

namespace CA
open Gen.CounterArray

/-- contents of freshly allocated memory in the replay: never 0, different per allocation (the theorems of
    Props/CounterArrayGen.lean hold for every choice; a missing memset / copy shows up as a wrong `get`) -/
def junk : List Nat → Nat → Nat := fun t k => 165 + 31 * t.length + 7 * k

def errName : Err → String
  | .ub => "ub"
  | .thrown => "thrown"
  | .unmodelled => "unmodelled"

def kind? : String → Option (Nat → Op)
  | "inc" => some Op.increment
  | "dec" => some Op.decrement
  | "izbi" => some Op.isZeroBeforeIncrement
  | "ipad" => some Op.isPositiveAfterDecrement
  | _ => none

/-- `n` calls of `op`, summing the results -/
def repeatOp (op : Op) : Nat → State → Nat → Except Err (State × Nat)
  | 0, g, acc => .ok (g, acc)
  | n + 1, g, acc =>
    match step junk g op with
    | .error e => .error e
    | .ok (g', r) => repeatOp op n g' (acc + r)

/-- the calls of one record; `none`: malformed -/
def exec (g : State) : List String → Option (Except Err (State × Nat))
  | ["expand", n] => n.toNat?.map fun n => step junk g (.expand n)
  | ["shrink", n] => n.toNat?.map fun n => step junk g (.shrink n)
  | ["get", i] => i.toNat?.map fun i => step junk g (.get i)
  | ["swap", i, j] => i.toNat?.bind fun i => j.toNat?.map fun j => step junk g (.swap i j)
  | ["rep", n, k, i] => n.toNat?.bind fun n => (kind? k).bind fun mk => i.toNat?.map fun i => repeatOp (mk i) n g 0
  | [k, i] => (kind? k).bind fun mk => i.toNat?.map fun i => step junk g (mk i)
  | _ => none

def showWatched (l : List (Bool × Nat × Nat)) : String :=
  if l.isEmpty then "-" else
    " ".intercalate (l.map fun (e, o, n) => (if e then "e:" else "s:") ++ toString o ++ ":" ++ toString n)

end CA

/-! ### node_headers: the generated lifetime logic on a table of headers -/

namespace NH
open Gen.NodeHeaders

structure Entry where
  st : State
  kids : List Int := []

structure Tab where
  pess : Bool
  ents : Array Entry := #[]

/-- the header of a handle that was never used / has been recycled, in the reference-counting configuration -/
def freeHdr (pess : Bool) : State :=
  { levels := some 0, cache_counts := some 0, is_in_cache := none, incoming_counts := some 0, is_reachable := none,
    pessimistic := pess, events := [] }

def Tab.get (t : Tab) (h : Nat) : Entry := t.ents.getD h { st := freeHdr t.pess }

def Tab.set (t : Tab) (h : Nat) (e : Entry) : Tab :=
  let ents := if h < t.ents.size then t.ents else t.ents ++ Array.replicate (h + 1 - t.ents.size) { st := freeHdr t.pess }
  { t with ents := ents.set! h e }

def obs (g : State) : String :=
  let lvl := g.levels.getD 0
  let cc := g.cache_counts.getD 0
  let cls := if lvl ≠ 0 then "A" else if cc ≠ 0 then "D" else "F"
  s!"{cls} {g.incoming_counts.getD 0} {cc}"

def errName : Err → String
  | .ub => "ub"
  | .unmodelled => "unmodelled"

/-- one generated call on handle `h`: the new table, the value returned by linkNode, the events of the call -/
def call (t : Tab) (h : Int) (op : Op) : Except Err (Tab × Int × List Event) :=
  let e := if h < 1 then { st := freeHdr t.pess } else t.get h.toNat
  let g := { e.st with events := [] }
  let r : Except Err (State × Int) := match op with
    | .link => linkNode g h
    | .unlink => (unlinkNode g h).map fun g' => (g', h)
    | .cache => (cacheNode g h).map fun g' => (g', h)
    | .uncache => (uncacheNode g h).map fun g' => (g', h)
  match r with
  | .error err => .error err
  | .ok (g', ret) =>
    let deleted := g'.events.contains (Event.deleteNode h)
    let t' := if h < 1 then t else
      t.set h.toNat { st := { g' with events := [] }, kids := if deleted then [] else e.kids }
    .ok (t', ret, g'.events)

/-- what forest::deleteNode(p) does besides the header of p: `unlinkNode` on every child, recursively -/
def cascade : Nat → Tab → List Int → List Nat → Except Err (Tab × List Nat)
  | _, t, [], touched => .ok (t, touched)
  | 0, _, _ :: _, _ => .error .unmodelled
  | f + 1, t, c :: wl, touched =>
    let kids := if c < 1 then [] else (t.get c.toNat).kids
    match call t c .unlink with
    | .error e => .error e
    | .ok (t', _, evs) =>
      let ks := if evs.contains (Event.deleteNode c) then kids else []
      cascade f t' (ks ++ wl) (if c < 1 then touched else c.toNat :: touched)

/-- a whole API call: the call on h, then the cascade; -> (table, "<ret> <obs of h>", number of OTHER handles changed) -/
def apiCall (t : Tab) (h : Int) (op : Op) : Except Err (Tab × String × Nat) :=
  let kids := if h < 1 then [] else (t.get h.toNat).kids
  match call t h op with
  | .error e => .error e
  | .ok (t1, ret, evs) =>
    let ks := if evs.contains (Event.deleteNode h) then kids else []
    match cascade 1000000 t1 ks [] with
    | .error e => .error e
    | .ok (t2, touched) =>
      let others := touched.eraseDups.filter fun c => c != h.toNat && obs (t.get c).st != obs (t2.get c).st
      let o := obs (t2.get h.toNat).st
      .ok (t2, (match op with | .link => s!"{ret} {o}" | _ => o), others.length)

def op? : String → Option Op
  | "link" => some .link
  | "unlink" => some .unlink
  | "cache" => some .cache
  | "uncache" => some .uncache
  | _ => none

end NH

/-! ### the line loop -/

structure St where
  ca : Option Gen.CounterArray.State := none      -- the counter_array of the current `gc new`
  nh : Option NH.Tab := none                      -- the header table of the current `nh forest`
  nhOthers : Nat := 0                             -- handles other than the touched one changed by the last nh call
  rep : Report := {}
  line : Nat := 0
  cur : Option String := none      -- current case
  family : Bool := false
  done : Bool := false
  suppressed : Nat := 0

def maxDiffs : Nat := 500

def St.diff (s : St) (kind msg : String) : St :=
  if s.rep.diffs.size < maxDiffs then
    { s with rep := s.rep.addDiff s!"line={s.line} case={s.cur.getD "-"} kind={kind} {msg}" }
  else { s with suppressed := s.suppressed + 1 }

def St.check (s : St) (kind input : String) (expected : Option String) (got : String) : St :=
  match expected with
  | none => s.diff kind s!"input=[{input}] unparsable-or-illegal-input got=[{got}]"
  | some e =>
    let s := { s with rep := s.rep.tick }
    if e == got then s else s.diff kind s!"input=[{input}] expected=[{e}] got=[{got}]"

def St.checkLevel (s : St) (fn input : String) (r : Option (Int × Bool)) (got : String) : St :=
  match r with
  | none => s.diff "gen-lv" s!"input=[{input}] unknown-function-or-unparsable got=[{got}]"
  | some (v, defined) =>
    let s := { s with rep := s.rep.bump ("lv." ++ fn) }
    let s := if defined then s else
      s.diff "gen-lv-undefined" s!"input=[{input}] the generated {fn}_defined is false: the model says this call overflows"
    s.check "gen-lv" input (some (toString v)) got

/-- split `a b c -> x y` into (["a","b","c"], "x y") -/
def splitArrow (toks : List String) : Option (List String × String) :=
  let rec go (acc : List String) : List String → Option (List String × String)
    | [] => none
    | t :: rest => if t == "->" then some (acc.reverse, joinSp rest) else go (t :: acc) rest
  go [] toks

def St.checkCa (s : St) (args : List String) (got : String) : St :=
  let input := joinSp args
  match s.ca with
  | none => s.diff "gen-gc" s!"input=[{input}] record before `gc new`"
  | some g =>
    if args == ["watched"] then
      { s with rep := s.rep.bump "gc.watched" }.check "gen-gc-watch" input (some (CA.showWatched g.watched)) got
    else
      match CA.exec g args with
      | none => s.diff "gen-gc" s!"malformed-record args=[{input}] got=[{got}]"
      | some (.error e) =>
          { s with rep := s.rep.bump "gc.calls" }.check "gen-gc" input (some (CA.errName e)) got
      | some (.ok (g', r)) =>
          let bits := match Gen.CounterArray.entry_bits g' with
            | .ok b => toString b
            | .error e => CA.errName e
          { s with ca := some g', rep := s.rep.bump "gc.calls" }.check "gen-gc" input (some s!"{r} {bits}") got

def St.checkNh (s : St) (args : List String) (got : String) : St :=
  let input := joinSp args
  match s.nh with
  | none => s.diff "gen-nh" s!"input=[{input}] record before `nh forest`"
  | some t =>
    match args with
    | ["end"] => { s with nhOthers := 0, rep := s.rep.bump "nh.end" }.check "gen-nh-frame" input (some (toString s.nhOthers)) got
    | ["also", h] =>
      match h.toNat? with
      | none => s.diff "gen-nh-cascade" s!"malformed-record args=[{input}] got=[{got}]"
      | some h => { s with rep := s.rep.bump "nh.also" }.check "gen-nh-cascade" input (some (NH.obs (t.get h).st)) got
    | [op, h] =>
      match NH.op? op, h.toInt? with
      | some o, some h =>
        let s := { s with rep := s.rep.bump "nh.calls" }
        match NH.apiCall t h o with
        | .error e => s.check "gen-nh" input (some (NH.errName e)) got
        | .ok (t', exp, others) => { s with nh := some t', nhOthers := others }.check "gen-nh" input (some exp) got
      | _, _ => s.diff "gen-nh" s!"malformed-record args=[{input}] got=[{got}]"
    | _ => s.diff "gen-nh" s!"malformed-record args=[{input}] got=[{got}]"

/-- `nh forest p`, `nh adopt h lvl in cc`, `nh kids h k1 .. kn`: no comparison, the model's table is set up -/
def St.setupNh (s : St) (rest : List String) : Option St :=
  match rest with
  | ["forest", p] => if p == "0" ∨ p == "1" then some { s with nh := some { pess := p == "1" }, nhOthers := 0, rep := s.rep.bump "nh.forest" } else none
  | ["adopt", h, lvl, inc, cc] => do
      let t ← s.nh
      let h ← h.toNat?
      let lvl ← parseInt32? lvl
      let inc ← inc.toNat?
      let cc ← cc.toNat?
      let e := t.get h
      let st := { NH.freeHdr t.pess with levels := some lvl, incoming_counts := some inc, cache_counts := some cc }
      some { s with nh := some (t.set h { st := st, kids := if lvl = 0 then [] else e.kids }), rep := s.rep.bump "nh.adopt" }
  | "kids" :: h :: ks => do
      let t ← s.nh
      let h ← h.toNat?
      let ks ← ks.mapM parseInt32?
      some { s with nh := some (t.set h { (t.get h) with kids := ks }), rep := s.rep.bump "nh.kids" }
  | _ => none

def stepRecord (s : St) (kind : String) (args : List String) (got : String) : St :=
  let s := if s.cur.isNone then s.diff kind "record outside case…endcase" else s
  let input := joinSp args
  match kind, args with
  | "lv", [fn, k] => s.checkLevel fn input ((parseInt32? k).bind (unaryLevel? fn)) got
  | "lv", [fn, k1, k2] =>
      s.checkLevel fn input ((parseInt32? k1).bind fun a => (parseInt32? k2).bind fun b => binaryLevel? fn a b) got
  | "hr", [x, k] => { s with rep := s.rep.bump "hr" }.check "gen-hr" input (expRot x k) got
  | "hm", [w, a, b, c] => { s with rep := s.rep.bump ("hm." ++ w) }.check "gen-hm" input (expMix w a b c) got
  | "gc", _ => s.checkCa args got
  | "nh", _ => s.checkNh args got
  | "hs", init :: spec :: ws =>
      let s := { s with rep := s.rep.bump (if init == "-" then "hs.start0" else "hs.start") }
      s.check "gen-hs" input (expStream init spec ws) got
  | _, _ => s.diff kind s!"malformed-record args=[{input}] got=[{got}]"

def step (s : St) (ln : String) : St :=
  let s := { s with line := s.line + 1 }
  if ln.isEmpty then s else
  let toks := ln.splitOn " "
  match toks with
  | [] => s
  | kind :: rest =>
    match kind with
    | "family" =>
        if rest == ["gen"] then { s with family := true } else s.diff kind s!"unexpected family {joinSp rest}"
    | "seed" => s
    | "tier" => s
    | "stat" => s
    | "done" =>
        let s := { s with done := true }
        let s := if s.cur.isSome then s.diff kind "done inside a case" else s
        if rest == ["0"] then s else s.diff kind s!"harness exit status {joinSp rest}"
    | "crash" => s.diff kind (joinSp rest)
    | "case" =>
        let s := if s.cur.isSome then s.diff kind "case inside a case" else s
        let s := { s with rep := s.rep.bump "cases" }
        { s with cur := some (rest.headD "?") }
    | "endcase" =>
        if s.cur.isNone then s.diff kind "endcase without case" else { s with cur := none, ca := none, nh := none }
    | "gc" =>
        if rest == ["new", "0"] ∨ rest == ["new", "1"] then
          let s := if s.cur.isNone then s.diff kind "record outside case…endcase" else s
          { s with ca := some (Gen.CounterArray.init (rest == ["new", "1"])), rep := s.rep.bump "gc.new" }
        else
          match splitArrow rest with
          | some (args, got) => stepRecord s kind args got
          | none => s.diff kind s!"record without `->`: {ln}"
    | "nh" =>
        let s := if s.cur.isNone then s.diff kind "record outside case…endcase" else s
        match splitArrow rest with
        | some (args, got) => stepRecord s kind args got
        | none =>
          match s.setupNh rest with
          | some s' => s'
          | none => s.diff "gen-nh" s!"malformed record: {ln}"
    | _ =>
      if kind ∈ ["lv", "hr", "hm", "hs"] then
        match splitArrow rest with
        | some (args, got) => stepRecord s kind args got
        | none => s.diff kind s!"record without `->`: {ln}"
      else s.diff "unknown" s!"unknown record kind `{kind}`"

end Meddly.GenAccept

namespace Meddly
open GenAccept in
def acceptGen (lines : Array String) : Report :=
  let s := lines.foldl step ({} : St)
  let s := if s.family then s else s.diff "family" "no `family gen` line"
  let s := if s.done then s else s.diff "truncated" "transcript truncated: no `done` line"
  let s := if s.cur.isSome then s.diff "endcase" "last case not closed" else s
  if s.suppressed > 0 then
    s.rep.addDiff s!"... and {s.suppressed} further disagreements (only the first {maxDiffs} are listed)"
  else s.rep
end Meddly
