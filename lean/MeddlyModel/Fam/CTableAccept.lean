/-
  Acceptor for the harness family `ctable` (C07, compute tables are transparent).

  mode trace : replays every `find` / `add` / `rmstales` / `rmall` / `clearf` / `gc` record on
  the specification automaton `Meddly.CT` (MeddlyModel/State/ComputeTable.lean).
  Two model tables are maintained:
    U  the loss-free tracked table (`CT.stepObs`: silent evictions are invisible, so U is an
       UPPER bound of the real table -- theorem `CT.tracking_sound`);
    L  the entries that are CERTAINLY still in the real table (a LOWER bound): whenever the
       real table may have dropped entries in a way the transcript cannot show (overwrite of a
       home slot in the unchained styles, stale removal during `find` under the Aggressive
       policy, entries that became stale by a cascade during a removal pass, a resize) these
       entries are removed from L by an explicit `CT.Op.lose`.
  Checks:  every hit must be accepted by `CT.step` on U under the liveness view given by the
  latest `obs` records (so a hit that returns an entry with a dead / recycled node is a diff);
  every add must find its key absent in U (protocol); at every `sync`, for every observed node
    cc = cnt                       (the library's counter equals the number of items of the REAL
                                    table mentioning the node: `CT.cc_exact` on the real table)
    total L <= cc <= total U       (`CT.cc_exact` + `CT.tracking_sound`; an EQUALITY whenever
                                    L = U on that node, which is the normal situation in the
                                    chained styles with the Moderate / Lazy policy)
    no entry of L mentions a live handle under another identity (`CT.no_reuse_while_cached`)
  and the same sandwich for the per-type entry counts.

  mode e2e : all configurations must produce identical result tables for every step, and each
  result must equal the pointwise oracle on the `arg` tables of the same configuration.
-/
import MeddlyModel.Basic.Val
import MeddlyModel.Basic.Report
import MeddlyModel.State.ComputeTable
import Std.Data.HashMap

namespace Meddly.CTableAccept
open Meddly Meddly.CT

structure Obs where
  alive : Bool
  incount : Nat
  cc : Nat
  cnt : Nat
  gen : Nat
  deriving Inhabited

def genU : Nat := 1000000
def genD : Nat := 1000001

def parseGen (s : String) : Option Nat :=
  if s == "D" then some genD else if s == "U" then some genU else s.toNat?

/-- `N<f>.<h>.<c>` | `I<v>` | `T<v>` -/
def parseItem (s : String) : Option Item :=
  if s.startsWith "I" || s.startsWith "T" then
    (s.drop 1).toString.toInt?.map Item.int
  else if s.startsWith "N" then
    match (s.drop 1).toString.splitOn "." with
    | [f, h, c] => do
      let f ← f.toNat?; let h ← h.toNat?; let g ← parseGen c
      pure (Item.node ⟨f, h, g⟩)
    | _ => none
  else none

def parseItems (l : List String) : Option (List Item) := l.mapM parseItem

structure TState where
  style : Nat := 0
  stale : Nat := 1
  /-- per entry type: the forests its node slots belong to -/
  etForests : List (Nat × List Nat) := []
  U : Table := Table.empty
  L : Table := Table.empty
  obs : Std.HashMap (Nat × Nat) Obs := {}
  destroyed : List Nat := []
  entries : List (Nat × Nat) := []
  pendingCascade : Bool := false
  /-- tables that went through a garbage collection / resize -/
  expanded : List Nat := []
  deriving Inhabited

namespace TState
def mono (s : TState) : Bool := s.style < 2
def chained (s : TState) : Bool := s.style == 0 || s.style == 2
def aggressive (s : TState) : Bool := s.stale == 0
def tableOf (s : TState) (et : Nat) : Nat := if s.mono then 0 else et
def inTable (s : TState) (tid : Nat) (e : Entry) : Bool := s.mono || e.etype == tid
def forestsOf (s : TState) (et : Nat) : List Nat :=
  match s.etForests.find? (fun p => p.1 == et) with
  | some p => p.2
  | none => []
def typeHasForest (s : TState) (et f : Nat) : Bool := (s.forestsOf et).contains f

/-- the liveness view given by the latest observations -/
def view (s : TState) : View :=
  let dead : NodeRef → Bool := fun n =>
    s.destroyed.contains n.forest ||
    (match s.obs[(n.forest, n.handle)]? with
     | none => false
     | some o => !o.alive || o.gen != n.gen)
  { dead := dead
    stale := fun n => dead n ||
      (match s.obs[(n.forest, n.handle)]? with
       | none => false
       | some o => o.incount == 0)
    typeDead := fun et => (s.forestsOf et).any (fun f => s.destroyed.contains f)
    free := fun _ => false }

def loseBoth (s : TState) (p : Entry → Bool) : TState :=
  { s with U := s.U.discardWhere p, L := s.L.discardWhere p }
def loseL (s : TState) (p : Entry → Bool) : TState :=
  { s with L := s.L.discardWhere p }
end TState

/-- number of node items per (forest, handle) over a list of entries -/
def countByHandle (es : List Entry) : Std.HashMap (Nat × Nat) Nat :=
  es.foldl (fun m e => e.nodes.foldl (fun m n => m.insert (n.forest, n.handle) (m.getD (n.forest, n.handle) 0 + 1)) m) {}

def countType (es : List Entry) (et : Nat) : Nat := (es.filter (fun e => e.etype == et)).length

structure EState where
  /-- per step of configuration 0: result tokens -/
  ref : Std.HashMap Nat (List String) := {}
  cfg : Nat := 0
  opr : Std.HashMap Nat String := {}
  argA : Std.HashMap Nat (List String) := {}
  argB : Std.HashMap Nat (List String) := {}
  nres : Nat := 0
  nres0 : Nat := 0
  deriving Inhabited

structure St where
  rep : Report := {}
  case : String := "-"
  sawDone : Bool := false
  mode : String := ""
  t : TState := {}
  e : EState := {}
  deriving Inhabited

def diff (st : St) (ln : Nat) (kind : String) (msg : String) : St :=
  { st with rep := st.rep.addDiff s!"line={ln} case={st.case} kind={kind} {msg}" }
def tick (st : St) (n : Nat := 1) : St := { st with rep := st.rep.tick n }
def bump (st : St) (k : String) (n : Nat := 1) : St := { st with rep := st.rep.bump k n }

def splitArrow (l : List String) : List String × List String :=
  (l.takeWhile (· != "->"), (l.dropWhile (· != "->")).drop 1)

def showItems (l : List Item) : String :=
  " ".intercalate (l.map fun
    | .node n => s!"N{n.forest}.{n.handle}.{n.gen}"
    | .int v => s!"I{v}")

/-- the checks performed at a `sync` record -/
def doSync (st : St) (ln : Nat) : St := Id.run do
  let mut st := st
  let mut t := st.t
  if t.pendingCascade then
    let v := t.view
    t := { t.loseL (staleEntry v) with pendingCascade := false }
  let cu := countByHandle t.U.entries
  let cl := countByHandle t.L.entries
  for ((f, h), o) in t.obs.toList do
    if t.destroyed.contains f then continue
    let up := cu.getD (f, h) 0
    let lo := cl.getD (f, h) 0
    st := tick st 2
    if o.cc != o.cnt then
      st := diff st ln "cc-vs-table" s!"node=N{f}.{h} expected(cnt of real table)={o.cnt} got(cc)={o.cc}"
    if o.cc > up then
      st := diff st ln "cc-above-model" s!"node=N{f}.{h} expected<={up} got={o.cc}"
    if o.cc < lo then
      st := diff st ln "cc-below-model" s!"node=N{f}.{h} expected>={lo} got={o.cc}"
    if up > 0 then
      st := bump st (if lo == up then "cc.exact" else "cc.range")
    -- no certainly-present entry may mention a live handle under another identity
    if o.alive then
      let bad := t.L.entries.any (fun e => e.nodes.any (fun n => n.forest == f && n.handle == h && n.gen != o.gen))
      if bad then
        st := diff st ln "reuse-while-cached" s!"node=N{f}.{h} now={o.gen} but a live entry mentions another identity"
  for (et, n) in t.entries do
    let up := countType t.U.entries et
    let lo := countType t.L.entries et
    st := tick st
    if n > up then st := diff st ln "entries-above-model" s!"etype={et} expected<={up} got={n}"
    if n < lo then st := diff st ln "entries-below-model" s!"etype={et} expected>={lo} got={n}"
    if up > 0 then st := bump st (if lo == up then "entries.exact" else "entries.range")
  return { st with t := t }

def setEntries (l : List (Nat × Nat)) (et n : Nat) : List (Nat × Nat) :=
  (et, n) :: l.filter (fun p => p.1 != et)

/-- pointwise oracle for the end-to-end part -/
def oracle (op : String) (a b : List String) : Option (List String) :=
  let bin (f : Val → Val → Option Val) : Option (List String) :=
    if a.length != b.length then none else
    (List.zip a b).mapM (fun (x, y) => do
      let x ← Val.parse x; let y ← Val.parse y; let r ← f x y; pure r.toStr)
  match op with
  | "BUILD" => some a
  | "COPY" => a.mapM (fun x => do
      let x ← Val.parse x
      match x with
      | .b v => pure (if v then "1" else "0")
      | _ => none)
  | "UNION" => bin fun | .b x, .b y => some (.b (x || y)) | _, _ => none
  | "INTERSECTION" => bin fun | .b x, .b y => some (.b (x && y)) | _, _ => none
  | "PLUS" => bin fun | .i x, .i y => some (.i (x + y)) | _, _ => none
  | "MULTIPLY" => bin fun | .i x, .i y => some (.i (x * y)) | _, _ => none
  | "MAXIMUM" => bin fun | .i x, .i y => some (.i (max x y)) | _, _ => none
  | _ => none

def handleTrace (st : St) (ln : Nat) (w : List String) : St := Id.run do
  let t := st.t
  match w with
  | "cfg" :: a :: b :: _ =>
    match a.toNat?, b.toNat? with
    | some a, some b =>
      let st := bump st s!"trace.style.{a}"
      let st := bump st s!"trace.stale.{b}"
      return { st with t := { t with style := a, stale := b } }
    | _, _ => return diff st ln "parse" "cfg"
  | ["etype", i, pat] =>
    match i.toNat? with
    | none => return diff st ln "parse" "etype"
    | some i =>
      -- forests: digits following an 'N'
      let cs := pat.toList
      let rec go : List Char → List Nat → List Nat
        | 'N' :: d :: rest, acc => go rest (if d.isDigit then (d.toNat - '0'.toNat) :: acc else acc)
        | _ :: rest, acc => go rest acc
        | [], acc => acc
      return { st with t := { t with etForests := (i, go cs []) :: t.etForests } }
  | "find" :: et :: rest =>
    let (ks, rs) := splitArrow rest
    match et.toNat?, parseItems ks with
    | some et, some key =>
      let v := t.view
      let tid := t.tableOf et
      match rs with
      | ["miss"] =>
        let st := bump (tick st) "find.miss"
        let st := if (t.U.lookup et key).isSome then bump st "find.miss.modelHadEntry" else st
        let st := match t.U.lookup et key with
          | some e => if deadEntry v e then bump st "find.miss.deadEntry" else st
          | none => st
        -- `CT.step` for a miss: always accepted, entries with this key are gone
        let mut t := t
        match step t.U v (.find et key none), step t.L v (.find et key none) with
        | some u, some l => t := { t with U := u, L := l }
        | _, _ => t := t
        if t.aggressive then
          t := { t.loseL (fun e => t.inTable tid e && staleEntry v e) with pendingCascade := true }
        return { st with t := t }
      | "hit" :: rtoks =>
        match parseItems rtoks with
        | none => return diff st ln "parse" "hit result"
        | some r =>
          let st := tick st
          match step t.U v (.find et key (some r)) with
          | none =>
            let why := match t.U.lookup et key with
              | none => "no entry for this key was added (or it was removed / its nodes were recycled)"
              | some e =>
                if e.result != r then s!"most recent add stored [{showItems e.result}]"
                else "an entry with a dead node (or dead type) was returned"
            return diff st ln "find-hit" s!"etype={et} key=[{showItems key}] expected=miss-or-other got=hit[{showItems r}] : {why}"
          | some _ =>
            let st := bump st "find.hit"
            let e : Entry := ⟨et, key, r⟩
            let mut t := t
            if t.aggressive then
              t := { t.loseL (fun x => t.inTable tid x && staleEntry v x && x != e) with pendingCascade := true }
            if !(t.L.entries.contains e) then
              t := { t with L := t.L.add e }
            return { st with t := t }
      | _ => return diff st ln "parse" "find outcome"
    | _, _ => return diff st ln "parse" "find"
  | "add" :: et :: rest =>
    let (ks, rs) := splitArrow rest
    match et.toNat?, parseItems ks, parseItems rs with
    | some et, some key, some r =>
      let v := t.view
      let e : Entry := ⟨et, key, r⟩
      let st := tick st
      match step t.U v (.add e) with
      | none => return diff st ln "add-protocol" s!"etype={et} key=[{showItems key}] expected=key-absent got=key-present-in-model"
      | some u =>
        let tid := t.tableOf et
        let mut t := { t with U := u }
        if !t.chained then t := t.loseL (t.inTable tid)
        t := { t with L := (t.L.discardWhere (fun x => x.hasKey et key)).add e }
        let st := if e.nodes.any v.dead then diff st ln "add-dead" s!"etype={et} entry mentions a dead node" else st
        return { (bump st "add") with t := t }
    | _, _, _ => return diff st ln "parse" "add"
  | ["gc", tid, whenn] =>
    match tid.toNat? with
    | none => return diff st ln "parse" "gc"
    | some tid =>
      let v := t.view
      let st := bump st s!"gc.{whenn}"
      let mut t := { t with expanded := tid :: t.expanded }
      if whenn == "add" then
        t := t.loseBoth (fun e => t.inTable tid e && staleEntry v e)
        if !t.chained then t := t.loseL (t.inTable tid)
      else
        t := t.loseL (t.inTable tid)
      return { st with t := { t with pendingCascade := true } }
  | "build" :: _ =>
    let v := t.view
    let mut t := t
    if t.mono && !t.chained then t := t.loseL (fun _ => true)
    if t.mono && t.aggressive then
      t := { t.loseL (staleEntry v) with pendingCascade := true }
    return { (bump st "build") with t := t }
  | "release" :: _ => return bump st "release"
  | "kill" :: _ => return bump st "kill"
  | ["rmstales"] =>
    let v := t.view
    let mut t := t
    match step t.U v .removeStales, step t.L v .removeStales with
    | some u, some l => t := { t with U := u, L := l }
    | _, _ => t := t
    if !t.chained then
      t := t.loseL (fun e => t.expanded.contains (t.tableOf e.etype))
    return { (bump (tick st) "rmstales") with t := { t with pendingCascade := true } }
  | ["rmall"] =>
    match step t.U t.view .removeAll, step t.L t.view .removeAll with
    | some u, some l => return { (bump (tick st) "rmall") with t := { t with U := u, L := l } }
    | _, _ => return diff st ln "model" "removeAll rejected"
  | ["clearf", f] =>
    match f.toNat? with
    | none => return diff st ln "parse" "clearf"
    | some f =>
      let v := t.view
      let p : Entry → Bool :=
        if t.mono then fun e => t.typeHasForest e.etype f || staleEntry v e
        else fun e => t.typeHasForest e.etype f
      let mut t := t.loseBoth p
      if t.mono && !t.chained then
        t := t.loseL (fun e => t.expanded.contains (t.tableOf e.etype))
      return { (bump (tick st) "clearf") with t := { t with pendingCascade := t.mono } }
  | ["fdestroy", f] =>
    match f.toNat? with
    | none => return diff st ln "parse" "fdestroy"
    | some f => return { (bump st "fdestroy") with t := { t with destroyed := f :: t.destroyed } }
  | ["obs", tok, al, inc, cc, cnt, c] =>
    match (tok.drop 1).toString.splitOn ".", al.toNat?, inc.toNat?, cc.toNat?, cnt.toNat?, parseGen c with
    | [f, h], some al, some inc, some cc, some cnt, some g =>
      match f.toNat?, h.toNat? with
      | some f, some h =>
        let o : Obs := ⟨al == 1, inc, cc, cnt, g⟩
        return { st with t := { t with obs := t.obs.insert (f, h) o } }
      | _, _ => return diff st ln "parse" "obs node"
    | _, _, _, _, _, _ => return diff st ln "parse" "obs"
  | ["entries", et, n] =>
    match et.toNat?, n.toNat? with
    | some et, some n => return { st with t := { t with entries := setEntries t.entries et n } }
    | _, _ => return diff st ln "parse" "entries"
  | ["sync"] => return doSync st ln
  | "dom" :: _ => return st
  | "forest" :: _ => return st
  | k :: _ => return diff st ln "unknown-record" s!"got={k}"
  | [] => return st

def handleE2E (st : St) (ln : Nat) (w : List String) : St := Id.run do
  let e := st.e
  match w with
  | "dom" :: _ => return st
  | ["steps", _] => return st
  | "ecfg" :: ci :: _ =>
    match ci.toNat? with
    | some ci =>
      return { (bump st "e2e.configs") with e := { e with cfg := ci, opr := {}, argA := {}, argB := {}, nres := 0 } }
    | none => return diff st ln "parse" "ecfg"
  | ["opr", _, s, name] =>
    match s.toNat? with
    | some s => return { st with e := { e with opr := e.opr.insert s name } }
    | none => return diff st ln "parse" "opr"
  | "arg" :: _ :: s :: which :: tbl =>
    match s.toNat? with
    | some s =>
      if which == "A" then return { st with e := { e with argA := e.argA.insert s tbl } }
      else return { st with e := { e with argB := e.argB.insert s tbl } }
    | none => return diff st ln "parse" "arg"
  | "res" :: ci :: s :: tbl =>
    match ci.toNat?, s.toNat? with
    | some ci, some s =>
      let mut st := st
      let name := e.opr.getD s "?"
      -- (a) pointwise oracle
      st := tick st
      match oracle name (e.argA.getD s []) (e.argB.getD s []) with
      | some want =>
        if want != tbl then
          st := diff st ln "e2e-oracle" s!"cfg={ci} step={s} op={name} expected={" ".intercalate want} got={" ".intercalate tbl}"
        else st := bump st s!"e2e.op.{name}"
      | none => st := diff st ln "e2e-oracle" s!"cfg={ci} step={s} op={name} oracle undefined for the printed arguments, got={" ".intercalate tbl}"
      -- (b) identical between configurations
      let mut e := { e with nres := e.nres + 1 }
      if ci == 0 then
        e := { e with ref := e.ref.insert s tbl, nres0 := e.nres }
      else
        st := tick st
        match e.ref[s]? with
        | some r0 =>
          if r0 != tbl then
            st := diff st ln "e2e-config" s!"cfg={ci} step={s} op={name} expected(cfg 0)={" ".intercalate r0} got={" ".intercalate tbl}"
          else st := bump st "e2e.sameAcrossConfigs"
        | none => st := diff st ln "e2e-config" s!"cfg={ci} step={s} has no counterpart in cfg 0"
      return { st with e := e }
    | _, _ => return diff st ln "parse" "res"
  | ["ccsum", ci, fi, nz, bad] =>
    match bad.toNat?, nz.toNat? with
    | some b, some nz =>
      let st := tick st
      let st := if nz > 0 then bump st "e2e.ccsum.nonzero" else st
      if b != 0 then return diff st ln "e2e-cc" s!"cfg={ci} forest={fi} expected=0 got={b} nodes whose cache count differs from the table"
      else return st
    | _, _ => return diff st ln "parse" "ccsum"
  | ["endcfg", ci] =>
    let st := tick st
    if e.nres != e.nres0 then
      return diff st ln "e2e-config" s!"cfg={ci} expected={e.nres0} results got={e.nres}"
    else return st
  | k :: _ => return diff st ln "unknown-record" s!"got={k}"
  | [] => return st

def handleLine (st : St) (ln : Nat) (line : String) : St :=
  if line.isEmpty then st else
  let w := line.splitOn " "
  match w with
  | "family" :: _ => st
  | "seed" :: _ => st
  | "tier" :: _ => st
  | "stat" :: _ => st
  | ["done", rc] =>
    let st := { st with sawDone := true }
    if rc == "0" then st else diff st ln "done" s!"expected=0 got={rc}"
  | "crash" :: rest => diff st ln "crash" (" ".intercalate rest)
  | ["case", c] => { (bump st "cases") with case := c, mode := "", t := {}, e := {} }
  | ["mode", m] => { (bump st s!"mode.{m}") with mode := m }
  | ["endcase"] => { st with mode := "", t := {}, e := {} }
  | _ =>
    if st.mode == "trace" then handleTrace st ln w
    else if st.mode == "e2e" then handleE2E st ln w
    else diff st ln "unknown-record" s!"outside of a case: {line}"

def loop : List String → Nat → St → St
  | [], _, st => st
  | l :: ls, n, st => loop ls (n + 1) (handleLine st n l)

end Meddly.CTableAccept

namespace Meddly
/-- acceptor of family `ctable` -/
def acceptCTable (lines : Array String) : Report :=
  let st := CTableAccept.loop lines.toList 1 {}
  if st.sawDone then st.rep
  else st.rep.addDiff s!"line={lines.size} case={st.case} kind=truncated expected=done-record got=end-of-transcript (harness crashed?)"
end Meddly
