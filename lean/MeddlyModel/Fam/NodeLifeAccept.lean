/-
  Acceptor for the transcript of harness family `nodelife` (harness/fam_nodelife.cc).

  Transcript grammar (one record per line, first token = record kind):

    family nodelife | seed <n> | tier <t> | stat <key> <n> | done <rc>
    case <i>  …  endcase
    kind ca | kind nl

  counter_array cases (`kind ca`), replayed on `Meddly.CounterArray`:
    ca expand <n> -> 0 <bits>            ca shrink <n> -> 0 <bits>
    ca get <i> -> <v> <bits>             ca swap <i> <j> -> 0 <bits>
    ca inc <i> -> 0 <bits>               ca dec <i> -> 0 <bits>
    ca izbi <i> -> <0|1> <bits>          ca ipad <i> -> <0|1> <bits>
    ca rep <n> <inc|dec|izbi|ipad> <i> -> <sum of the n results> <bits>
  (<bits> = `entry_bits()` after the call; compared with `CA.bits` of the model.)

  node-lifetime cases (`kind nl`), replayed on `Meddly.NodeLife`:
    dom <s1> … <sK>                      level sizes, bottom up
    forest <storage>,<mm>,<never|optimistic|pessimistic>
    op link <h> | op unlink <h> | op cache <h> | op uncache <h>
    op linkn <h> <n> | op unlinkn <h> <n> | op cachen <h> <n> | op uncachen <h> <n>
    op mk <lvl> <n> <c1> … <cn> -> <res> <new|hit|red|zero>      child/result token: N<handle> | T<int>
    op eset <slot> <tok> | op ecopy <dst> <src> | op eclear <slot>      (dd_edge::set / operator= / set(0))
    h <handle> <A|D|F> <inCount> <cacheCount>     state of a handle whose state changed in this step
    last <getLastNode> <getCurrentNumNodes>
    end                                   end of the step: the WHOLE model state is compared
    etab <slot> <v…>                      function table of the user edge in <slot>
    phase <name>                          informational
    final <last> <active>                 everything was released: model must be empty

  The `h` records are a delta encoding of the full per-step dump: the acceptor keeps the last
  reported state of every handle (`obs`) and compares ALL handles 1..last with the model at
  every `end`.
-/
import MeddlyModel.Basic.Report
import MeddlyModel.State.CounterArray
import MeddlyModel.State.NodeLife

namespace Meddly.Fam.NodeLife
open Meddly

structure Obs where
  cls : Char := 'F'
  inc : Nat := 0
  cc  : Nat := 0
  deriving BEq, Inhabited

structure Acc where
  rep     : Report := {}
  lineNo  : Nat := 0
  caseNo  : Nat := 0
  kind    : String := ""
  -- counter_array
  ca      : CounterArray.CA := CounterArray.init
  caOk    : Bool := true
  -- node life
  nl      : Meddly.NodeLife.St := Meddly.NodeLife.init .optimistic 0
  nlOk    : Bool := true
  sizes   : Array Nat := #[]
  obs     : Array Obs := #[]
  obsLast : Nat := 0
  obsAct  : Nat := 0
  edges   : Array Nat := #[0, 0, 0, 0, 0, 0, 0, 0]
  etabs   : Array (Option String) := #[none, none, none, none, none, none, none, none]
  keys    : List (Nat × String) := []
  sawLast : Bool := false
  sawDone : Bool := false
  inCase  : Bool := false

def Acc.diff (a : Acc) (kind expected got : String) : Acc :=
  let msg := s!"line={a.lineNo} case={a.caseNo} kind={kind} expected={expected} got={got}"
  { a with rep := a.rep.addDiff msg }
def Acc.tick (a : Acc) (n : Nat := 1) : Acc := { a with rep := a.rep.tick n }
def Acc.bump (a : Acc) (k : String) (n : Nat := 1) : Acc := { a with rep := a.rep.bump k n }

/-! ### counter_array -/

def caOpOf (name : String) (i : Nat) : Option CounterArray.Op :=
  match name with
  | "inc" => some (.increment i)
  | "dec" => some (.decrement i)
  | "izbi" => some (.isZeroBeforeIncrement i)
  | "ipad" => some (.isPositiveAfterDecrement i)
  | _ => none

/-- apply `op` n times, summing the results (tail recursive) -/
def caRep (op : CounterArray.Op) : Nat → CounterArray.CA → Nat → Option (CounterArray.CA × Nat)
  | 0, c, acc => some (c, acc)
  | n+1, c, acc =>
    match CounterArray.step c op with
    | none => none
    | some (c', r) => caRep op n c' (acc + r)

def acceptCa (a : Acc) (toks : List String) : Acc :=
  if !a.caOk then a.bump "ca.skipped" else
  let finish (a : Acc) (what : String) (res : Option (CounterArray.CA × Nat)) (gotR gotB : String) : Acc :=
    match res with
    | none =>
      { (a.diff s!"ca.{what}" "in-contract call" "model rejects the call (index/range)") with caOk := false }
    | some (c, r) =>
      let a := { a with ca := c }
      let a := a.tick 2
      let a := if toString r == gotR then a
               else { (a.diff s!"ca.{what}.result" (toString r) gotR) with caOk := false }
      let a := if toString c.bits == gotB then a
               else { (a.diff s!"ca.{what}.bits" (toString c.bits) gotB) with caOk := false }
      a.bump s!"ca.{what}"
  match toks with
  | ["ca", "expand", n, "->", r, b] =>
    match n.toNat? with
    | some n => finish a "expand" (CounterArray.step a.ca (.expand n)) r b
    | none => a.diff "ca.parse" "number" n
  | ["ca", "shrink", n, "->", r, b] =>
    match n.toNat? with
    | some n => finish a "shrink" (CounterArray.step a.ca (.shrink n)) r b
    | none => a.diff "ca.parse" "number" n
  | ["ca", "get", i, "->", r, b] =>
    match i.toNat? with
    | some i => finish a "get" (CounterArray.step a.ca (.get i)) r b
    | none => a.diff "ca.parse" "number" i
  | ["ca", "swap", i, j, "->", r, b] =>
    match i.toNat?, j.toNat? with
    | some i, some j => finish a "swap" (CounterArray.step a.ca (.swap i j)) r b
    | _, _ => a.diff "ca.parse" "numbers" s!"{i} {j}"
  | ["ca", "rep", n, name, i, "->", r, b] =>
    match n.toNat?, i.toNat? with
    | some n, some i =>
      match caOpOf name i with
      | some op => finish a s!"rep.{name}" (caRep op n a.ca 0) r b
      | none => a.diff "ca.parse" "inc|dec|izbi|ipad" name
    | _, _ => a.diff "ca.parse" "numbers" s!"{n} {i}"
  | ["ca", name, i, "->", r, b] =>
    match i.toNat? with
    | some i =>
      match caOpOf name i with
      | some op => finish a name (CounterArray.step a.ca op) r b
      | none => a.diff "ca.unknown-op" "expand|shrink|get|swap|inc|dec|izbi|ipad|rep" name
    | none => a.diff "ca.parse" "number" i
  | _ => a.diff "ca.parse" "ca <op> <args> -> <result> <bits>" (" ".intercalate toks)

/-! ### node lifetime -/

open Meddly.NodeLife in
def clsOf : HState → Char
  | .free => 'F'
  | .active .. => 'A'
  | .deleted _ => 'D'

/-- token `N<h>` ↦ h, `T<v>` ↦ 0 (terminals are not reference counted) -/
def tokHandle (t : String) : Option Nat :=
  if t.startsWith "N" then (t.drop 1).toString.toNat?
  else if t.startsWith "T" then some 0
  else none

/-- apply a model op; an illegal op (contract violation in the model) is a diff and stops the
    comparison for the rest of the case -/
def Acc.nlStep (a : Acc) (op : Meddly.NodeLife.Op) (what : String) : Acc :=
  if !a.nlOk then a else
  match Meddly.NodeLife.step a.nl op with
  | some s => { a with nl := s }
  | none =>
    { (a.diff s!"nl.illegal.{what}" "an operation inside the API contract of the model"
        s!"model rejects {repr op}") with nlOk := false }

/-- n-fold repetition (tail recursive) -/
def Acc.nlRep (a : Acc) (op : Meddly.NodeLife.Op) (what : String) : Nat → Acc
  | 0 => a
  | n+1 => if a.nlOk then (a.nlStep op what).nlRep op what n else a

def setObs (obs : Array Obs) (h : Nat) (o : Obs) : Array Obs :=
  let obs := if h < obs.size then obs else obs ++ Array.replicate (h + 1 - obs.size) ({} : Obs)
  obs.set! h o

/-- full comparison of the model with the last reported library state -/
def Acc.compareAll (a : Acc) : Acc :=
  if !a.nlOk then a.bump "nl.step.skipped" else
  let tab := a.nl.tab.toArray
  let mlast := a.nl.last
  let top := max mlast a.obsLast
  let a := a.tick 2
  let lastOk := mlast == a.obsLast
  let a := if lastOk then a
           else a.diff "nl.last" (toString mlast) (toString a.obsLast)
  let nact := tab.foldl (fun n e => if Meddly.NodeLife.isActive e then n + 1 else n) 0
  let actOk := nact == a.obsAct
  let a := if actOk then a
           else a.diff "nl.numActive" (toString nact) (toString a.obsAct)
  Id.run do
    let mut a := a
    let mut bad := 0
    for h in [1:top+1] do
      let e := tab.getD h .free
      let o := if h ≤ a.obsLast then a.obs.getD h {} else {}
      let m : Obs := { cls := clsOf e, inc := Meddly.NodeLife.incOf e, cc := Meddly.NodeLife.ccOf e }
      if m != o then
        bad := bad + 1
        if bad ≤ 5 then
          a := a.diff s!"nl.handle.{h}" s!"{m.cls} in={m.inc} cc={m.cc}" s!"{o.cls} in={o.inc} cc={o.cc}"
    a := a.tick top
    -- drop the content keys of nodes that are no longer alive
    a := { a with keys := a.keys.filter (fun (h, _) => Meddly.NodeLife.isActive (tab.getD h .free)) }
    -- after a disagreement the model is out of sync: stop comparing this case
    if bad > 0 || !lastOk || !actOk then a := { a with nlOk := false }
    return a.bump "nl.steps"

def parseKids (toks : List String) : Option (List Nat) :=
  toks.mapM tokHandle

def Acc.unlinkEdge (a : Acc) (slot : Nat) : Acc :=
  let old := a.edges.getD slot 0
  if old == 0 then a else a.nlStep (.unlink old) "edge-release"

def acceptMk (a : Acc) (lvl n : Nat) (kidToks : List String) (res kind : String) : Acc :=
  match parseKids kidToks, tokHandle res with
  | some kids, some rh =>
    let key := s!"{lvl}:" ++ " ".intercalate kidToks
    let allZero := kidToks.all (· == "T0")
    let allSame := match kidToks with
      | [] => true
      | k :: ks => ks.all (· == k)
    let lsize := a.sizes.getD (lvl - 1) 0
    let a := if n == lsize && kidToks.length == n then a
             else a.diff "nl.mk.size" (toString lsize) (toString n)
    let existing := a.keys.find? (fun (_, k) => k == key)
    let expKind :=
      if allZero then "zero"
      else if allSame then "red"
      else match existing with
        | some _ => "hit"
        | none => "new"
    let a := a.tick
    let a := if expKind == kind then a else a.diff "nl.mk.kind" expKind kind
    let a := a.bump s!"nl.mk.{kind}"
    match kind with
    | "zero" =>
      if res == "T0" then a else a.diff "nl.mk.zero.result" "T0" res
    | "red" =>
      let a := if some res == kidToks.head? then a
               else a.diff "nl.mk.red.result" (kidToks.head?.getD "?") res
      -- the library unlinks all children but one
      a.nlRep (.unlink rh) "mk.red" (n - 1)
    | "hit" =>
      let a := match existing with
        | some (h, _) => if h == rh then a else a.diff "nl.mk.hit.handle" s!"N{h}" res
        | none => a
      -- unlinkAllDown, then linkNode(found)
      let a := kids.foldl (fun a k => a.nlStep (.unlink k) "mk.hit.unlinkDown") a
      a.nlStep (.link rh) "mk.hit.link"
    | "new" =>
      let cur := a.nl.get rh
      let a := a.tick 2
      let a := if Meddly.NodeLife.isFree cur then a
               else a.diff "nl.mk.new.handle-not-free" "a free handle"
                      s!"N{rh} which is {clsOf cur} in={Meddly.NodeLife.incOf cur} cc={Meddly.NodeLife.ccOf cur}"
      let a := if rh ≤ a.nl.last + 1 then a
               else a.diff "nl.mk.new.handle-skips" s!"at most N{a.nl.last + 1}" res
      let a := a.nlStep (.alloc rh lvl kids) "mk.new"
      { a with keys := (rh, key) :: a.keys }
    | _ => a.diff "nl.mk.kind-unknown" "new|hit|red|zero" kind
  | _, _ => a.diff "nl.mk.parse" "N<h>|T<v> tokens" (" ".intercalate (kidToks ++ [res]))

def acceptOp (a : Acc) (toks : List String) : Acc :=
  let a := { a with sawLast := false }
  -- after the first disagreement of a case the model is out of sync: skip (and count) the rest
  if !a.nlOk then a.bump "nl.op.skipped" else
  match toks with
  | ["op", "link", h] =>
    match h.toNat? with
    | some h => (a.nlStep (.link h) "link").bump "nl.link"
    | none => a.diff "nl.parse" "handle" h
  | ["op", "unlink", h] =>
    match h.toNat? with
    | some h => (a.nlStep (.unlink h) "unlink").bump "nl.unlink"
    | none => a.diff "nl.parse" "handle" h
  | ["op", "cache", h] =>
    match h.toNat? with
    | some h => (a.nlStep (.cache h) "cache").bump "nl.cache"
    | none => a.diff "nl.parse" "handle" h
  | ["op", "uncache", h] =>
    match h.toNat? with
    | some h => (a.nlStep (.uncache h) "uncache").bump "nl.uncache"
    | none => a.diff "nl.parse" "handle" h
  | ["op", "linkn", h, n] =>
    match h.toNat?, n.toNat? with
    | some h, some n => (a.nlRep (.link h) "linkn" n).bump "nl.linkn"
    | _, _ => a.diff "nl.parse" "handle count" s!"{h} {n}"
  | ["op", "unlinkn", h, n] =>
    match h.toNat?, n.toNat? with
    | some h, some n => (a.nlRep (.unlink h) "unlinkn" n).bump "nl.unlinkn"
    | _, _ => a.diff "nl.parse" "handle count" s!"{h} {n}"
  | ["op", "cachen", h, n] =>
    match h.toNat?, n.toNat? with
    | some h, some n => (a.nlRep (.cache h) "cachen" n).bump "nl.cachen"
    | _, _ => a.diff "nl.parse" "handle count" s!"{h} {n}"
  | ["op", "uncachen", h, n] =>
    match h.toNat?, n.toNat? with
    | some h, some n => (a.nlRep (.uncache h) "uncachen" n).bump "nl.uncachen"
    | _, _ => a.diff "nl.parse" "handle count" s!"{h} {n}"
  | ["op", "eset", slot, tok] =>
    match slot.toNat?, tokHandle tok with
    | some slot, some h =>
      -- dd_edge::set(n): unlinkNode(old); node = n   (the caller's reference moves into the edge)
      let a := a.unlinkEdge slot
      ({ a with edges := a.edges.set! slot h, etabs := a.etabs.set! slot none }).bump "nl.eset"
    | _, _ => a.diff "nl.parse" "slot token" s!"{slot} {tok}"
  | ["op", "ecopy", dst, src] =>
    match dst.toNat?, src.toNat? with
    | some dst, some src =>
      let nd := a.edges.getD dst 0
      let ns := a.edges.getD src 0
      -- operator=: if (equals(e)) return; detach() → unlinkNode(old); init(e) → linkNode(new)
      if nd == ns then a.bump "nl.ecopy.same"
      else
        let a := a.unlinkEdge dst
        let a := a.nlStep (.link ns) "edge-copy"
        ({ a with edges := a.edges.set! dst ns, etabs := a.etabs.set! dst (a.etabs.getD src none) }).bump "nl.ecopy"
    | _, _ => a.diff "nl.parse" "slot slot" s!"{dst} {src}"
  | ["op", "eclear", slot] =>
    match slot.toNat? with
    | some slot =>
      let a := a.unlinkEdge slot
      ({ a with edges := a.edges.set! slot 0, etabs := a.etabs.set! slot none }).bump "nl.eclear"
    | none => a.diff "nl.parse" "slot" slot
  | "op" :: "mk" :: lvl :: n :: rest =>
    match lvl.toNat?, n.toNat? with
    | some lvl, some n =>
      match rest.drop n with
      | ["->", res, kind] => acceptMk a lvl n (rest.take n) res kind
      | _ => a.diff "nl.mk.parse" "op mk <lvl> <n> <kids…> -> <res> <kind>" (" ".intercalate toks)
    | _, _ => a.diff "nl.mk.parse" "numbers" s!"{lvl} {n}"
  | _ => a.diff "nl.unknown-op" "link|unlink|cache|uncache|…n|mk|eset|ecopy|eclear" (" ".intercalate toks)

def acceptLine (a : Acc) (line : String) : Acc :=
  let a := { a with lineNo := a.lineNo + 1 }
  if line.isEmpty then a else
  let toks := line.splitOn " "
  match toks with
  | "family" :: _ => a
  | "seed" :: _ => a
  | "tier" :: _ => a
  | "stat" :: _ => a
  | ["done", rc] =>
    let a := { a with sawDone := true }
    if rc == "0" then a else a.diff "done" "0" rc
  | "crash" :: rest => a.diff "crash" "no crash" (" ".intercalate rest)
  | ["case", i] =>
    { a with caseNo := i.toNat?.getD 0, kind := "", ca := CounterArray.init, caOk := true,
             nl := Meddly.NodeLife.init .optimistic 0, nlOk := true, sizes := #[], obs := #[],
             obsLast := 0, obsAct := 0, edges := #[0, 0, 0, 0, 0, 0, 0, 0],
             etabs := #[none, none, none, none, none, none, none, none], keys := [],
             inCase := true, rep := a.rep.bump "cases" }
  | ["endcase"] => { a with inCase := false }
  | ["kind", k] =>
    if k == "ca" || k == "nl" then { a with kind := k, rep := a.rep.bump s!"kind.{k}" }
    else a.diff "kind" "ca|nl" k
  | "ca" :: _ => if a.kind == "ca" then acceptCa a toks else a.diff "ca.outside-ca-case" "kind ca" a.kind
  | "dom" :: ss =>
    let sz := ss.filterMap String.toNat?
    { a with sizes := sz.toArray, nl := { a.nl with K := sz.length } }
  | ["forest", pol] =>
    match (pol.splitOn ",").getLast? with
    | some "pessimistic" => { a with nl := { a.nl with pol := .pessimistic }, rep := a.rep.bump "nl.policy.pessimistic" }
    -- `never` is not distinguished from `optimistic` by the code base (see NodeLife.lean)
    | some "optimistic" => { a with nl := { a.nl with pol := .optimistic }, rep := a.rep.bump "nl.policy.optimistic" }
    | some "never" => { a with nl := { a.nl with pol := .optimistic }, rep := a.rep.bump "nl.policy.never" }
    | _ => a.diff "forest" "…,<never|optimistic|pessimistic>" pol
  | "op" :: _ => if a.kind == "nl" then acceptOp a toks else a.diff "op.outside-nl-case" "kind nl" a.kind
  | ["h", h, c, i, cc] =>
    match h.toNat?, i.toNat?, cc.toNat? with
    | some h, some i, some cc =>
      let cls := c.toList.headD '?'
      if cls == 'A' || cls == 'D' || cls == 'F' then
        { a with obs := setObs a.obs h { cls := cls, inc := i, cc := cc } }
      else a.diff "h.class" "A|D|F" c
    | _, _, _ => a.diff "h.parse" "h <handle> <A|D|F> <in> <cc>" line
  | ["last", n, act] =>
    match n.toNat?, act.toNat? with
    | some n, some act =>
      -- entries beyond `last` are outside the handle table: forget them
      let obs := if n + 1 < a.obs.size then a.obs.extract 0 (n + 1) else a.obs
      { a with obsLast := n, obsAct := act, obs := obs, sawLast := true }
    | _, _ => a.diff "last.parse" "last <n> <active>" line
  | ["end"] =>
    if a.sawLast then a.compareAll else a.diff "end" "a `last` record before `end`" "none"
  | "etab" :: slot :: vals =>
    if !a.nlOk then a else
    match slot.toNat? with
    | some slot =>
      let t := " ".intercalate vals
      match a.etabs.getD slot none with
      | none => { a with etabs := a.etabs.set! slot (some t) }
      | some t0 =>
        let a := a.tick
        (if t0 == t then a else a.diff s!"nl.edge-function.{slot}" t0 t).bump "nl.etab.checked"
    | none => a.diff "etab.parse" "slot" slot
  | "phase" :: _ => a
  | ["final", l, act] =>
    if !a.nlOk then a else
    let a := a.tick 3
    let a := if l == "0" && act == "0" then a else a.diff "nl.final.library" "0 0" s!"{l} {act}"
    let a := if a.nl.ext.isEmpty then a
             else a.diff "nl.final.ledger" "no outside reference left in the model" (toString a.nl.ext)
    let a := if a.nl.tab.all Meddly.NodeLife.isFree then a
             else a.diff "nl.final.model" "every handle free (all_reclaimed)" "model still has nodes"
    a.bump "nl.final"
  | k :: _ => a.diff "unknown-record" "a known record kind" k
  | [] => a

end Meddly.Fam.NodeLife

namespace Meddly

/-- replay a `nodelife` transcript on the CounterArray / NodeLife models -/
def acceptNodeLife (lines : Array String) : Report :=
  let a := lines.foldl Fam.NodeLife.acceptLine ({} : Fam.NodeLife.Acc)
  -- a transcript without the final `done` record (or ending inside a case) means the harness
  -- crashed or hung: never accept that silently
  let a := if a.sawDone && !a.inCase then a
           else a.diff "truncated" "a complete transcript ending with `done 0`"
                  (if a.inCase then s!"transcript ends inside case {a.caseNo}" else "no `done` record")
  a.rep

end Meddly
