/-
  Known findings, as NEGATIVE WITNESS THEOREMS.

  The positive theorems of this project are about the algorithm the library is meant to
  implement (`Satur.satur_eq_lfp`, `Reach.split_union`, `EDD.copyEVtoMT_eval`,
  `Arith.range_min_spec`, `Arith.arith_error_iff`, …).  Where the C++ code VIOLATES the property,
  the violation is recorded in /verif/known_findings.jsonl as a `known` finding.  This file gives
  each of them the treatment a proof-based verification owes it:

    * a small, executable model of the code AS IT IS (suffix `_asCoded` / `Jump`), next to the
      model of the corrected algorithm;
    * a theorem `<tag>_violates : ¬ (property instance)` closed by evaluation (`decide`) on a
      concrete witness, which is the input of the harness probe that replays it on the library;
    * the name of the positive theorem it contrasts with, and (where the repair is known) the
      same evaluation with the repair switched on.

  Nothing here is an axiom about the C++: the `_asCoded` definitions are hand-written readings
  of the named source lines; they are tied to the library by the probe cases of the harness
  (the observed outputs quoted in the docstrings are the outputs of these definitions).
-/
import MeddlyModel.Ops.SaturationProofs
import MeddlyModel.Ops.Reach
import MeddlyModel.Spec.ReachTables
import MeddlyModel.Ops.EVApply
import MeddlyModel.Ops.Arith
import MeddlyModel.Spec.Arith
import MeddlyModel.State.ComputeTable

namespace Meddly
namespace KnownFindings
open DD

set_option linter.unusedVariables false

/-! ## 1. F12 (C20) — `forwd_dfs_by_events_mt::recFire` jumps over levels

  sat_pregen.cc:628-632, 707:

      const int rLevel = MAX(ABS(mxdLevel), mddLevel);
      unpacked_node* nb = unpacked_node::newWritable(resF, rLevel, rSize, FULL_ONLY);
      …
      saturateHelper(*nb);            // the events of level rLevel only

  The model: set nodes are trees `DD Bool` of a fully-reduced set forest `S`; relation nodes are
  trees `DD Bool` of the identity-reduced relation forest `relShape S` (position `2k` = unprimed
  level `k`, `2k-1` = primed level `-k`); `entry` is the unpacking `Ru` / `Rp`
  (`initRedundant` for a skipped unprimed level, `initIdentity` for a skipped primed level);
  the events are given by top level (`evs k` = `rel->arrayForLevel(k)`). -/

namespace F12

/-- the identity-reduced relation forest over the variables of the set forest `S` -/
def relShape (S : Shape) : Shape where
  top := 2 * S.top
  size := fun p => S.size ((p + 1) / 2)
  mode := fun p => if p % 2 = 1 then .ident else .red

/-- `ABS(relF->getNodeLevel(mxd))` -/
def mxLevel (m : DD Bool) : Nat := (m.pos + 1) / 2

/-- matrix entry `i → j` of the relation node `m` seen from level `k`:
    `Ru` (`initRedundant` if `m` skips the unprimed level) then `Rp`
    (`initIdentity(-k, i, ·)` if the row skips the primed level) -/
def entry (S : Shape) (m : DD Bool) (k i j : Nat) : DD Bool :=
  cofactor (relShape S) false (2*k - 1) (some i) (cofactor (relShape S) false (2*k) none m i) j

section Defs
variable (S : Shape) (evs : Nat → List (DD Bool))

/-- one round of `saturateHelper` at level `r`: for every event of that level, every `i`, `j`,
    in place, `nb[j] := nb[j] ∪ recFire(nb[i], R[i][j])` -/
def sweepN (fire : DD Bool → DD Bool → DD Bool) (r : Nat) (cs : List (DD Bool)) :
    List (DD Bool) :=
  (evs r).foldl (fun cs e =>
    (Satur.pairs (S.size r)).foldl (fun cs p =>
      Satur.addTo S (r - 1) cs p.2 (fire (cs.getD p.1 Satur.bot) (entry S e r p.1 p.2))) cs) cs

/-- `saturateHelper(nb)`: rounds until no child changes -/
def helperN (fire : DD Bool → DD Bool → DD Bool) (r : Nat) (cs : List (DD Bool)) :
    List (DD Bool) :=
  Satur.loop (sweepN S evs fire r) (Satur.numStates S r + 1) cs

/-- `forwd_dfs_by_events_mt::recFire(mdd, mxd)` AS CODED: the result node is built at
    `rLevel = MAX(|mxd level|, mdd level)` and only `saturateHelper(rLevel)` is run on it.
    The first argument is recursion fuel (an upper bound of `rLevel`). -/
def recFireJump : Nat → DD Bool → DD Bool → DD Bool
  | 0, n, m => .leaf (leafVal false n && leafVal false m)
  | f+1, n, m =>
    if m = .leaf false ∨ n = .leaf false then .leaf false
    else if mxLevel m = 0 then (if n.pos = 0 then .leaf true else n)      -- mxd is the identity
    else
      let r := max (mxLevel m) n.pos
      let first : List (DD Bool) :=
        if n.pos > mxLevel m then
          -- "skipped levels in the MXD": nb[i] = recFire(A[i], mxd)
          (List.range (S.size r)).map fun i =>
            recFireJump f (cofactor S false r none n i) m
        else
          (Satur.pairs (S.size r)).foldl (fun cs p =>
            Satur.addTo S (r - 1) cs p.2
              (recFireJump f (cofactor S false r none n p.1) (entry S m r p.1 p.2)))
            (List.replicate (S.size r) Satur.bot)
      mkNode S false r none (helperN S evs (recFireJump f) r first)

/-- `saturation_by_events_op::saturate(mdd, k)` (carries the level; expands skipped levels) -/
def saturateJump : Nat → DD Bool → DD Bool
  | 0, n => n
  | k+1, n =>
    if n.pos = 0 then n else
    mkNode S false (k+1) none (helperN S evs (recFireJump S evs k) (k+1)
      ((List.range (S.size (k+1))).map fun i =>
        saturateJump k (cofactor S false (k+1) none n i)))

/-- from- and to-state of a pair as one assignment of the relation forest -/
def pairAssign (x y : Assign) : Assign := fun q => if q % 2 = 0 then x (q / 2) else y ((q + 1) / 2)

/-- the SAME events in the semantic form `Satur.saturate` reads them: the sub-relation below
    the matrix entry `i → j` of level `k` of the union of the events with top level `k` -/
def evSem : Nat → Nat → Nat → Satur.Rel := fun k i j x y =>
  (evs k).any fun e => eval (relShape S) false (2*k - 2) (entry S e k i j) (pairAssign x y)

end Defs

/-- domain (2,2,2), fully-reduced set forest -/
def S222 : Shape := { top := 3, size := fun _ => 2, mode := fun _ => .red }

theorem S222_WF : S222.WF where
  size_ge := by intro p _ _; show 2 ≤ 2; omega
  ident_below_red := by intro p h; cases h

/-- `x₁ : a → b` as a node of the relation forest (positions 2, 1) -/
def move1 (a b : Nat) : DD Bool :=
  .node 2 ((List.range 2).map fun i =>
    if i = a then .node 1 ((List.range 2).map fun j => .leaf (decide (j = b))) else .leaf false)

/-- EV1 = `x₁ : 1 → 0 ∧ x₃ : 0 → 1`, `x₂` untouched (level 2 and its primed level skipped = identity) -/
def EV1 : DD Bool := .node 6 [.node 5 [.leaf false, move1 1 0], .leaf false]
/-- EV2 = `x₁ : 0 → 1 ∧ x₂ : 0 → 1`, top level 2 -/
def EV2 : DD Bool := .node 4 [.node 3 [.leaf false, move1 0 1], .leaf false]

def evs : Nat → List (DD Bool)
  | 3 => [EV1]
  | 2 => [EV2]
  | _ => []

/-- init = `{x₁ = 1, x₃ = 0}`, `x₂` free: the node skips level 2 -/
def init : DD Bool := .node 3 [.node 1 [.leaf false, .leaf true], .leaf false]

/-- the events are reduced nodes of the identity-reduced relation forest, the initial set is a
    reduced node of the fully-reduced set forest (level 2 really is skipped by all three) -/
example : Red (relShape S222) false 6 none EV1 = true ∧ Red (relShape S222) false 6 none EV2 = true
    ∧ Red S222 false 3 none init = true := by decide

/-- what the code returns: `{x₁=1,x₃=0} ∪ {x₁=0,x₃=1}`, `x₂` free — 4 states -/
theorem saturateJump_value :
    saturateJump S222 evs 3 init
      = .node 3 [.node 1 [.leaf false, .leaf true], .node 1 [.leaf true, .leaf false]] := by
  decide

/-- what saturation WITHOUT the jump returns (`Satur.saturate`, proved `= lfp`): 5 states -/
theorem saturate_value :
    Satur.saturate S222 (evSem S222 evs) 3 init
      = .node 3 [.node 1 [.leaf false, .leaf true],
                 .node 2 [.node 1 [.leaf true, .leaf false], .leaf true]] := by
  decide

/-- the missed state `(x₁, x₂, x₃) = (1, 1, 1)`: reachable (`EV1` then `EV2`), not in the result -/
theorem F12_witness :
    [1, 1, 1] ∈ Pregen.reachFix (Satur.dom S222) (Satur.setOf S222 init)
                  (Satur.stepRel S222 (evSem S222 evs)) ∧
    Satur.setOf S222 (saturateJump S222 evs 3 init) [1, 1, 1] = false := by decide

set_option maxRecDepth 100000 in
/-- **F12** (known_findings.jsonl: `F12 SATURATION_FORWARD over a pregen_relation with a
    FULLY-reduced set forest`; property C20; C++ site `forwd_dfs_by_events_mt::recFire`,
    sat_pregen.cc:628-632 and 707).

    NEGATION of `satur_eq_lfp` for the code as it is.  Witness in API terms: domain (2,2,2);
    fully-reduced MDD forest; identity-reduced MxD forest; pregen relation by events with
    EV1 = `x₁:1→0 ∧ x₃:0→1` (x₂ untouched) and EV2 = `x₁:0→1 ∧ x₂:0→1`; initial set
    `{x₁=1, x₃=0}` (x₂ free).  `recFire(init[0], EV1[0][1])` builds its result at level
    `MAX(1, 1) = 1`; level 2 is skipped by the set node (redundant) and by the relation node
    (identity), so EV2 (top level 2) is never fired on `{x₁=0, x₃=1}`: state (1,1,1) is missing
    (harness: `mdh pregen --case 15`, BFS 5 states, saturation 4).

    Positive counterpart: `Satur.satur_eq_lfp` / `Satur.satur_eq_reachFix` (the recursion that
    enters every level), instantiated on the same input in `F12_positive`. -/
theorem F12_violates :
    ¬ (∀ u, u ∈ Satur.dom S222 →
        (Satur.setOf S222 (saturateJump S222 evs 3 init) u = true ↔
          u ∈ Pregen.reachFix (Satur.dom S222) (Satur.setOf S222 init)
                (Satur.stepRel S222 (evSem S222 evs)))) := by decide

/-- the same input through the recursion without the jump: exactly the least fixed point
    (instance of the general theorem, not an evaluation) -/
theorem F12_positive (u : List Nat) (hu : u ∈ Satur.dom S222) :
    Satur.setOf S222 (Satur.saturate S222 (evSem S222 evs) S222.top init) u = true ↔
      u ∈ Pregen.reachFix (Satur.dom S222) (Satur.setOf S222 init)
            (Satur.stepRel S222 (evSem S222 evs)) :=
  Satur.satur_eq_reachFix S222_WF (fun _ => rfl) init hu

/-- … hence the two recursions differ on this input -/
theorem F12_jump_ne_saturate :
    saturateJump S222 evs 3 init ≠ Satur.saturate S222 (evSem S222 evs) 3 init := by
  rw [saturateJump_value, saturate_value]; decide

/-- the same domain with a QUASI-reduced set forest -/
def S222q : Shape := { top := 3, size := fun _ => 2, mode := fun _ => .none }

/-- control ("quasi-reduced set forests are correct"): the same code, the same events, the same
    initial set stored in a quasi-reduced set forest (level 2 spelled out, and kept by
    `createReducedNode`): nothing is skipped, the jump never jumps, (1,1,1) is found -/
theorem F12_quasi_control :
    (Satur.dom S222q).filter (Satur.setOf S222q (saturateJump S222q evs 3
      (.node 3 [.node 2 [.node 1 [.leaf false, .leaf true], .node 1 [.leaf false, .leaf true]],
                .leaf false])))
    = [[1, 0, 0], [1, 1, 0], [0, 0, 1], [0, 1, 1], [1, 1, 1]] := by decide

end F12

/-! ## 2. F7 (C08) — `fillSplit` subtracts a LOWER-level node in a fully-reduced relation forest

  satur_sets.cc:1040-1072 (`saturation_set_mtrel::fillSplit`):

      diag.set(arg2F->linkNode(Brn->getDiagonal(0)));          // a node BELOW level k
      for (i = 1 .. ) diag = mxdIntersection(diag, Brn->getDiagonal(i));
      mxdDifference->compute(k, ~0, nothing, mxd.getNode(), nothing, diag.getNode(), …);
      top_exactly[k].set(resp);   mxd = diag;

  `diag` is the common diagonal, a relation on the levels `< k`.  Handed to `mxdDifference` at
  level `k` it is read by the relation forest's own rule for skipped levels: an
  identity-reduced forest reads "identity at level k" (what the split needs), a FULLY-reduced
  forest reads "level k unconstrained", so every pair `(i,a) → (j,b)` with `(a,b)` in the common
  diagonal is subtracted, also for `i ≠ j`.

  The model is `Reach.splitPieces` (state vectors, top variable first) with the reading of the
  subtrahend as a parameter. -/

namespace F7
open Reach

/-- reduction rule of the relation forest -/
inductive RelRule where
  | fully | ident
  deriving DecidableEq, Repr

/-- a relation on the lower levels read one level higher by a FULLY-reduced forest:
    the top variable is unconstrained -/
def liftAny (P : List Nat → List Nat → Bool) : List Nat → List Nat → Bool
  | _ :: a, _ :: b => P a b
  | _, _ => false

/-- how the forest reads the lower-level node `diag` at level `k` -/
def liftBy : RelRule → (List Nat → List Nat → Bool) → List Nat → List Nat → Bool
  | .fully => liftAny
  | .ident => liftId

/-- `top_exactly[k] = mxd \ diag` AS CODED (the difference is taken at level `k`) -/
def topExactly_asCoded (rule : RelRule) (sz : Nat) (M : List Nat → List Nat → Bool) :
    List Nat → List Nat → Bool :=
  fun x y => M x y && !(liftBy rule (commonDiag sz M) x y)

/-- the pieces `top_exactly[K..1]` AS CODED.  A piece of a lower level is fired on the children of
    the nodes above it, so ITS lifting is the identity whatever the forest (`liftId`): only the
    subtraction misreads the level. -/
def splitPieces_asCoded (rule : RelRule) :
    List Nat → (List Nat → List Nat → Bool) → List (List Nat → List Nat → Bool)
  | [], _ => []
  | sz :: rest, M =>
    topExactly_asCoded rule sz M :: (splitPieces_asCoded rule rest (commonDiag sz M)).map liftId

/-- with the identity reading the code computes exactly the split of `Ops/Reach.lean` … -/
theorem splitPieces_asCoded_ident (sizes : List Nat) (M : List Nat → List Nat → Bool) :
    splitPieces_asCoded .ident sizes M = splitPieces sizes M := by
  induction sizes generalizing M with
  | nil => rfl
  | cons sz rest ih => simp only [splitPieces_asCoded, splitPieces, ih]; rfl

/-- … hence (POSITIVE statement, every domain, every relation): in an identity-reduced relation
    forest — or with `diag` lifted by `makeIdentitiesTo(diag, k-1, k)` before the difference, the
    validated repair `patches/F7_lift_common_diagonal_with_identity.patch` — the union of the pieces
    is the relation, up to the dropped bottom constant (`Reach.split_union`). -/
theorem F7_positive {sizes : List Nat} {M : List Nat → List Nat → Bool} {x y : List Nat}
    (hx : InDom sizes x) (hy : InDom sizes y) :
    M x y = true ↔
      unionRel (splitPieces_asCoded .ident sizes M) x y = true ∨ (x = y ∧ splitRest sizes M = true) := by
  rw [splitPieces_asCoded_ident]; exact split_union hx hy

/-- … and the states reachable under the pieces are the states reachable under the relation
    (`Reach.reachable_split`) -/
theorem F7_positive_reach {sizes : List Nat} {M : List Nat → List Nat → Bool}
    {init : List (List Nat)} (hinit : ∀ s, s ∈ init → InDom sizes s)
    (hM : ∀ x y, InDom sizes x → M x y = true → InDom sizes y) (s : List Nat) :
    Reachable M init s ↔ Reachable (unionRel (splitPieces_asCoded .ident sizes M)) init s := by
  rw [splitPieces_asCoded_ident]; exact reachable_split hinit hM s

/-- the witness: domain (2), relation `{0→0, 0→1, 1→1}` -/
def M : List Nat → List Nat → Bool :=
  fun x y => decide (x = [0] ∧ y = [0] ∨ x = [0] ∧ y = [1] ∨ x = [1] ∧ y = [1])

def states : List (List Nat) := [[0], [1]]

/-- what a saturation that is closed under every piece returns: the least fixed point of the
    UNION OF THE PIECES (`Reach.chaotic_eq_lfp`), here computed by `Pregen.reachFix` -/
def saturSplit (rule : RelRule) (init : List Nat → Bool) : List (List Nat) :=
  Pregen.reachFix states init (unionRel (splitPieces_asCoded rule [2] M))

/-- the common diagonal is TRUE (both `0→0` and `1→1` are present): fully-reduced reading
    subtracts all four pairs, identity reading the two loops -/
example :
    (splitPieces_asCoded .fully [2] M).map (fun P => (P [0] [0], P [0] [1], P [1] [0], P [1] [1]))
      = [(false, false, false, false)] ∧
    (splitPieces_asCoded .ident [2] M).map (fun P => (P [0] [0], P [0] [1], P [1] [0], P [1] [1]))
      = [(false, true, false, false)] := by decide

/-- the split loses the edge `0 → 1` (it is neither in a piece nor a self loop) -/
theorem F7_split_violates :
    ¬ (∀ x, x ∈ states → ∀ y, y ∈ states →
        (M x y = true ↔
          unionRel (splitPieces_asCoded .fully [2] M) x y = true ∨ (x = y ∧ splitRest [2] M = true))) := by
  decide

/-- **F7** (known_findings.jsonl: `F7 REACHABLE_SATUR with a FULLY-reduced relation forest drops
    every edge (i,a)->(j,b), i!=j, whose lower part (a,b) lies in the common diagonal`; property
    C08; C++ site `saturation_set_mtrel::fillSplit`, satur_sets.cc:1040-1072; the same mechanism
    is finding F5(b) for quasi-reduced relation forests).

    Witness in API terms: domain (2); fully-reduced boolean MxD forest; relation
    `{0→0, 0→1, 1→1}`; `REACHABLE_SATUR` forward from `{0}`: the least fixed point is `{0,1}`,
    split-then-saturate returns `{0}` (harness: reach probe 900007,
    `dom=2;rel=fully;R:REL:0>0,0>1,1>1;I:INIT:0;C:sat:f`).

    Positive counterpart: `Reach.split_union`, `Reach.reachable_split`,
    `Reach.saturation_schedule_correct` (here `F7_positive`, `F7_positive_reach`). -/
theorem F7_violates :
    ¬ (∀ s, s ∈ states →
        (s ∈ saturSplit .fully (fun s => s == [0]) ↔
          s ∈ Pregen.reachFix states (fun s => s == [0]) M)) := by decide

theorem F7_values :
    saturSplit .fully (fun s => s == [0]) = [[0]] ∧
    saturSplit .ident (fun s => s == [0]) = [[0], [1]] ∧
    Pregen.reachFix states (fun s => s == [0]) M = [[0], [1]] := by decide

/-! The same on the trees of `Core/DD.lean`, with the project's own element-wise difference
    (`apply2`, the model of `mxdDifference`): relation forest over one variable, position 2 =
    unprimed, position 1 = primed. -/

def Rfully : Shape := { top := 2, size := fun _ => 2, mode := fun _ => .red }
def Rident : Shape := { top := 2, size := fun _ => 2, mode := fun p => if p = 1 then .ident else .red }

/-- `{0→0, 0→1, 1→1}` as a reduced node of the fully-reduced forest (row 0 is redundant) -/
def mxdF : DD Bool := .node 2 [.leaf true, .node 1 [.leaf false, .leaf true]]
/-- … and of the identity-reduced forest (row 1 is the identity pattern) -/
def mxdI : DD Bool := .node 2 [.node 1 [.leaf true, .leaf true], .leaf true]

/-- both trees are reduced and denote the same relation -/
example : Red Rfully false 2 none mxdF = true ∧ Red Rident false 2 none mxdI = true ∧
    (∀ i, i ∈ [0, 1] → ∀ j, j ∈ [0, 1] →
      eval Rfully false 2 mxdF (fun p => if p = 2 then i else j)
        = eval Rident false 2 mxdI (fun p => if p = 2 then i else j)) := by decide

/-- `getDiagonal(0) ∩ getDiagonal(1)` is the terminal TRUE in both forests; the difference at
    level 1 with that terminal is EMPTY in the fully-reduced forest and `{0→1}` in the
    identity-reduced one -/
theorem F7_dd_difference :
    apply2 Rfully Rfully Rfully false false false (fun a b => a && !b) 2 none mxdF (.leaf true)
      = .leaf false ∧
    apply2 Rident Rident Rident false false false (fun a b => a && !b) 2 none mxdI (.leaf true)
      = .node 2 [.node 1 [.leaf false, .leaf true], .leaf false] := by decide

end F7

/-! ## 3. F4 (C08) — the `satfire` compute-table key omits the split below

  satur_sets.cc:651-660 / 912 / 942 (`saturation_set_mtrel::recFire`):

      key[0].setI(L);  key[1].setN(A);  key[2].setN(B);      // B = the relation SUB-node fired
      if (fire_ct->findCT(key, res)) { … return; }
      …
      saturate_1(Cu);                  // saturates w.r.t. top_exactly[L] and everything below
      fire_ct->addCT(key, res);

  The cached value depends on `top_exactly[≤ L]` of the CURRENT call's relation, the key does
  not: a later call whose relation shares the sub-node `B` hits the entry of an earlier relation.

  The model (`SatSets`) is the recursion of satur_sets.cc on EXTENSIONAL nodes: a set node of
  level `L` is the canonical list of its sub-states, a relation node the canonical list of its
  pairs (by canonicity, `Core/Canon.lean`, equal handles ⇔ equal lists), the memo table is an
  association list that is threaded through the recursion and survives from one call to the next.
  State vectors: top variable first. -/

namespace SatSets

abbrev St := List Nat
abbrev SNode := List St
abbrev RNode := List (St × St)
/-- `satfire`: (level, set node, relation sub-node, [repair: `top_at_or_below[level]`]) ↦ result -/
abbrev Memo := List ((Nat × SNode × RNode × RNode) × SNode)

set_option synthInstance.maxSize 1024 in
instance : DecidableEq Memo := inferInstance

def allSt : List Nat → List St
  | [] => [[]]
  | sz :: rest => (List.range sz).flatMap fun i => (allSt rest).map (i :: ·)

def allPairs (sizes : List Nat) : List (St × St) :=
  (allSt sizes).flatMap fun a => (allSt sizes).map fun b => (a, b)

/-- canonical form (= the reduced node) of a set / a relation -/
def normS (sizes : List Nat) (A : SNode) : SNode := (allSt sizes).filter fun s => A.contains s
def normR (sizes : List Nat) (B : RNode) : RNode := (allPairs sizes).filter fun p => B.contains p

def unionS (sizes : List Nat) (A B : SNode) : SNode :=
  (allSt sizes).filter fun s => A.contains s || B.contains s

def childS (A : SNode) (i : Nat) : SNode :=
  A.filterMap fun s => match s with
    | x :: a => if x = i then some a else none
    | [] => none

def mkS (cs : List SNode) : SNode :=
  (List.range cs.length).flatMap fun i => (cs.getD i []).map (i :: ·)

/-- matrix entry `i → j` of a relation node -/
def entryR (B : RNode) (i j : Nat) : RNode :=
  B.filterMap fun p => match p with
    | (x :: a, y :: b) => if x = i ∧ y = j then some (a, b) else none
    | _ => none

/-- the entry used to go from index `i` of the argument to index `j` of the result:
    forward `B[i][j]`, backward `B[j][i]` -/
def ent (fwd : Bool) (B : RNode) (i j : Nat) : RNode := if fwd then entryR B i j else entryR B j i

/-- the identity relation: a terminal node of an identity-reduced relation forest -/
def idR (sizes : List Nat) : RNode := (allSt sizes).map fun s => (s, s)

def commonDiagT (sz : Nat) (rest : List Nat) (M : RNode) : RNode :=
  (allPairs rest).filter fun p => (List.range sz).all fun i => M.contains (i :: p.1, i :: p.2)

/-- `mxd \ diag` in an identity-reduced relation forest (the correct reading) -/
def topExactlyT (sz : Nat) (rest : List Nat) (M : RNode) : RNode :=
  M.filter fun p => match p with
    | (i :: a, j :: b) => !(i == j && (commonDiagT sz rest M).contains (a, b))
    | _ => true

/-- `fillSplit`: from the top level down, the pairs `(top_at_or_below[k], top_exactly[k])` -/
def fillSplit : List Nat → RNode → List (RNode × RNode)
  | [], _ => []
  | sz :: rest, M => (M, topExactlyT sz rest M) :: fillSplit rest (commonDiagT sz rest M)

def pairs (n : Nat) : List (Nat × Nat) :=
  (List.range n).flatMap fun i => (List.range n).map fun j => (i, j)

def addS (rest : List Nat) (cs : List SNode) (j : Nat) (t : SNode) : List SNode :=
  cs.set j (unionS rest (cs.getD j []) t)

def numSt (sizes : List Nat) : Nat := (allSt sizes).length

section Alg
variable (fwd keyFix : Bool)

/-- one pass of the explorer of `_saturate_1(Cu)` over all edges `i → j` of `top_exactly[L]` -/
def sweepS (fire : SNode → RNode → Memo → SNode × Memo) (sz : Nat) (rest : List Nat) (E : RNode)
    (st : List SNode × Memo) : List SNode × Memo :=
  (pairs sz).foldl (fun st p =>
    let d := ent fwd E p.1 p.2
    if d = [] then st else
      let r := fire (st.1.getD p.1 []) d st.2
      (addS rest st.1 p.2 r.1, r.2)) st

/-- `_saturate_1(Cu)`: until no child changes -/
def loopS (fire : SNode → RNode → Memo → SNode × Memo) (sz : Nat) (rest : List Nat) (E : RNode) :
    Nat → List SNode × Memo → List SNode × Memo
  | 0, st => st
  | n+1, st =>
    let st' := sweepS fwd fire sz rest E st
    if st'.1 = st.1 then st' else loopS fire sz rest E n st'

/-- `recFire(L, A, B)` AS CODED, `L` = length of the size list; `sp` = the split from level `L`
    down.  `keyFix = false`: key `(L, A, B)`; `keyFix = true`: the repair
    `patches/F4_satfire_key_includes_split.patch` (key extended by `top_at_or_below[L]`). -/
def recFire : (sizes : List Nat) → List (RNode × RNode) → SNode → RNode → Memo → SNode × Memo
  | [], _, A, B, m => (if A = [] ∨ B = [] then [] else [[]], m)
  | sz :: rest, sp, A, B, m =>
    if A = [] ∨ B = [] then ([], m)
    else if B = idR (sz :: rest) then (A, m)               -- terminal B in an identity-reduced forest
    else
      let key := (rest.length + 1, A, B, if keyFix then (sp.headD ([], [])).1 else [])
      match m.find? (fun e => decide (e.1 = key)) with
      | some e => (e.2, m)                                    -- compute-table hit
      | none =>
        let fire := recFire rest sp.tail
        let st1 := (pairs sz).foldl (fun (st : List SNode × Memo) p =>
            let r := fire (childS A p.1) (ent fwd B p.1 p.2) st.2
            (addS rest st.1 p.2 r.1, r.2)) (List.replicate sz [], m)
        let st2 := loopS fwd fire sz rest (sp.headD ([], [])).2 (numSt (sz :: rest) + 1) st1
        let C := mkS st2.1
        (C, (key, C) :: st2.2)

/-- `saturate_1(L, A)`.  Its own compute table `saturate` is keyed by
    `(L, A, top_at_or_below[L])`, which determines the split at and below `L`: it is a
    transparent cache and is left out. -/
def saturate1 : (sizes : List Nat) → List (RNode × RNode) → SNode → Memo → SNode × Memo
  | [], _, A, m => (A, m)
  | sz :: rest, sp, A, m =>
    if A = [] then ([], m)
    else if (sp.headD ([], [])).1 = [] then (A, m)          -- 0 == B
    else
      let st1 := (List.range sz).foldl (fun (st : List SNode × Memo) i =>
          let r := saturate1 rest sp.tail (childS A i) st.2
          (st.1 ++ [r.1], r.2)) ([], m)
      let st2 := loopS fwd (recFire fwd keyFix rest sp.tail) sz rest (sp.headD ([], [])).2
                   (numSt (sz :: rest) + 1) st1
      (mkS st2.1, st2.2)

/-- `REACHABLE_SATUR(init, R)` with the compute table `m` left behind by earlier calls -/
def satur (sizes : List Nat) (R : RNode) (init : SNode) (m : Memo) : SNode × Memo :=
  saturate1 fwd keyFix sizes (fillSplit sizes (normR sizes R)) (normS sizes init) m

end Alg

/-! ### the witness of NOTES_reach.md: domain (3,2), state number `s = x₁ + 3·x₂` -/

/-- sizes, top variable first: `x₂ ∈ {0,1}`, `x₁ ∈ {0,1,2}` -/
def sizes : List Nat := [2, 3]

def st (s : Nat) : St := [s / 3, s % 3]
def rel (edges : List (Nat × Nat)) : RNode := edges.map fun e => (st e.1, st e.2)

/-- `REL0 = {1→2, 4→5, 5→3}` and `REL1 = {2→0}` -/
def REL0 : RNode := rel [(1, 2), (4, 5), (5, 3)]
def REL1 : RNode := rel [(2, 0)]

/-- the specification: backward reachability = the least fixed point on the converse -/
def specBwd (R : RNode) (init : SNode) : SNode :=
  normS sizes (Pregen.reachFix (allSt sizes) (fun s => init.contains s) (fun a b => R.contains (b, a)))

/-- the table after the FIRST call, `REACHABLE_SATUR` backward of `{3}` under `REL0` -/
def memo1 (keyFix : Bool) : Memo := (satur false keyFix sizes REL0 [st 3] []).2

/-- the first call is right: `{3, 4, 5}` -/
example : (satur false false sizes REL0 [st 3] []).1 = [st 3, st 4, st 5] ∧
    specBwd REL0 [st 3] = [st 3, st 4, st 5] := by decide

/-- the entries it leaves; the older one is `(1, {x₁=0}, {2→0}) ↦ {x₁=1, x₁=2}` — the pre-image
    `{2}` of `{0}` under the sub-node `{2→0}` of `REL0[1][1]`, SATURATED under
    `top_exactly[1](REL0) = {1→2}`, which adds `1` -/
example : memo1 false =
    ([((1, [[0], [1], [2]], [([2], [0])], []), [[1], [2]]),
      ((1, [[0]], [([2], [0])], []), [[1], [2]])] : Memo) := by decide

/-- `REL1 = {2→0}` has the very same sub-node `{2→0}` below its entry `[0][0]` -/
example : entryR (normR sizes REL1) 0 0 = [([2], [0])] ∧
    entryR (entryR (normR sizes REL0) 1 1) 2 0 = entryR (entryR (normR sizes REL1) 0 0) 2 0 := by
  decide

/-- the second call on a cold table is right: `{0, 2}` -/
theorem F4_cold_ok : (satur false false sizes REL1 [st 0] []).1 = specBwd REL1 [st 0] ∧
    specBwd REL1 [st 0] = [st 0, st 2] := by decide

/-- **F4** (known_findings.jsonl: `F4 REACHABLE_SATUR is history dependent`; property C08; C++
    site `saturation_set_mtrel::recFire`, satur_sets.cc:651-660, 912, 942, compute table
    `satfire`).

    Witness in API terms: domain (3,2); fully-reduced boolean set forest; identity-reduced MxD
    forest; `REACHABLE_SATUR` backward `{1→2, 4→5, 5→3}` from `{3}`, then — without clearing the
    compute tables — `REACHABLE_SATUR` backward `{2→0}` from `{0}`: expected `{0, 2}`, returned
    `{0, 1, 2}` (an EXTRA state: unsound, not only incomplete).  Harness: reach probe 900000.

    Positive counterparts: `CT.lossy_ok` (a compute table is transparent provided every entry
    is the value of a FUNCTION OF ITS KEY — `CT.Consistent`; `F4_key_not_functional` shows that
    premise is what fails) and `Satur.satur_eq_lfp` (the recursion without tables). -/
theorem F4_violates :
    ¬ ((satur false false sizes REL1 [st 0] (memo1 false)).1 = specBwd REL1 [st 0]) := by decide

theorem F4_values :
    (satur false false sizes REL1 [st 0] (memo1 false)).1 = [st 0, st 1, st 2] ∧
    (satur false false sizes REL1 [st 0] []).1 = [st 0, st 2] := by decide

/-- the root cause: `recFire` is not a function of its key.  Same key `(1, {x₁=0}, {2→0})`,
    cold table, the two splits: two different values. -/
theorem F4_key_not_functional :
    (recFire false false [3] (fillSplit sizes (normR sizes REL0)).tail [[0]] [([2], [0])] []).1
      ≠ (recFire false false [3] (fillSplit sizes (normR sizes REL1)).tail [[0]] [([2], [0])] []).1 := by
  decide

/-- with the repaired key (`top_at_or_below[L]` added) the warm table is harmless -/
theorem F4_repaired :
    (satur false true sizes REL1 [st 0] (memo1 true)).1 = specBwd REL1 [st 0] := by decide

end SatSets

/-! ## 4. F-C10-1 (C10) — the push-down copy has no case for `OMEGA_INFINITY`

  copy.cc:819-843 (`copy_EV<EdgeOp>::_compute`):

      if (argF->isTerminalNode(ap)) {
          // if (OMEGA_INFINITY == ap) then what???
          if (resF->isMultiTerminal()) { … av.copyInto(aint); cp = resF->handleForValue(aint); … }

  `av` is the sum of the edge values pushed down so far; which terminal was reached is not
  looked at.  The model is `EDD.copyEVtoMT` (Ops/EVApply.lean) with exactly that terminal case. -/

namespace FC10
open EDD

/-- `copy_EV<EdgeOp_plus>` into a multi-terminal integer forest AS CODED: at the bottom the
    accumulated edge value becomes the terminal, also when the terminal reached is `+∞` -/
def copyEVtoMT_asCoded (Sa Sc : Shape) (zc : Int) : Nat → Option Nat → (Int × EDD) → DD Int
  | 0, _, a => .leaf a.1
  | k+1, fi, a =>
    DD.mkNode Sc zc (k+1) fi
      ((List.range (Sc.size (k+1))).map fun i =>
        copyEVtoMT_asCoded Sa Sc zc k (some i) (cofactorE Sa (k+1) fi a i))

/-- domain (2,2), fully reduced (source EV+ forest and target MT forest) -/
def S22 : Shape := { top := 2, size := fun _ => 2, mode := fun _ => .red }

theorem S22_WF : S22.WF where
  size_ge := by intro p _ _; show 2 ≤ 2; omega
  ident_below_red := by intro p h; cases h

/-- the assignment `x₁ = a, x₂ = b` (table index `a + 2b`) -/
def asg (a b : Nat) : Assign := fun p => if p = 1 then a else if p = 2 then b else 0

def points : List (Nat × Nat) := [(0, 0), (1, 0), (0, 1), (1, 1)]

/-- the EV+ edge of the function `(3, ∞, 5, ∞)`: root value 3, `x₂ = 1` adds 2, `x₁ = 1` is `∞` -/
def src : Int × EDD :=
  (3, .node 2 [(0, .node 1 [(0, .omega), (0, .inf)]), (2, .node 1 [(0, .omega), (0, .inf)])])

example : RedEdge S22 2 none src = true := by decide

/-- its table, and the table of the copy AS CODED: `(3, ∞, 5, ∞) ↦ (3, 3, 5, 5)` -/
theorem FC10_1_tables :
    points.map (fun p => evalEdge S22 2 src (asg p.1 p.2)) = [some 3, none, some 5, none] ∧
    copyEVtoMT_asCoded S22 S22 0 2 none src = .node 2 [.leaf 3, .leaf 5] ∧
    points.map (fun p => DD.eval S22 0 2 (copyEVtoMT_asCoded S22 S22 0 2 none src) (asg p.1 p.2))
      = [3, 3, 5, 5] := by decide

/-- **F-C10-1** (known_findings.jsonl: `F-C10-1 COPY of an EV+ / index-set function through the
    push-down copy … has no case for the terminal OMEGA_INFINITY`; property C10; C++ site
    `copy_EV<EdgeOp>::_compute`, copy.cc:819-843, the branch commented `// then what???`).

    Witness in API terms: domain (2,2); fully-reduced EV+ set forest → fully-reduced MT integer
    set forest; `f = (3, ∞, 5, ∞)` (table index `x₁ + 2x₂`); `apply(COPY, f, g)` gives
    `g = (3, 3, 5, 5)` (harness: `mdh copy --seed 1 --case 1950`).

    NEGATION of `copyEVtoMT_eval` for the code as it is: there is NO value `infv` such that the
    copy is "the source, with `+∞ ↦ infv`" — `+∞` becomes a context-dependent finite value.

    Positive counterpart: `EDD.copyEVtoMT_eval` / `EDD.copyEVtoMT_eval_top` (every shape, every
    edge: `eval (copyEVtoMT … infv a) x = (evalEdge a x).getD infv`), instantiated in
    `FC10_1_positive`. -/
theorem FC10_1_violates :
    ¬ ∃ infv : Int, ∀ p, p ∈ points →
        DD.eval S22 0 2 (copyEVtoMT_asCoded S22 S22 0 2 none src) (asg p.1 p.2)
          = (evalEdge S22 2 src (asg p.1 p.2)).getD infv := by
  rintro ⟨v, h⟩
  have h1 := h (1, 0) (by decide)
  have h2 := h (1, 1) (by decide)
  have e1 : DD.eval S22 0 2 (copyEVtoMT_asCoded S22 S22 0 2 none src) (asg 1 0) = 3 := by decide
  have e2 : DD.eval S22 0 2 (copyEVtoMT_asCoded S22 S22 0 2 none src) (asg 1 1) = 5 := by decide
  have i1 : evalEdge S22 2 src (asg 1 0) = none := by decide
  have i2 : evalEdge S22 2 src (asg 1 1) = none := by decide
  rw [e1, i1] at h1
  rw [e2, i2] at h2
  have h1' : (3 : Int) = v := h1
  have h2' : (5 : Int) = v := h2
  omega

/-- the model of the intended copy on the same edge, for any chosen image `infv` of `+∞` -/
theorem FC10_1_positive (infv : Int) (x : Assign) (hx : Assign.Valid S22 x) :
    DD.eval S22 0 S22.top (copyEVtoMT S22 S22 0 infv S22.top none src) x
      = (evalEdge S22 S22.top src x).getD infv :=
  copyEVtoMT_eval_top 0 infv S22_WF S22_WF ⟨rfl, fun _ => rfl⟩ src x hx

/-- control: on a function without `+∞` the code as it is agrees with the model -/
example :
    copyEVtoMT_asCoded S22 S22 0 2 none
        (3, .node 2 [(0, .node 1 [(0, .omega), (4, .omega)]), (2, .omega)])
      = copyEVtoMT S22 S22 0 (-1) 2 none
        (3, .node 2 [(0, .node 1 [(0, .omega), (4, .omega)]), (2, .omega)]) := by decide

end FC10

/-! ## 5. C05-F1 — MAX_RANGE / MIN_RANGE walk the sparse view

  maxmin_range.cc (`range_templ<RTYPE>::_compute`):

      unpacked_node* Au = unpacked_node::newFromNode(argF, A, SPARSE_ONLY);
      _compute(Au->down(0), r);
      for (i = 1; i < Au->getSize(); i++) { _compute(Au->down(i), tmp); RTYPE::updateItem(r, tmp); }

  The sparse view holds the NON-ZERO children only: the value 0 is never seen (unless the whole
  function is the terminal 0). -/

namespace C05F1

/-- `range_templ::_compute` AS CODED on a tree of a fully-reduced MT integer forest
    (`op` = `min` / `max`; first argument: recursion fuel ≥ number of levels) -/
def range_asCoded (op : Int → Int → Int) : Nat → DD Int → Int
  | 0, d => DD.leafVal 0 d
  | _+1, .leaf v => v
  | f+1, .node _ cs =>
    match cs.filter (fun c => c != .leaf 0) with       -- SPARSE_ONLY
    | [] => 0                                          -- not a stored node
    | c :: rest => rest.foldl (fun acc d => op acc (range_asCoded op f d)) (range_asCoded op f c)

def rangeMin_asCoded (S : Shape) (a : DD Int) : Int := range_asCoded min S.top a
def rangeMax_asCoded (S : Shape) (a : DD Int) : Int := range_asCoded max S.top a

open FC10 (S22 S22_WF asg points)

/-- `{5, 0, 0, 3}` over (2,2) (table index `x₁ + 2x₂`) and `{-5, 0, 0, -3}` -/
def a : DD Int := .node 2 [.node 1 [.leaf 5, .leaf 0], .node 1 [.leaf 0, .leaf 3]]
def b : DD Int := .node 2 [.node 1 [.leaf (-5), .leaf 0], .node 1 [.leaf 0, .leaf (-3)]]

example : DD.Red S22 0 2 none a = true ∧
    points.map (fun p => DD.eval S22 0 2 a (asg p.1 p.2)) = [5, 0, 0, 3] := by decide

theorem C05_F1_values :
    rangeMin_asCoded S22 a = 3 ∧ Arith.rangeMinDD S22 a = 0 ∧
    rangeMax_asCoded S22 b = -3 ∧ Arith.rangeMaxDD S22 b = 0 := by decide

/-- **C05-F1** (known_findings.jsonl: `MAX_RANGE / MIN_RANGE (maxmin_range.cc
    range_templ::_compute) walk the SPARSE view of every node and therefore ignore zero entries`;
    property C05; C++ site `range_templ<RTYPE>::_compute`, maxmin_range.cc).

    Witness in API terms: domain (2,2), fully-reduced MT integer set forest, `A = {5, 0, 0, 3}`:
    `apply(MIN_RANGE, A, v)` gives `v = 3`, the function takes the value 0 at `x₁=1, x₂=0`
    (harness: `mdh arith --probe 1 --case 900000`; 900001 is `MAX_RANGE {-5,0,0,-3} = -3`).

    NEGATION of the lower-bound half of `range_min_spec` for the code as it is.
    Positive counterpart: `Arith.range_min_spec` / `Arith.range_max_spec` (every shape, every
    tree: `rangeMinDD` is a lower bound over ALL valid assignments and is attained). -/
theorem C05_F1_violates :
    ¬ (∀ p, p ∈ points → rangeMin_asCoded S22 a ≤ DD.eval S22 0 2 a (asg p.1 p.2)) := by decide

theorem C05_F1_max_violates :
    ¬ (∀ p, p ∈ points → DD.eval S22 0 2 b (asg p.1 p.2) ≤ rangeMax_asCoded S22 b) := by decide

/-- … and against the model of the query -/
theorem C05_F1_ne_model : rangeMin_asCoded S22 a ≠ Arith.rangeMinDD S22 a := by decide

/-- control: where 0 is not the extreme value the sparse walk is right -/
example : rangeMax_asCoded S22 a = Arith.rangeMaxDD S22 a ∧
    rangeMin_asCoded S22 b = Arith.rangeMinDD S22 b := by decide

end C05F1

/-! ## 6. C05-F4 — `x / x := 1`, `x % x := 0`, EV+ `A − A := 0` by the equal-operands shortcut

  arith_templ.h:261 / 747 / 1216 (all three templates), after the both-terminals case:

      if ( ATYPE::stopOnEqualArgs() && (arg1F == arg2F) && (A == B) [&& (av == bv)] )
      {   ATYPE::makeEqualResult(L, in, …, resF, cv, C, copy_arg1res);   return;   }

  arith_div.cc:53-66 (`makeEqualResult`: the constant 1, "this (perhaps wrongly) assumes that the
  function encoded by a has no zero values; otherwise we're returning 1 for 0/0"),
  arith_mod.cc (constant 0), arith_minus.cc:112-119 (EV+: constant 0). -/

namespace C05F4
open Spec.Arith

/-- `makeEqualResult` of the operations with `stopOnEqualArgs()` whose scalar rule is partial -/
def equalResult : ArithOp → Option Val
  | .div => some (.i 1)
  | .mod => some (.i 0)
  | .minus => some (.i 0)
  | _ => none

/-- element-wise arithmetic AS CODED w.r.t. this shortcut (one forest `S` for both operands and
    the result, values in the leaves as in `Arith.arith`): `DD.applyE2` with the test
    "identical operand edges" in front of the recursion (after the both-terminals case) -/
def arith_asCoded (S : Shape) (z : Val) (op : ArithOp) (rng : Rng) :
    Nat → Option Nat → DD Val → DD Val → Except String (DD Val)
  | 0, _, a, b =>
    match scalar op rng (leafVal z a) (leafVal z b) with
    | .ok v => .ok (.leaf v)
    | .error e => .error e
  | k+1, fi, a, b =>
    if a = b ∧ (equalResult op).isSome then .ok (.leaf ((equalResult op).getD z))
    else
      match DD.mapE (fun i => arith_asCoded S z op rng k (some i)
                      (cofactor S z (k+1) fi a i) (cofactor S z (k+1) fi b i))
                 (List.range (S.size (k+1))) with
      | .ok cs => .ok (mkNode S z (k+1) fi cs)
      | .error e => .error e

open FC10 (S22)

/-- `{1, 0, 3, 4}` over (2,2) in an MT integer forest; `{1, ∞, 3, 4}` in an EV+ forest -/
def A : DD Val := .node 2 [.node 1 [.leaf (.i 1), .leaf (.i 0)], .node 1 [.leaf (.i 3), .leaf (.i 4)]]
def E : DD Val := .node 2 [.node 1 [.leaf (.i 1), .leaf .inf], .node 1 [.leaf (.i 3), .leaf (.i 4)]]

/-- scalar level: the three shortcut answers against `Spec.Arith.scalar` at the offending values -/
theorem C05_F4_scalar (rng : Rng) :
    scalar .div rng (.i 0) (.i 0) = .error errDivZero ∧
    scalar .mod rng (.i 0) (.i 0) = .error errDivZero ∧
    scalar .minus rng .inf .inf = .error errSubInf :=
  ⟨Arith.div_zero_zero_unsound rng, Arith.mod_zero_zero_unsound rng, Arith.minus_self_unsound rng⟩

/-- the shortcut answers as claims about the scalar rule: each holds at the values the authors had
    in mind and fails at `x = 0` (DIVIDE, MODULO) resp. `x = ∞` (EV+ MINUS) -/
theorem C05_F4_scalar_violates :
    ¬ (∀ x, x ∈ [Val.i 2, .i 1, .i 0] → scalar .div .int x x = .ok (.i 1)) ∧
    ¬ (∀ x, x ∈ [Val.i 2, .i 1, .i 0] → scalar .mod .int x x = .ok (.i 0)) ∧
    ¬ (∀ x, x ∈ [Val.i 2, .i 0, .inf] → scalar .minus .int x x = .ok (.i 0)) := by decide

theorem C05_F4_values :
    arith_asCoded S22 (.i 0) .div .int 2 none A A = .ok (.leaf (.i 1)) ∧
    Arith.arith S22 S22 S22 (.i 0) (.i 0) (.i 0) .div .int A A = .error "DIVIDE_BY_ZERO" ∧
    arith_asCoded S22 (.i 0) .mod .int 2 none A A = .ok (.leaf (.i 0)) ∧
    Arith.arith S22 S22 S22 (.i 0) (.i 0) (.i 0) .mod .int A A = .error "DIVIDE_BY_ZERO" ∧
    arith_asCoded S22 .inf .minus .int 2 none E E = .ok (.leaf (.i 0)) ∧
    Arith.arith S22 S22 S22 .inf .inf .inf .minus .int E E = .error "SUBTRACT_INFINITY" := by
  decide

/-- **C05-F4** (known_findings.jsonl: `DIVIDE / MODULO decide 0/0 by a shortcut instead of
    raising DIVIDE_BY_ZERO: x/x := 1 and x%x := 0 for identical operand edges even where x = 0`
    and `EV+ MINUS returns values where the subtrahend is infinite: A-A := 0 for identical edges
    containing infinity`; property C05; C++ sites arith_templ.h:261/747/1216,
    arith_div.cc:53-66, arith_mod.cc, arith_minus.cc:112-119).

    Witness in API terms: domain (2,2), one fully-reduced MT integer set forest,
    `A = {1, 0, 3, 4}`, `apply(DIVIDE, A, A, C)`: returns the constant 1 instead of raising
    DIVIDE_BY_ZERO (harness: `mdh arith --probe 1 --case 900005`; 900007 MODULO; 900008 EV+
    MINUS with `A = {1, ∞, 3, 4}`: constant 0 instead of SUBTRACT_INFINITY).

    NEGATION of `arith_error_iff` ("raises iff the scalar rule is invalid at SOME assignment")
    for the code as it is: the scalar rule is invalid at `x₁=1, x₂=0`, the call returns a value.
    Positive counterparts: `Arith.arith_error_iff`, `Arith.arith_eval`; the identities the
    shortcut is entitled to are `Arith.div_self`, `Arith.mod_self` (for `a ≠ 0`) and
    `Arith.minus_self` (finite `a`); their failing instances `Arith.div_zero_zero_unsound`,
    `Arith.mod_zero_zero_unsound`, `Arith.minus_self_unsound`. -/
theorem C05_F4_violates :
    ¬ ((∃ e, arith_asCoded S22 (.i 0) .div .int 2 none A A = .error e) ↔
        ∃ p, p ∈ FC10.points ∧ ∃ e,
          scalar .div .int (eval S22 (.i 0) 2 A (FC10.asg p.1 p.2))
                           (eval S22 (.i 0) 2 A (FC10.asg p.1 p.2)) = .error e) := by
  intro h
  have hr : ∃ p, p ∈ FC10.points ∧ ∃ e,
      scalar .div .int (eval S22 (.i 0) 2 A (FC10.asg p.1 p.2))
                       (eval S22 (.i 0) 2 A (FC10.asg p.1 p.2)) = .error e :=
    ⟨(1, 0), by decide, "DIVIDE_BY_ZERO", by decide⟩
  obtain ⟨e, he⟩ := h.mpr hr
  rw [C05_F4_values.1] at he
  cases he

/-- the same for EV+ MINUS -/
theorem C05_F4_minus_violates :
    arith_asCoded S22 .inf .minus .int 2 none E E
      ≠ Arith.arith S22 S22 S22 .inf .inf .inf .minus .int E E := by
  rw [C05_F4_values.2.2.2.2.1, C05_F4_values.2.2.2.2.2]; decide

/-- control: operands without a zero / an infinity — shortcut and model agree -/
example :
    arith_asCoded S22 (.i 0) .div .int 2 none
        (.node 2 [.leaf (.i 2), .leaf (.i 5)]) (.node 2 [.leaf (.i 2), .leaf (.i 5)])
      = Arith.arith S22 S22 S22 (.i 0) (.i 0) (.i 0) .div .int
        (.node 2 [.leaf (.i 2), .leaf (.i 5)]) (.node 2 [.leaf (.i 2), .leaf (.i 5)]) := by decide

end C05F4

/-! ## 7. F10 (C08) — saturation on MT-integer distance sets drops the distance-0 children

  satur_sets.cc:449-474 (`saturate_1`) and 544-548 (`_saturate_1`):

      unpacked_node* Au = unpacked_node::New(resF, SPARSE_ONLY);  …  Au->initFromNode(A);
      unpacked_node* Cu = unpacked_node::newWritable(resF, L, FULL_ONLY);
      ATYPE::setAllUnreachable(Cu);                       // mt_distance: every entry := -1
      for (z = 0; z < Au->getSize(); z++) { … Cu->setFull(Au->index(z), cdv, cdp); }
      …
      for (i = 0; i < Cu->getSize(); i++) if (Cu->down(i)) explorers[L].wasUpdated(i);

  In an MT-integer forest the transparent terminal is the VALUE 0 = "distance 0" (handle 0),
  "unreachable" is the terminal -1 (`mt_distance`, prepost_common.h).  The sparse view drops the
  children with handle 0, so they stay at the `-1` of `setAllUnreachable`; and the explorer is
  seeded with `down(i) != 0`, which is true for `-1` and false for distance 0.

  The model: one level (domain `(n)`), the node is its vector of terminal children. -/

namespace F10

/-- `mt_distance::isUnreachable` on a terminal value -/
def unreachable (v : Int) : Bool := decide (v < 0)

/-- `addToCi` with `accumulateOp = DIST_MIN`; returns the new entry and "changed" -/
def addTo (c v : Int) : Int × Bool :=
  if unreachable v then (c, false)
  else if unreachable c then (v, true)
  else (min c v, decide (min c v ≠ c))

/-- the explorer loop of `_saturate_1(Cu)` at level 1: `queue` = indexes whose child was updated;
    an edge `i → j` fires `recFire(0, Cu[i], ·)` = DIST_INC of a reachable `Cu[i]`, skipped when
    `areAllReachable(Cu[j])` (`Cu[j]` is the terminal 0) -/
def explore (E : List (Nat × Nat)) : Nat → List Int → List Nat → List Int
  | 0, cu, _ => cu
  | _, cu, [] => cu
  | f+1, cu, i :: q =>
    let st := (E.filter fun e => e.1 == i).foldl (fun (st : List Int × List Nat) e =>
      let cj := st.1.getD e.2 (-1)
      let ci := st.1.getD i (-1)
      if cj == 0 then st
      else
        let r := addTo cj (if unreachable ci then -1 else ci + 1)
        if r.2 then (st.1.set e.2 r.1, st.2 ++ [e.2]) else st) (cu, q)
    explore E f st.1 st.2

/-- `saturate_1(1, A)` on an MT-integer distance node with child vector `A`, relation `rel` on one
    variable of size `n` (identity-reduced forest; `top_exactly[1]` = `rel` minus the self loops when
    ALL of them are present).  `sparseUnpack = true`, `seedNonzero = true`: the code as it is;
    both `false`: `patches/F10_saturate_full_unpack_unreachable_test.patch`. -/
def saturate1_asCoded (sparseUnpack seedNonzero : Bool) (n : Nat) (rel : List (Nat × Nat))
    (A : List Int) : List Int :=
  if rel = [] then A else
  let Au : List (Nat × Int) :=
    ((List.range n).map fun i => (i, A.getD i 0)).filter fun e => !sparseUnpack || e.2 != 0
  let cu0 : List Int := Au.foldl (fun cu e => cu.set e.1 (if unreachable e.2 then -1 else e.2))
    (List.replicate n (-1))
  let allLoops := (List.range n).all fun i => rel.contains (i, i)
  let E := rel.filter fun e => !(allLoops && e.1 == e.2)
  if E = [] then cu0 else
  let seeds := (List.range n).filter fun i =>
    if seedNonzero then cu0.getD i (-1) != 0 else !unreachable (cu0.getD i (-1))
  explore E ((n + 1) * (n + 1) + 1) cu0 seeds

/-- the specification on the same data: shortest distances (`Reach.dist`), unreachable = -1 -/
def distSpec (n : Nat) (rel : List (Nat × Nat)) (init : List (Fin n)) : List Int :=
  (Spec.ReachTables.distList n (fun a b => rel.contains (a.val, b.val)) init).map fun d =>
    match d with
    | some k => (k : Int)
    | none => -1

theorem F10_values :
    saturate1_asCoded true true 2 [(0, 1)] [0, -1] = [-1, -1] ∧
    saturate1_asCoded false true 2 [(0, 1)] [0, -1] = [0, -1] ∧
    saturate1_asCoded false false 2 [(0, 1)] [0, -1] = [0, 1] ∧
    distSpec 2 [(0, 1)] [0] = [0, 1] := by decide

/-- **F10** (known_findings.jsonl: `F10 REACHABLE_SATUR on MT-integer distance sets loses the
    distance-0 states`; property C08; C++ sites `saturation_set_mtrel::saturate_1`,
    satur_sets.cc:449 (SPARSE_ONLY) and `_saturate_1`, satur_sets.cc:545 (`if (Cu->down(i))`)).

    Witness in API terms: domain (2); fully-reduced MT integer set forest; identity-reduced MxD
    forest; relation `{0→1}`; initial distance function `(0, -1)` (state 0 at distance 0, state 1
    unreachable); `REACHABLE_SATUR` forward returns `(-1, -1)`, `REACHABLE_TRAD_NOFS` and the
    specification give `(0, 1)` (harness: reach probe 900013).

    Positive counterparts: `Reach.dist_eq_shortest`, `Reach.dist_nofrontier_eq_dist`,
    `Spec.ReachTables.distList_spec` (the distance specification and the breadth-first loop that
    meets it); `F10_values` shows the model of the repaired code meeting it on the witness. -/
theorem F10_violates :
    ¬ (saturate1_asCoded true true 2 [(0, 1)] [0, -1] = distSpec 2 [(0, 1)] [0]) := by decide

/-- control ("correct when no state has distance 0"): start offset 1 -/
example : saturate1_asCoded true true 2 [(0, 1)] [1, -1] = [1, 2] := by decide

end F10

/-! ## 8. (same family as 5/6) C05-F2 — DIST_INC with an identity-reduced argument forest

  dist_inc.cc (`dist_inc_mt::_compute`), terminal case and the chaining after the recursion:

      const long tc = (ta < 0) ? ta : (ta+1);
      cp = resF->handleForValue(tc);
      if (argF->isIdentityReduced()) cp = resF->makeIdentitiesTo(cp, 0, L, in);

  The levels the argument skips are rebuilt as identity patterns around the INCREMENTED terminal;
  the off-diagonal entries of such a pattern are the transparent terminal 0 of the result forest,
  but the argument is 0 there and DIST_INC of 0 is 1. -/

namespace C05F2

def inc (v : Int) : Int := if v < 0 then v else v + 1

/-- DIST_INC AS CODED on trees (`apply1` of `inc`, except that the off-diagonal indexes of an
    identity position the argument skips get the transparent terminal: `makeIdentitiesTo`) -/
def distInc_asCoded (Sa Sc : Shape) : Nat → Option Nat → DD Int → DD Int
  | 0, _, a => .leaf (inc (leafVal 0 a))
  | k+1, fi, a =>
    mkNode Sc 0 (k+1) fi ((List.range (Sc.size (k+1))).map fun i =>
      if Sa.mode (k+1) = .ident ∧ a.isNodeAt (k+1) = false ∧ fi.isSome ∧ fi ≠ some i then .leaf 0
      else distInc_asCoded Sa Sc k (some i) (cofactor Sa 0 (k+1) fi a i))

open F7 (Rident Rfully)

/-- relation over one variable of size 2, table index `x' + 2x` -/
def rpoints : List (Nat × Nat) := [(0, 0), (0, 1), (1, 0), (1, 1)]
def rasg (x x' : Nat) : Assign := fun p => if p = 2 then x else if p = 1 then x' else 0

theorem C05_F2_values :
    rpoints.map (fun p => eval Rident 0 2 (.leaf 4) (rasg p.1 p.2)) = [4, 0, 0, 4] ∧
    rpoints.map (fun p => eval Rfully 0 2 (distInc_asCoded Rident Rfully 2 none (.leaf 4))
      (rasg p.1 p.2)) = [5, 0, 0, 5] ∧
    rpoints.map (fun p => eval Rfully 0 2 (apply1 Rident Rfully 0 0 inc 2 none (.leaf 4))
      (rasg p.1 p.2)) = [5, 1, 1, 5] := by decide

/-- **C05-F2** (known_findings.jsonl: `DIST_INC with an identity-reduced argument forest is not
    pointwise`; property C05; C++ site `dist_inc_mt::_compute`, dist_inc.cc, `makeIdentitiesTo`).

    Witness in API terms: relation over domain (2); argument `A = diag(4,4)` in an
    identity-reduced MT integer MxD forest (stored as the terminal 4); result forest fully
    reduced; `apply(DIST_INC, A, C)` gives `5 0 0 5` instead of `5 1 1 5`
    (harness: `mdh arith --probe 1 --case 900002`).

    NEGATION of `unary_eval` for the code as it is.
    Positive counterpart: `Arith.unary_eval` (DIST_INC = `apply1` of the scalar map is pointwise
    for every pair of reduction rules; the `decide` example after it is this very input). -/
theorem C05_F2_violates :
    ¬ (∀ p, p ∈ rpoints →
        eval Rfully 0 2 (distInc_asCoded Rident Rfully 2 none (.leaf 4)) (rasg p.1 p.2)
          = inc (eval Rident 0 2 (.leaf 4) (rasg p.1 p.2))) := by decide

/-- control: with a fully-reduced argument forest the code as it is IS `apply1` on the witness tree -/
example :
    distInc_asCoded Rfully Rfully 2 none (.node 2 [.node 1 [.leaf 4, .leaf 0], .node 1 [.leaf 0, .leaf 4]])
      = apply1 Rfully Rfully 0 0 inc 2 none
          (.node 2 [.node 1 [.leaf 4, .leaf 0], .node 1 [.leaf 0, .leaf 4]]) := by decide

end C05F2

/-! ## Summary

| tag (known_findings.jsonl) | property | C++ site | model AS CODED | witness (API terms) | `_violates` theorem | positive counterpart |
|---|---|---|---|---|---|---|
| F12 (C20, family pregen) | saturation = lfp (`satur_eq_lfp`) | `forwd_dfs_by_events_mt::recFire`, sat_pregen.cc:628-632, 707 (`rLevel = MAX(ABS(mxdLevel), mddLevel)`, `saturateHelper(*nb)` only there) | `F12.recFireJump`, `F12.saturateJump` | dom (2,2,2); fully-reduced MDD, identity-reduced MxD; EV1 `x₁:1→0 ∧ x₃:0→1`, EV2 `x₁:0→1 ∧ x₂:0→1`; init `{x₁=1,x₃=0}`: (1,1,1) missing (4 states instead of 5); `pregen --case 15` | `F12.F12_violates`, `F12.F12_witness`, `F12.F12_jump_ne_saturate` | `Satur.satur_eq_lfp`, `Satur.satur_eq_reachFix` (`F12.F12_positive`); control `F12.F12_quasi_control` |
| F7 (C08, family reach; F5(b) same mechanism) | split union = relation; saturation = lfp | `saturation_set_mtrel::fillSplit`, satur_sets.cc:1040-1072 (`mxdDifference(k, mxd, diag)`, `diag` below level k) | `F7.topExactly_asCoded .fully`, `F7.splitPieces_asCoded`, `F7.saturSplit` | dom (2); fully-reduced MxD; relation `{0→0,0→1,1→1}`; forward from `{0}`: `{0}` instead of `{0,1}`; reach probe 900007 | `F7.F7_violates`, `F7.F7_split_violates`, `F7.F7_dd_difference` | `Reach.split_union`, `Reach.reachable_split`, `Reach.saturation_schedule_correct` (`F7.F7_positive`, `F7.F7_positive_reach`, `F7.splitPieces_asCoded_ident`) |
| F4 (C08, family reach) | result independent of compute-table contents; saturation = lfp | `saturation_set_mtrel::recFire`, satur_sets.cc:651-660 (key `(L, A, B)`), 912 (`saturate_1(Cu)`), 942 (`addCT`) | `SatSets.recFire false false`, `SatSets.satur` with a threaded `Memo` | dom (3,2); fully-reduced bool set forest, identity-reduced MxD; SAT bwd `{1→2,4→5,5→3}` from `{3}`, then SAT bwd `{2→0}` from `{0}` without clearing: `{0,1,2}` instead of `{0,2}`; reach probe 900000 | `SatSets.F4_violates`, `SatSets.F4_key_not_functional` | `CT.lossy_ok` (premise `CT.Consistent`), `Satur.satur_eq_lfp`; repair `SatSets.F4_repaired`, cold table `SatSets.F4_cold_ok` |
| F-C10-1 (C10, family copy) | copy preserves the function (`+∞ ↦` one fixed image) | `copy_EV<EdgeOp>::_compute`, copy.cc:819-843 (`// if (OMEGA_INFINITY == ap) then what???`) | `FC10.copyEVtoMT_asCoded` | dom (2,2); EV+ fully → MT int fully; `(3,∞,5,∞) ↦ (3,3,5,5)`; `copy --seed 1 --case 1950` | `FC10.FC10_1_violates`, `FC10.FC10_1_tables` | `EDD.copyEVtoMT_eval`, `EDD.copyEVtoMT_eval_top` (`FC10.FC10_1_positive`) |
| C05-F1 (C05, family arith) | MIN_RANGE / MAX_RANGE = extreme value over ALL assignments | `range_templ<RTYPE>::_compute`, maxmin_range.cc (`newFromNode(argF, A, SPARSE_ONLY)`) | `C05F1.range_asCoded`, `rangeMin_asCoded`, `rangeMax_asCoded` | dom (2,2), MT int fully; `MIN_RANGE {5,0,0,3} = 3 ≠ 0`, `MAX_RANGE {-5,0,0,-3} = -3 ≠ 0`; arith probes 900000/900001 | `C05F1.C05_F1_violates`, `C05_F1_max_violates`, `C05_F1_ne_model` | `Arith.range_min_spec`, `Arith.range_max_spec` |
| C05-F4 (C05, family arith) | raises iff the scalar rule is invalid somewhere (`arith_error_iff`) | arith_templ.h:261/747/1216 (`stopOnEqualArgs … makeEqualResult`), arith_div.cc:53-66, arith_mod.cc, arith_minus.cc:112-119 | `C05F4.arith_asCoded`, `C05F4.equalResult` | dom (2,2), one forest, `A = {1,0,3,4}`: `A / A = 1`, `A % A = 0` instead of DIVIDE_BY_ZERO; EV+ `A = {1,∞,3,4}`: `A − A = 0` instead of SUBTRACT_INFINITY; arith probes 900005/900007/900008 | `C05F4.C05_F4_violates`, `C05_F4_minus_violates`, `C05_F4_scalar_violates` | `Arith.arith_error_iff`, `Arith.arith_eval`; `Arith.div_self`, `Arith.mod_self`, `Arith.minus_self` vs `Arith.div_zero_zero_unsound`, `Arith.mod_zero_zero_unsound`, `Arith.minus_self_unsound` |
| F10 (C08, family reach) | distance saturation = shortest distances | `saturation_set_mtrel::saturate_1`, satur_sets.cc:449 (`SPARSE_ONLY`), `_saturate_1`, satur_sets.cc:545 (`if (Cu->down(i))`) | `F10.saturate1_asCoded true true` | dom (2); MT int set forest; relation `{0→1}`; init `(0,-1)`: SAT `(-1,-1)` instead of `(0,1)`; reach probe 900013 | `F10.F10_violates` | `Reach.dist_eq_shortest`, `Reach.dist_nofrontier_eq_dist`, `Spec.ReachTables.distList_spec`; repair in `F10.F10_values` |
| C05-F2 (C05, family arith; extra) | DIST_INC is pointwise (`unary_eval`) | `dist_inc_mt::_compute`, dist_inc.cc (`makeIdentitiesTo(cp, 0, L, in)`) | `C05F2.distInc_asCoded` | relation (2), identity-reduced argument `diag(4,4)`, fully-reduced result: `5 0 0 5` instead of `5 1 1 5`; arith probe 900002 | `C05F2.C05_F2_violates` | `Arith.unary_eval` |

Every `_violates` theorem is closed by kernel evaluation (`decide`) of the executable `_asCoded`
definition on the witness; no `sorry`, no `native_decide`, no added axiom.

`#print axioms` (Lean 4.33.0), output of the commands at the end of this file:

    'Meddly.KnownFindings.F12.F12_violates' depends on axioms: [propext, Quot.sound]
    'Meddly.KnownFindings.F12.F12_witness' depends on axioms: [propext, Quot.sound]
    'Meddly.KnownFindings.F7.F7_violates' depends on axioms: [propext, Quot.sound]
    'Meddly.KnownFindings.F7.F7_split_violates' depends on axioms: [propext]
    'Meddly.KnownFindings.SatSets.F4_violates' depends on axioms: [propext]
    'Meddly.KnownFindings.SatSets.F4_key_not_functional' depends on axioms: [propext]
    'Meddly.KnownFindings.FC10.FC10_1_violates' depends on axioms: [propext, Quot.sound]
    'Meddly.KnownFindings.C05F1.C05_F1_violates' depends on axioms: [propext]
    'Meddly.KnownFindings.C05F1.C05_F1_max_violates' depends on axioms: [propext]
    'Meddly.KnownFindings.C05F4.C05_F4_violates' depends on axioms: [propext, Quot.sound]
    'Meddly.KnownFindings.C05F4.C05_F4_minus_violates' depends on axioms: [propext]
    'Meddly.KnownFindings.C05F4.C05_F4_scalar_violates' depends on axioms: [propext]
    'Meddly.KnownFindings.F10.F10_violates' depends on axioms: [propext]
    'Meddly.KnownFindings.C05F2.C05_F2_violates' depends on axioms: [propext]
    (positive instances, for contrast)
    'Meddly.KnownFindings.F12.F12_positive' depends on axioms: [propext, Classical.choice, Quot.sound]
    'Meddly.KnownFindings.F7.F7_positive' depends on axioms: [propext, Classical.choice, Quot.sound]
    'Meddly.KnownFindings.FC10.FC10_1_positive' depends on axioms: [propext, Classical.choice, Quot.sound]
-/

end KnownFindings
end Meddly

#print axioms Meddly.KnownFindings.F12.F12_violates
#print axioms Meddly.KnownFindings.F12.F12_witness
#print axioms Meddly.KnownFindings.F7.F7_violates
#print axioms Meddly.KnownFindings.F7.F7_split_violates
#print axioms Meddly.KnownFindings.SatSets.F4_violates
#print axioms Meddly.KnownFindings.SatSets.F4_key_not_functional
#print axioms Meddly.KnownFindings.FC10.FC10_1_violates
#print axioms Meddly.KnownFindings.C05F1.C05_F1_violates
#print axioms Meddly.KnownFindings.C05F1.C05_F1_max_violates
#print axioms Meddly.KnownFindings.C05F4.C05_F4_violates
#print axioms Meddly.KnownFindings.C05F4.C05_F4_minus_violates
#print axioms Meddly.KnownFindings.C05F4.C05_F4_scalar_violates
#print axioms Meddly.KnownFindings.F10.F10_violates
#print axioms Meddly.KnownFindings.C05F2.C05_F2_violates
#print axioms Meddly.KnownFindings.F12.F12_positive
#print axioms Meddly.KnownFindings.F7.F7_positive
#print axioms Meddly.KnownFindings.FC10.FC10_1_positive
