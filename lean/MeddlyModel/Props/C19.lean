/-
  C19  "Values survive encoding into terminals and edge values".

  The definitions `Gen.Terminal.encInt / decInt / encRealBits / decRealBits / encBool / decBool /
  intMin / intMax / msb` are GENERATED from /repo/src/terminal.h by translate/terminal_to_lean.py
  (clang's typed AST -> Lean terms over `BitVec`).  Everything proved here is proved about those
  generated definitions, for ALL 2^64 `long`s, ALL 2^32 float bit patterns and ALL 2^32 handles:
  a change of terminal.h that breaks the property changes the generated file and breaks these proofs.

  Trusted base: the translation conventions listed in the header of Gen/Terminal.lean (validated by
  the differential family `terminal`, which runs the real library on boundary values, on all 2^16
  upper half-words of a float and on 10^5..10^6 random patterns and compares every handle / value
  with these very definitions), and -- for edge values (EV+, EV*) -- the small HAND-WRITTEN model in
  MeddlyModel/State/Terminal.lean, which is tied to forest.cc only by the differential run.

  All proofs are kernel-only (`decide`, `omega`, `simp`, `BitVec` lemmas); `bv_decide` is not used.
-/
import MeddlyModel.Gen.Terminal
import MeddlyModel.State.Terminal

namespace Meddly.C19
open Gen.Terminal Meddly.TerminalEV

/-! ## Vocabulary -/

/-- (core Lean has no `DecidableEq (Except ε α)`; needed by the `decide`d examples only) -/
instance instDecidableEqExcept {ε α : Type} [DecidableEq ε] [DecidableEq α] : DecidableEq (Except ε α)
  | .ok a, .ok b => if h : a = b then isTrue (by rw [h]) else isFalse (fun e => h (Except.ok.inj e))
  | .error a, .error b => if h : a = b then isTrue (by rw [h]) else isFalse (fun e => h (Except.error.inj e))
  | .ok _, .error _ => isFalse (fun e => nomatch e)
  | .error _, .ok _ => isFalse (fun e => nomatch e)

/-- the documented range of integer terminals: −2^30 ≤ v ≤ 2^30 − 1 (31 bits, signed) -/
def inRange (v : BitVec 64) : Prop := (-1073741824 : Int) ≤ v.toInt ∧ v.toInt ≤ 1073741823

instance (v : BitVec 64) : Decidable (inRange v) := by unfold inRange; exact inferInstance

/-- executable form of `inRange` (used by the acceptor) -/
def inRangeB (v : BitVec 64) : Bool :=
  BitVec.sle (BitVec.ofInt 64 (-1073741824)) v && BitVec.sle v (BitVec.ofInt 64 1073741823)

/-- the bit pattern is +0.0 or −0.0 -/
def isZeroBits (b : BitVec 32) : Prop := b = 0x00000000#32 ∨ b = 0x80000000#32

instance (b : BitVec 32) : Decidable (isZeroBits b) := by unfold isZeroBits; exact inferInstance

/-- drop the least significant fraction bit: the documented accuracy of real terminals
    ("single precision minus one bit") -/
def clearLsb (b : BitVec 32) : BitVec 32 := b &&& ~~~(1#32)

/-- a handle is "negative" (sign bit set): it can never be confused with a node handle (> 0) nor
    with the transparent handle 0 -/
def negHandle (h : BitVec 32) : Prop := h.msb = true

instance (h : BitVec 32) : Decidable (negHandle h) := by unfold negHandle; exact inferInstance

/-! ## Auxiliary lemmas -/

theorem msb32_eq : (0x80000000#32) = BitVec.twoPow 32 31 := by decide

/-- OR-ing the sign bit is undone by the left shift -/
theorem shl_or_msb (x : BitVec 32) : (x ||| 0x80000000#32) <<< 1 = x <<< 1 := by
  ext i hi
  simp only [BitVec.getElem_shiftLeft, BitVec.getElem_or, msb32_eq, BitVec.getElem_twoPow]
  by_cases h0 : i < 1
  · simp [h0]
  · have : ¬ (i - 1 = 31) := by omega
    simp [h0, this]

theorem msb_or_msb (x : BitVec 32) : (x ||| 0x80000000#32).msb = true := by
  rw [BitVec.msb_or]
  have : (0x80000000#32).msb = true := by decide
  simp [this]

theorem ne_zero_of_msb {x : BitVec 32} (h : x.msb = true) : x ≠ 0#32 := by
  intro e
  subst e
  exact absurd h (by decide)

theorem sext_intMin : (BitVec.signExtend 64 (0xc0000000#32)).toInt = -1073741824 := by decide
theorem sext_intMax : (BitVec.signExtend 64 (0x3fffffff#32)).toInt = 1073741823 := by decide
theorem trunc_sext_msb : BitVec.setWidth 32 (BitVec.signExtend 64 (0x80000000#32)) = 0x80000000#32 := by decide

/-- `encInt` in arithmetic form -/
theorem encInt_eq (v : BitVec 64) :
    encInt v =
      if v = 0#64 then .ok 0#32
      else if v.toInt < -1073741824 ∨ 1073741823 < v.toInt then .error ()
      else .ok (BitVec.setWidth 32 v ||| 0x80000000#32) := by
  unfold encInt
  simp only [intMin_val, intMax_val, msb_val, BitVec.slt_eq_decide, sext_intMin, sext_intMax,
    BitVec.setWidth_or, trunc_sext_msb]
  by_cases h0 : v = 0#64
  · simp [h0]
  · simp [h0]

/-- `decInt` in arithmetic form -/
theorem decInt_toInt (h : BitVec 32) :
    (decInt h).toInt = (((h.toNat : Int) * 2).bmod (2 ^ 32)) / 2 := by
  unfold decInt
  rw [BitVec.toInt_signExtend_of_le (by decide), BitVec.toInt_sshiftRight, BitVec.shiftLeft_eq,
    BitVec.toInt_shiftLeft]
  simp [Int.shiftRight_eq_div_pow, Nat.shiftLeft_eq]

theorem decInt_or_msb (x : BitVec 32) : decInt (x ||| 0x80000000#32) = decInt x := by
  unfold decInt
  simp only [BitVec.shiftLeft_eq, shl_or_msb]

theorem toNat_lt64 (v : BitVec 64) : v.toNat < 18446744073709551616 := v.isLt

/-- decoding the truncation of an in-range value gives the value back -/
theorem decInt_trunc {v : BitVec 64} (hr : inRange v) : decInt (BitVec.setWidth 32 v) = v := by
  apply BitVec.toInt_inj.mp
  rw [decInt_toInt, BitVec.toNat_setWidth]
  have hlt := toNat_lt64 v
  unfold inRange at hr
  rw [BitVec.toInt_eq_toNat_cond] at hr ⊢
  simp only [Int.bmod_def]
  omega

theorem inRange_zero : inRange 0#64 := by decide

theorem inRangeB_iff (v : BitVec 64) : inRangeB v = true ↔ inRange v := by
  unfold inRangeB inRange
  have h1 : (BitVec.ofInt 64 (-1073741824)).toInt = -1073741824 := by decide
  have h2 : (BitVec.ofInt 64 1073741823).toInt = 1073741823 := by decide
  simp [BitVec.sle_eq_decide]

theorem floatNonzero_iff (b : BitVec 32) : floatNonzero b = true ↔ ¬ isZeroBits b := by
  unfold floatNonzero isZeroBits
  simp

theorem encRealBits_nonzero {b : BitVec 32} (h : ¬ isZeroBits b) :
    encRealBits b = BitVec.sshiftRight b 1 ||| 0x80000000#32 := by
  unfold encRealBits
  simp [(floatNonzero_iff b).mpr h, msb_val]

theorem encRealBits_zero {b : BitVec 32} (h : isZeroBits b) : encRealBits b = 0#32 := by
  unfold encRealBits
  have : floatNonzero b = false := by
    cases hb : floatNonzero b
    · rfl
    · exact absurd h ((floatNonzero_iff b).mp hb)
  simp [this]

theorem sshr_shl (b : BitVec 32) : (BitVec.sshiftRight b 1) <<< 1 = clearLsb b := by
  unfold clearLsb
  ext i hi
  simp only [BitVec.getElem_shiftLeft, BitVec.getElem_and, BitVec.getElem_not, BitVec.getElem_sshiftRight]
  by_cases h0 : i < 1
  · have : i = 0 := by omega
    subst this
    simp
  · have h1 : 1 + (i - 1) < 32 := by omega
    have h2 : 1 + (i - 1) = i := by omega
    have h3 : (1#32)[i] = false := by
      have : i ≠ 0 := by omega
      simp [BitVec.getElem_one, this]
    simp [h0, h2, h3, hi]

/-- the low 32 bits of a decoded handle, with the sign bit forced, are the handle (if it had the sign bit) -/
theorem trunc_decInt_or (h : BitVec 32) (hm : h.msb = true) :
    BitVec.setWidth 32 (decInt h) ||| 0x80000000#32 = h := by
  unfold decInt
  ext i hi
  have h64 : i < 64 := by omega
  simp only [BitVec.getElem_or, BitVec.getElem_setWidth, BitVec.getLsbD_signExtend, msb32_eq,
    BitVec.getElem_twoPow, hi, h64, BitVec.getLsbD_sshiftRight, BitVec.shiftLeft_eq, BitVec.getLsbD_shiftLeft]
  by_cases h31 : i = 31
  · subst h31
    simp [BitVec.msb_eq_getLsbD_last] at hm
    simp [hm]
  · have h1 : 1 + i < 32 := by omega
    have h2 : ¬ 32 ≤ i := by omega
    simp [h31, h1, h2, BitVec.getLsbD_eq_getElem hi]

/-! ## Property theorems -/

/-- Every integer in the documented terminal range −2^30 … 2^30−1 is encoded without error by
    `terminal::getIntegerHandle` and `setFromHandle(INTEGER, ·)` gives back exactly that integer. -/
theorem int_roundtrip {v : BitVec 64} (hr : inRange v) : (encInt v).map decInt = .ok v := by
  rw [encInt_eq]
  by_cases h0 : v = 0#64
  · subst h0; decide
  · have hr' := hr
    unfold inRange at hr'
    have : ¬ (v.toInt < -1073741824 ∨ 1073741823 < v.toInt) := by omega
    simp only [h0, this, if_false, Except.map, decInt_or_msb, decInt_trunc hr]

example : inRange (BitVec.ofInt 64 (-1073741824)) ∧
    (encInt (BitVec.ofInt 64 (-1073741824))).map decInt = .ok (BitVec.ofInt 64 (-1073741824)) := by decide
example : (encInt 1073741823#64) = .ok 0xbfffffff#32 ∧ decInt 0xbfffffff#32 = 1073741823#64 := by decide

/-- Every `long` outside the range is rejected: `getIntegerHandle` throws (VALUE_OVERFLOW), it never
    silently wraps. -/
theorem int_overflow {v : BitVec 64} (hr : ¬ inRange v) : encInt v = .error () := by
  rw [encInt_eq]
  have h0 : v ≠ 0#64 := by
    intro e; subst e; exact hr inRange_zero
  unfold inRange at hr
  have : v.toInt < -1073741824 ∨ 1073741823 < v.toInt := by omega
  simp [h0, this]

example : ¬ inRange 1073741824#64 ∧ encInt 1073741824#64 = .error () := by decide
example : ¬ inRange (BitVec.ofInt 64 (-1073741825)) ∧ encInt (BitVec.ofInt 64 (-1073741825)) = .error () := by
  decide
example : encInt_throws = ["VALUE_OVERFLOW"] := by decide

/-- Distinct integers in the range get distinct terminal handles. -/
theorem int_inj {v w : BitVec 64} (hv : inRange v) (hw : inRange w) (h : encInt v = encInt w) : v = w := by
  have h1 := int_roundtrip hv
  have h2 := int_roundtrip hw
  rw [h, h2] at h1
  exact (Except.ok.inj h1).symm

example : inRange 5#64 ∧ inRange 6#64 ∧ encInt 5#64 ≠ encInt 6#64 := by decide

/-- The handle of a non-zero integer terminal has its sign bit set, hence is neither a node handle
    (those are > 0) nor the transparent handle 0. -/
theorem enc_nonzero_negative_int {v : BitVec 64} {h : BitVec 32} (hv : v ≠ 0#64) (he : encInt v = .ok h) :
    negHandle h := by
  rw [encInt_eq] at he
  simp only [hv, if_false] at he
  by_cases hc : v.toInt < -1073741824 ∨ 1073741823 < v.toInt
  · simp [hc] at he
  · simp only [hc, if_false] at he
    have := Except.ok.inj he
    subst this
    exact msb_or_msb _

example : (1#64) ≠ 0#64 ∧ encInt 1#64 = .ok 0x80000001#32 ∧ negHandle 0x80000001#32 := by decide

/-- Handle 0 (the transparent terminal of MT integer forests) encodes the integer 0 and nothing else. -/
theorem int_zero_iff {v : BitVec 64} (_hr : inRange v) : encInt v = .ok 0#32 ↔ v = 0#64 := by
  constructor
  · intro he
    by_cases h0 : v = 0#64
    · exact h0
    · exact absurd (enc_nonzero_negative_int h0 he) (by decide)
  · intro h0; subst h0; decide

example : inRange 0#64 ∧ encInt 0#64 = .ok 0#32 := by decide

/-- Every value produced by `setFromHandle(INTEGER, h)` lies in the terminal range, for every handle. -/
theorem decInt_inRange (h : BitVec 32) : inRange (decInt h) := by
  unfold inRange
  rw [decInt_toInt]
  have := h.isLt
  simp only [Int.bmod_def]
  omega

example : decInt 0x12345678#32 = 0x12345678#64 ∧ inRange (decInt 0x7fffffff#32) ∧
    decInt 0x7fffffff#32 = BitVec.ofInt 64 (-1) := by decide

/-- Onto: every handle with the sign bit set, except the bare sign bit, IS the handle of the integer
    it decodes to (so the 2^31−1 handles 0x80000001…0xFFFFFFFF and handle 0 are exactly the
    2^31 representable integer terminals). -/
theorem int_handle_roundtrip {h : BitVec 32} (hm : negHandle h) (hne : h ≠ 0x80000000#32) :
    encInt (decInt h) = .ok h := by
  have hr := decInt_inRange h
  rw [encInt_eq]
  have hlt := h.isLt
  have hge : 2147483648 ≤ h.toNat := by
    have := (BitVec.msb_eq_decide h).symm.trans hm
    simpa using this
  have hne' : h.toNat ≠ 2147483648 := by
    intro e; apply hne; apply BitVec.eq_of_toNat_eq; simpa using e
  have hv0 : decInt h ≠ 0#64 := by
    intro e
    have : (decInt h).toInt = 0 := by rw [e]; decide
    rw [decInt_toInt] at this
    simp only [Int.bmod_def] at this
    omega
  have hc : ¬ ((decInt h).toInt < -1073741824 ∨ 1073741823 < (decInt h).toInt) := by
    unfold inRange at hr; omega
  simp only [hv0, hc, if_false, trunc_decInt_or h hm]

example : negHandle 0xffffffff#32 ∧ decInt 0xffffffff#32 = BitVec.ofInt 64 (-1) ∧
    encInt (BitVec.ofInt 64 (-1)) = .ok 0xffffffff#32 := by decide

/-- Encoding a non-zero float as a real terminal and decoding it loses exactly the least significant
    fraction bit, nothing else (sign, exponent and the upper 22 fraction bits survive; ±infinity survives). -/
theorem real_roundtrip {b : BitVec 32} (hb : ¬ isZeroBits b) : decRealBits (encRealBits b) = clearLsb b := by
  rw [encRealBits_nonzero hb]
  unfold decRealBits
  rw [BitVec.shiftLeft_eq, shl_or_msb, sshr_shl]

/-- +0.0 and −0.0 both become the transparent handle and decode to +0.0. -/
theorem real_roundtrip_zero {b : BitVec 32} (hb : isZeroBits b) : decRealBits (encRealBits b) = 0#32 := by
  rw [encRealBits_zero hb]; decide

example : ¬ isZeroBits 0x3f800001#32 ∧ decRealBits (encRealBits 0x3f800001#32) = 0x3f800000#32 := by decide
example : ¬ isZeroBits 0x7f800000#32 ∧ decRealBits (encRealBits 0x7f800000#32) = 0x7f800000#32 := by decide
example : isZeroBits 0x80000000#32 ∧ decRealBits (encRealBits 0x80000000#32) = 0#32 := by decide

/-- Two non-zero floats that are still different after dropping the last fraction bit get different
    handles. -/
theorem real_inj {b₁ b₂ : BitVec 32} (h₁ : ¬ isZeroBits b₁) (h₂ : ¬ isZeroBits b₂)
    (hne : clearLsb b₁ ≠ clearLsb b₂) : encRealBits b₁ ≠ encRealBits b₂ := by
  intro e
  apply hne
  rw [← real_roundtrip h₁, ← real_roundtrip h₂, e]

example : clearLsb 0x3f800000#32 ≠ clearLsb 0x3f800002#32 ∧
    encRealBits 0x3f800000#32 ≠ encRealBits 0x3f800002#32 := by decide

/-- The handle of a non-zero real terminal has its sign bit set (never a node handle, never 0). -/
theorem enc_nonzero_negative_real {b : BitVec 32} (hb : ¬ isZeroBits b) : negHandle (encRealBits b) := by
  rw [encRealBits_nonzero hb]
  exact msb_or_msb _

example : ¬ isZeroBits 0x00000001#32 ∧ encRealBits 0x00000001#32 = 0x80000000#32 := by decide

/-- Handle 0 (the transparent terminal of MT real forests) is produced for ±0.0 and for nothing else. -/
theorem real_zero_iff (b : BitVec 32) : encRealBits b = 0#32 ↔ isZeroBits b := by
  constructor
  · intro he
    by_cases hb : isZeroBits b
    · exact hb
    · exact absurd he (ne_zero_of_msb (enc_nonzero_negative_real hb))
  · exact encRealBits_zero

example : encRealBits 0x80000000#32 = 0#32 ∧ encRealBits 0x00000002#32 ≠ 0#32 := by decide

/-- REMARK (not a violation of C19, see NOTES.md): three real handles decode to a zero -- 0 (transparent),
    0x80000000 (what the smallest denormal 0x00000001 encodes to; decodes to +0.0) and 0xC0000000
    (from 0x80000001; decodes to −0.0) -- so `getRealHandle ∘ setFromHandle` is not the identity on them. -/
example : encRealBits 0x00000001#32 = 0x80000000#32 ∧ decRealBits 0x80000000#32 = 0#32 ∧
    encRealBits (decRealBits 0x80000000#32) = 0#32 ∧
    encRealBits 0x80000001#32 = 0xc0000000#32 ∧ decRealBits 0xc0000000#32 = 0x80000000#32 := by decide

/-- Both booleans survive; `false` is handle 0, `true` is handle −1. -/
theorem bool_roundtrip (x : Bool) : decBool (encBool x) = .ok x := by
  cases x <;> decide

example : decBool (encBool true) = .ok true ∧ decBool (encBool false) = .ok false := by decide

/-- `false` is the only boolean with the transparent handle, and the two handles differ. -/
theorem bool_zero_iff (x : Bool) : encBool x = 0#32 ↔ x = false := by
  cases x <;> decide

example : encBool false = 0#32 ∧ encBool true ≠ 0#32 := by decide

/-- `setFromHandle(BOOLEAN, h)` accepts exactly the two boolean handles 0 and −1 (every other handle
    throws), and returns the boolean that encodes to `h`. -/
theorem bool_decode_exact (h : BitVec 32) (x : Bool) : decBool h = .ok x ↔ h = encBool x := by
  have hm1 : (-(1#32)).toInt = -1 := by decide
  have h0 : (0#32).toInt = 0 := by decide
  by_cases hr : h.toInt < -1 ∨ 0 < h.toInt
  · have hd : decBool h = .error () := by
      unfold decBool
      simp only [BitVec.slt_eq_decide, hm1, h0]
      rcases hr with hr | hr <;> simp [hr]
    rw [hd]
    constructor
    · intro e; cases e
    · intro e; subst e
      cases x
      · exact absurd hr (by decide)
      · exact absurd hr (by decide)
  · have hc : h = -(1#32) ∨ h = 0#32 := by
      have : h.toInt = -1 ∨ h.toInt = 0 := by omega
      rcases this with e | e
      · left; apply BitVec.toInt_inj.mp; rw [e, hm1]
      · right; apply BitVec.toInt_inj.mp; rw [e, h0]
    rcases hc with e | e <;> subst e <;> cases x <;> decide

example : decBool (BitVec.ofInt 32 (-2)) = .error () ∧ decBool 1#32 = .error () ∧ decBool_throws = ["MISCELLANEOUS"] := by
  decide

/-- a `true` terminal has a negative handle -/
theorem enc_nonzero_negative_bool : negHandle (encBool true) := by decide

example : encBool true = 0xffffffff#32 ∧ encBool false = 0#32 ∧ decBool 0x80000000#32 = .error () := by decide

/-- EV+ : +infinity is represented by the edge (0, OMEGA_INFINITY) and is read back as +infinity. -/
theorem evplus_inf_preserved : evpDecode (evpEncode .inf) = .inf := by decide

/-- EV+ : every finite `long` (no 31-bit restriction: edge values are `long`s) is read back unchanged
    and is never mistaken for +infinity -- not even the value 0. -/
theorem evplus_fin_preserved (v : BitVec 64) :
    evpDecode (evpEncode (.fin v)) = .fin v ∧ evpEncode (.fin v) ≠ evpEncode .inf := by
  constructor
  · simp [evpDecode, evpEncode, omegaNormal, omegaInfinity]
  · simp [evpEncode, omegaNormal, omegaInfinity]

example : evpDecode (evpEncode (.fin 0#64)) = .fin 0#64 := by decide

/-- EV* : a float edge value is read back bit for bit, except that −0.0 is read back as +0.0;
    (·, OMEGA_ZERO) is used exactly for ±0.0. -/
theorem evtimes_preserved (b : BitVec 32) :
    evtDecode (evtEncode b) = (if isZeroBits b then 0#32 else b) ∧
    ((evtEncode b).node = omegaZero ↔ isZeroBits b) := by
  by_cases hb : isZeroBits b
  · have hf : floatNonzero b = false := by
      cases h : floatNonzero b
      · rfl
      · exact absurd hb ((floatNonzero_iff b).mp h)
    simp [evtDecode, evtEncode, hf, hb, omegaZero]
  · have hf := (floatNonzero_iff b).mpr hb
    simp [evtDecode, evtEncode, hf, hb, omegaZero, omegaNormal]

example : evtDecode (evtEncode 0x3f800001#32) = 0x3f800001#32 := by decide

end Meddly.C19

/-
  #print axioms (Lean 4.33.0) -- no `sorry`, no `native_decide`, no `bv_decide`, no new axiom:

  int_roundtrip              [propext, Classical.choice, Quot.sound]
  int_overflow               [propext, Classical.choice, Quot.sound]
  int_inj                    [propext, Classical.choice, Quot.sound]
  enc_nonzero_negative_int   [propext, Quot.sound]
  int_zero_iff               [propext, Quot.sound]
  decInt_inRange             [propext, Classical.choice, Quot.sound]
  int_handle_roundtrip       [propext, Classical.choice, Quot.sound]
  real_roundtrip             [propext, Classical.choice, Quot.sound]
  real_roundtrip_zero        [propext, Quot.sound]
  real_inj                   [propext, Classical.choice, Quot.sound]
  enc_nonzero_negative_real  [propext, Quot.sound]
  real_zero_iff              [propext, Quot.sound]
  bool_roundtrip             (none)
  bool_zero_iff              (none)
  bool_decode_exact          [propext, Quot.sound]
  enc_nonzero_negative_bool  [propext]
  evplus_inf_preserved       (none)
  evplus_fin_preserved       [propext]
  evtimes_preserved          [propext, Classical.choice, Quot.sound]
  inRangeB_iff               [propext]
-/
