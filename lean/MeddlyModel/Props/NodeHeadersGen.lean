/-
  The node-lifetime logic GENERATED from src/node_headers.h / node_headers.cc (Gen/NodeHeaders.lean, regenerated
  by translate/nodeheaders_to_lean.py on every run) against the hand-written state machine State/NodeLife.lean (C06).

  Gen.NodeHeaders works on the header of ONE handle in the representation of the C++ class: level entry (0 = deleted),
  incoming count, cache count, each behind an optional array pointer, the flag `pessimistic`, and the ghost list of
  the calls that leave the class (`parent.deleteNode(p)`, `recycleNodeHandle(p)`, `reviveNode(p)`).
  NodeLife works on `HState = free | active lvl inc cc kids | deleted cc`.

  1. closed forms: `linkNode_hdr`, `unlinkNode_hdr`, `cacheNode_hdr`, `uncacheNode_hdr`, .. : what every generated function
     does to a header of the reference-counting configuration (`hdr`), for every in-contract call;
  2. simulation, one theorem per operation (`link_sim`, `unlink_sim`, `cache_sim`, `uncache_sim`): NodeLife's step and
     the generated function yield the same counts, the same class (active / deleted / free) and the same decision
     (delete the node now / recycle the handle now / keep), read off the events;
  3. the key statements of C06 for the GENERATED functions (`gen_deleted_iff`, `gen_recycled_iff`,
     `gen_never_recycled_while_cached`, `gen_inv_step`, `gen_revive_iff`);
  4. the whole machine: `stepG` = NodeLife's `step` with every per-handle transition computed by the generated
     functions (the deletion cascade driven by the `deleteNode` EVENTS); `stepG_eq` / `runG_eq`: it is NodeLife's
     machine on every legal history, so `counts_exact`, `no_dangling`, `all_reclaimed`, `all_reclaimed_pessimistic`,
     `reuse_only_free` hold for it (`gen_machine`);
  5. `NodeHeadersCounter.counter_spec`: the specification `Gen.NodeHeaders.Counter.*` of the counter_array calls used by the generated
     code is what the counter_array GENERATED from arrays.h / arrays.cc (Gen/CounterArray.lean) does to one entry.

  A change of node_headers.h / node_headers.cc that alters the lifetime logic changes Gen/NodeHeaders.lean and breaks
  the closed forms of part 1 (and everything after them).
-/
import MeddlyModel.State.NodeLife
import MeddlyModel.Gen.NodeHeaders
import MeddlyModel.Props.CounterArrayGen

namespace Meddly.NodeHeadersGen
open Meddly.NodeLife
open Gen.NodeHeaders (State Event Err linkNode unlinkNode cacheNode uncacheNode lastUnlink lastUncache isDeleted
  deactivate deleteNode_effect getNodeCacheCount getIncomingCount Counter.increment Counter.decrement
  Counter.isZeroBeforeIncrement Counter.isPositiveAfterDecrement)

/-! ### 1. closed forms on headers of the reference-counting configuration -/

/-- a header as `node_headers::initialize()` sets the class up when the forest uses reference counts:
    `levels`, `cache_counts`, `incoming_counts` allocated, `is_in_cache` and `is_reachable` null -/
def hdr (pess : Bool) (lvl : Int) (inc cc : Nat) (ev : List Event) : State :=
  { levels := some lvl, cache_counts := some cc, is_in_cache := none, incoming_counts := some inc,
    is_reachable := none, pessimistic := pess, events := ev }

theorem isDeleted_hdr (pess : Bool) (lvl : Int) (inc cc : Nat) (ev : List Event) (p : Int) (hp : 1 ≤ p) :
    isDeleted (hdr pess lvl inc cc ev) p = .ok (decide (lvl = 0)) := by
  have h1 : ¬ p < 1 := by omega
  by_cases h : lvl = 0
  · simp [isDeleted, hdr, h1, h]
  · have h' : ¬ (0 = lvl) := fun e => h e.symm
    simp [isDeleted, hdr, h1, h, h']

theorem isActive_hdr (pess : Bool) (lvl : Int) (inc cc : Nat) (ev : List Event) (p : Int) (hp : 1 ≤ p) :
    Gen.NodeHeaders.isActive (hdr pess lvl inc cc ev) p = .ok (decide (lvl ≠ 0)) := by
  simp [Gen.NodeHeaders.isActive, isDeleted_hdr pess lvl inc cc ev p hp]

theorem deactivate_hdr (pess : Bool) (lvl : Int) (inc cc : Nat) (ev : List Event) (p : Int) (hp : 1 ≤ p) :
    deactivate (hdr pess lvl inc cc ev) p = .ok (hdr pess 0 inc cc ev) := by
  have h1 : ¬ p < 1 := by omega
  simp [deactivate, hdr, h1]

theorem counts_hdr (pess : Bool) (lvl : Int) (inc cc : Nat) (ev : List Event) (p : Int) (hp : 1 ≤ p) :
    getIncomingCount (hdr pess lvl inc cc ev) p = .ok inc ∧ getNodeCacheCount (hdr pess lvl inc cc ev) p = .ok cc := by
  have h1 : ¬ p < 1 := by omega
  simp [getIncomingCount, getNodeCacheCount, hdr, h1]

/-- `linkNode(p)`: the incoming count goes up by one; `reviveNode(p)` is called exactly when it was 0 -/
theorem linkNode_hdr (pess : Bool) (lvl : Int) (inc cc : Nat) (ev : List Event) (p : Int) (hp : 1 ≤ p)
    (hf : inc + 1 < 4294967296) :
    linkNode (hdr pess lvl inc cc ev) p =
      .ok (hdr pess lvl (inc + 1) cc (ev ++ if inc = 0 then [Event.reviveNode p] else []), p) := by
  have h1 : ¬ p < 1 := by omega
  by_cases h0 : inc = 0 <;> simp [linkNode, hdr, Counter.isZeroBeforeIncrement, h1, hf, h0]

/-- `cacheNode(p)`: the cache count goes up by one, nothing else -/
theorem cacheNode_hdr (pess : Bool) (lvl : Int) (inc cc : Nat) (ev : List Event) (p : Int) (hp : 1 ≤ p)
    (hf : cc + 1 < 4294967296) :
    cacheNode (hdr pess lvl inc cc ev) p = .ok (hdr pess lvl inc (cc + 1) ev) := by
  have h1 : ¬ p < 1 := by omega
  simp [cacheNode, hdr, Counter.increment, h1, hf]

/-- `unlinkNode(p)` on a positive incoming count: the count goes down by one; if it reaches 0 (`lastUnlink`):
    cache count 0 → `parent.deleteNode(p)` then `recycleNodeHandle(p)`; else pessimistic → `parent.deleteNode(p)` only;
    else (optimistic) nothing -/
theorem unlinkNode_hdr (pess : Bool) (lvl : Int) (inc cc : Nat) (ev : List Event) (p : Int) (hp : 1 ≤ p)
    (hi : 0 < inc) :
    unlinkNode (hdr pess lvl inc cc ev) p = .ok (
      if 0 < inc - 1 then hdr pess lvl (inc - 1) cc ev
      else if cc = 0 then hdr pess 0 (inc - 1) cc (ev ++ [Event.deleteNode p, Event.recycleNodeHandle p])
      else if pess = true then hdr pess 0 (inc - 1) cc (ev ++ [Event.deleteNode p])
      else hdr pess lvl (inc - 1) cc ev) := by
  have h1 : ¬ p < 1 := by omega
  by_cases h2 : 0 < inc - 1
  · simp [unlinkNode, hdr, Counter.isPositiveAfterDecrement, h1, hi, h2]
  · by_cases h3 : cc = 0
    · simp [unlinkNode, lastUnlink, deleteNode_effect, deactivate, hdr, Counter.isPositiveAfterDecrement, h1, hi, h2, h3]
    · have h4 : ¬ (0 = cc) := fun e => h3 e.symm
      cases pess <;>
        simp [unlinkNode, lastUnlink, deleteNode_effect, deactivate, hdr, Counter.isPositiveAfterDecrement, h1, hi, h2, h3, h4]

/-- `uncacheNode(p)` on a positive cache count: the count goes down by one; if it reaches 0 (`lastUncache`):
    a deleted handle is recycled; an active node without incoming edges is deleted and its handle recycled;
    an active node with incoming edges stays -/
theorem uncacheNode_hdr (pess : Bool) (lvl : Int) (inc cc : Nat) (ev : List Event) (p : Int) (hp : 1 ≤ p)
    (hc : 0 < cc) :
    uncacheNode (hdr pess lvl inc cc ev) p = .ok (
      if 0 < cc - 1 then hdr pess lvl inc (cc - 1) ev
      else if lvl = 0 then hdr pess lvl inc (cc - 1) (ev ++ [Event.recycleNodeHandle p])
      else if inc = 0 then hdr pess 0 inc (cc - 1) (ev ++ [Event.deleteNode p, Event.recycleNodeHandle p])
      else hdr pess lvl inc (cc - 1) ev) := by
  have h1 : ¬ p < 1 := by omega
  by_cases h2 : 0 < cc - 1
  · simp [uncacheNode, hdr, Counter.isPositiveAfterDecrement, h1, hc, h2]
  · by_cases h3 : lvl = 0
    · simp [uncacheNode, lastUncache, isDeleted, hdr, Counter.isPositiveAfterDecrement, h1, hc, h2, h3]
    · have h3' : ¬ (0 = lvl) := fun e => h3 e.symm
      by_cases h4 : inc = 0
      · simp [uncacheNode, lastUncache, isDeleted, deleteNode_effect, deactivate, hdr, Counter.isPositiveAfterDecrement,
          h1, hc, h2, h3, h3', h4]
      · have h4' : ¬ (0 = inc) := fun e => h4 e.symm
        simp [uncacheNode, lastUncache, isDeleted, hdr, Counter.isPositiveAfterDecrement,
          h1, hc, h2, h3, h3', h4, h4']

/-- terminal handles (p < 1) are left alone by all four operations -/
theorem terminal_noop (s : State) (p : Int) (hp : p < 1) :
    linkNode s p = .ok (s, p) ∧ unlinkNode s p = .ok s ∧ cacheNode s p = .ok s ∧ uncacheNode s p = .ok s := by
  simp [linkNode, unlinkNode, cacheNode, uncacheNode, hp]

/-- outside the contract the generated code does what the C++ does or stops: a decrement of a zero count is not
    modelled (the real counter wraps around), a call through a null array pointer is undefined behaviour -/
example : unlinkNode (hdr true 1 0 0 []) 5 = .error .unmodelled := by
  simp [unlinkNode, hdr, Counter.isPositiveAfterDecrement]
example : uncacheNode (hdr false 1 1 0 []) 5 = .error .unmodelled := by
  simp [uncacheNode, hdr, Counter.isPositiveAfterDecrement]
example : linkNode { hdr true 1 0 0 [] with incoming_counts := none } 5 = .error .ub := by
  simp [linkNode]
example : isDeleted (hdr true 0 0 0 []) 0 = .error .unmodelled := by
  simp [isDeleted, hdr]

/-! ### the three classes of a header, the events of a call -/

inductive Cls where
  | active | deleted | free
  deriving DecidableEq, Repr

/-- class of a header as the harness observes it: A = level ≠ 0, D = level 0 and cache count > 0, F = otherwise -/
def clsG (g : State) : Cls :=
  if g.levels.getD 0 ≠ 0 then .active else if g.cache_counts.getD 0 ≠ 0 then .deleted else .free

def clsH : HState → Cls
  | .free => .free
  | .active .. => .active
  | .deleted _ => .deleted

/-- what a call decided about the node and its handle -/
inductive Decision where
  | keep            -- nothing leaves the class
  | revive          -- linkNode on an unreachable node: `reviveNode(p)`
  | delete          -- `parent.deleteNode(p)`: node destroyed, handle retained (pessimistic, still cached)
  | deleteRecycle   -- `parent.deleteNode(p); recycleNodeHandle(p)`
  | recycle         -- `recycleNodeHandle(p)` of an already deleted handle
  deriving DecidableEq, Repr

def Decision.events (p : Int) : Decision → List Event
  | .keep => []
  | .revive => [.reviveNode p]
  | .delete => [.deleteNode p]
  | .deleteRecycle => [.deleteNode p, .recycleNodeHandle p]
  | .recycle => [.recycleNodeHandle p]

/-! ### 2. simulation of NodeLife, per handle -/

def pessOf : Policy → Bool
  | .pessimistic => true
  | .optimistic => false

/-- the header of a NodeLife handle state (levels are positive naturals there) -/
def toGen (pol : Policy) (e : HState) (ev : List Event) : State :=
  hdr (pessOf pol) (((lvlOf e : Nat) : Int)) (incOf e) (ccOf e) ev

/-- well-formed handle states: a node sits at a level ≥ 1, a retained deleted handle has cache count > 0
    (both are invariants of NodeLife: `alloc` requires 1 ≤ lvl, `WInv.zombie`) -/
def WFh : HState → Prop
  | .free => True
  | .active lvl _ _ _ => lvl ≠ 0
  | .deleted cc => 0 < cc

theorem cls_toGen (pol : Policy) {e : HState} (h : WFh e) (ev : List Event) : clsG (toGen pol e ev) = clsH e := by
  cases e with
  | free => simp [toGen, hdr, clsG, clsH, lvlOf, ccOf]
  | active lvl inc cc kids =>
    simp only [WFh] at h
    simp [toGen, hdr, clsG, clsH, lvlOf]; omega
  | deleted cc =>
    simp only [WFh] at h
    have : cc ≠ 0 := by omega
    simp [toGen, hdr, clsG, clsH, lvlOf, ccOf, this]

theorem get_ext (s : St) (x : List Nat) (h : Nat) : ({ s with ext := x } : St).get h = s.get h := rfl

theorem hpos {h : Nat} (hh : h ≠ 0) : (1 : Int) ≤ (h : Int) := by omega

/-- `link_sim`: NodeLife's `link h` and the generated `linkNode`: same new counts, same class, and the generated code
    calls `reviveNode` exactly when the node was unreachable (incoming count 0). -/
theorem link_sim {s s' : St} {h : Nat} (hh : h ≠ 0) (hs : step s (.link h) = some s')
    (wf : WFh (s.get h)) (fit : incOf (s.get h) + 1 < 4294967296) (ev : List Event) :
    ∃ d, linkNode (toGen s.pol (s.get h) ev) h = .ok (toGen s.pol (s'.get h) (ev ++ d.events h), (h : Int)) ∧
      d = (if incOf (s.get h) = 0 then Decision.revive else Decision.keep) ∧
      clsH (s'.get h) = .active ∧ WFh (s'.get h) := by
  simp only [step, hh, if_false] at hs
  cases hg : s.get h with
  | free => simp [hg] at hs
  | deleted c => simp [hg] at hs
  | active lvl inc cc kids =>
    simp only [hg, Option.some.injEq] at hs
    subst hs
    rw [hg] at wf fit
    simp only [incOf] at fit
    have hg' : ({ (s.set h (.active lvl (inc+1) cc kids)) with ext := h :: s.ext } : St).get h =
        .active lvl (inc+1) cc kids := by rw [get_ext, get_set]; simp
    rw [hg']
    refine ⟨_, ?_, rfl, rfl, wf⟩
    have := linkNode_hdr (pessOf s.pol) ((lvl : Nat) : Int) inc cc ev h (hpos hh) fit
    simp only [toGen, lvlOf, incOf, ccOf]
    rw [this]
    by_cases h0 : inc = 0 <;> simp [h0, Decision.events]

/-- `cache_sim`: NodeLife's `cache h` and the generated `cacheNode`: cache count + 1, no event. -/
theorem cache_sim {s s' : St} {h : Nat} (hh : h ≠ 0) (hs : step s (.cache h) = some s')
    (fit : ccOf (s.get h) + 1 < 4294967296) (ev : List Event) :
    cacheNode (toGen s.pol (s.get h) ev) h = .ok (toGen s.pol (s'.get h) ev) ∧ clsH (s'.get h) = clsH (s.get h) := by
  simp only [step, hh, if_false] at hs
  cases hg : s.get h with
  | free => simp [hg] at hs
  | deleted c => simp [hg] at hs
  | active lvl inc cc kids =>
    simp only [hg, Option.some.injEq] at hs
    subst hs
    rw [hg] at fit
    simp only [ccOf] at fit
    rw [get_set]
    simp only [if_true, toGen, lvlOf, incOf, ccOf, clsH, and_true]
    exact cacheNode_hdr (pessOf s.pol) ((lvl : Nat) : Int) inc cc ev h (hpos hh) fit

/-- what NodeLife's `unlink1` decides -/
def unlinkDecision (pol : Policy) : HState → Decision
  | .active _ inc cc _ =>
    if inc - 1 ≠ 0 then .keep else if cc = 0 then .deleteRecycle
    else match pol with
      | .pessimistic => .delete
      | .optimistic => .keep
  | _ => .keep

/-- `unlink_sim`: `unlink1` is NodeLife's transition for ONE `unlinkNode(h)` call (the deletion cascade of its `step` is a
    sequence of such calls, see `stepG`).  The generated `unlinkNode` yields the same new counts and class, and the
    same decision: the children are handed to the cascade (`ks` = the node's children) exactly when the generated code
    calls `parent.deleteNode`, and the handle becomes free exactly when it calls `recycleNodeHandle`. -/
theorem unlink_sim {s s1 : St} {h : Nat} {ks : List Nat} (hh : h ≠ 0) (hu : unlink1 s h = some (s1, ks))
    (wf : WFh (s.get h)) (ev : List Event) :
    let d := unlinkDecision s.pol (s.get h)
    unlinkNode (toGen s.pol (s.get h) ev) h = .ok (toGen s.pol (s1.get h) (ev ++ d.events h)) ∧
      ks = (if Event.deleteNode h ∈ d.events h then kidsOf (s.get h) else []) ∧
      (s1.get h = .free ↔ Event.recycleNodeHandle h ∈ d.events h) ∧
      (clsH (s1.get h) ≠ .active ↔ Event.deleteNode h ∈ d.events h) ∧ WFh (s1.get h) ∧ s1.pol = s.pol := by
  intro d
  unfold unlink1 at hu
  cases hg : s.get h with
  | free => simp [hg] at hu
  | deleted c => simp [hg] at hu
  | active lvl inc0 cc kids =>
    rw [hg] at wf hu
    cases inc0 with
    | zero => simp at hu
    | succ inc =>
      simp only at hu
      have hcf := unlinkNode_hdr (pessOf s.pol) ((lvl : Nat) : Int) (inc + 1) cc ev h (hpos hh) (by omega)
      simp only [Nat.add_sub_cancel] at hcf
      have hd : d = unlinkDecision s.pol (.active lvl (inc+1) cc kids) := by simp only [d, hg]
      simp only [unlinkDecision, Nat.add_sub_cancel] at hd
      by_cases hi : inc ≠ 0
      · simp only [hi, ne_eq, not_false_eq_true, if_true, Option.some.injEq, Prod.mk.injEq] at hu
        obtain ⟨rfl, rfl⟩ := hu
        have hp : 0 < inc := by omega
        simp only [hi, ne_eq, not_false_eq_true, if_true] at hd
        rw [get_set]
        simp only [if_true, toGen, lvlOf, incOf, ccOf, hd, Decision.events, List.append_nil, kidsOf]
        simp only [hp, if_true] at hcf
        refine ⟨hcf, by simp, by simp, by simp [clsH], wf, rfl⟩
      · have hi0 : inc = 0 := by omega
        subst hi0
        simp only [ne_eq, not_true_eq_false, if_false] at hu hd
        by_cases hc0 : cc = 0
        · subst hc0
          simp only [if_true, Option.some.injEq, Prod.mk.injEq] at hu hd
          obtain ⟨rfl, rfl⟩ := hu
          rw [get_set]
          simp only [if_true, toGen, lvlOf, incOf, ccOf, hd, Decision.events, kidsOf]
          simp only [Nat.lt_irrefl, if_false, if_true] at hcf
          refine ⟨hcf, by simp, by simp, by simp [clsH], trivial, rfl⟩
        · simp only [hc0, if_false] at hu hd
          cases hp : s.pol with
          | pessimistic =>
            simp only [hp, Option.some.injEq, Prod.mk.injEq] at hu hd
            obtain ⟨rfl, rfl⟩ := hu
            rw [get_set]
            simp only [if_true, toGen, lvlOf, incOf, ccOf, hd, Decision.events, kidsOf, pessOf]
            simp only [Nat.lt_irrefl, if_false, hc0, pessOf, hp, if_true] at hcf
            refine ⟨hcf, by simp, by simp, by simp [clsH], by simp only [WFh]; omega, hp⟩
          | optimistic =>
            simp only [hp, Option.some.injEq, Prod.mk.injEq] at hu hd
            obtain ⟨rfl, rfl⟩ := hu
            rw [get_set]
            simp only [if_true, toGen, lvlOf, incOf, ccOf, hd, Decision.events, kidsOf, pessOf, List.append_nil]
            simp only [Nat.lt_irrefl, if_false, hc0, pessOf, hp] at hcf
            refine ⟨by simpa using hcf, by simp, by simp, by simp [clsH], wf, hp⟩

/-- what NodeLife's `uncache` decides -/
def uncacheDecision : HState → Decision
  | .active _ inc cc _ => if cc - 1 = 0 ∧ inc = 0 then .deleteRecycle else .keep
  | .deleted cc => if cc - 1 = 0 then .recycle else .keep
  | .free => .keep

/-- NodeLife's transition of the handle itself for one `uncacheNode(h)` call (its `step` then runs the deletion cascade
    on the children when the node was deleted) -/
def uncache1 (s : St) (h : Nat) : Option (St × List Nat) :=
  match s.get h with
  | .active lvl inc (cc+1) kids =>
    if cc = 0 ∧ inc = 0 then some (s.set h .free, kids) else some (s.set h (.active lvl inc cc kids), [])
  | .deleted (cc+1) => if cc = 0 then some (s.set h .free, []) else some (s.set h (.deleted cc), [])
  | _ => none

/-- NodeLife's `uncache h` is `uncache1` followed by the cascade on the children it returns -/
theorem step_uncache (s : St) (h : Nat) (hh : h ≠ 0) :
    step s (.uncache h) = match uncache1 s h with
      | some (s1, ks) => drain (fuelFor s) s1 ks
      | none => none := by
  simp only [step, hh, if_false, uncache1]
  cases hg : s.get h with
  | free => rfl
  | deleted c =>
    cases c with
    | zero => rfl
    | succ c => by_cases e : c = 0 <;> simp [e, drain] <;> cases fuelFor s <;> rfl
  | active lvl inc cc kids =>
    cases cc with
    | zero => rfl
    | succ cc =>
      by_cases e : cc = 0 ∧ inc = 0
      · simp [e]
      · simp only [e, if_false]; cases fuelFor s <;> rfl

/-- `uncache_sim`: NodeLife's transition for one `uncacheNode(h)` call and the generated `uncacheNode`: same counts, class
    and decision (delete + recycle an unreachable node whose last cache entry goes; recycle a deleted handle whose
    last cache entry goes; otherwise keep). -/
theorem uncache_sim {s s1 : St} {h : Nat} {ks : List Nat} (hh : h ≠ 0) (hu : uncache1 s h = some (s1, ks))
    (wf : WFh (s.get h)) (ev : List Event) :
    let d := uncacheDecision (s.get h)
    uncacheNode (toGen s.pol (s.get h) ev) h = .ok (toGen s.pol (s1.get h) (ev ++ d.events h)) ∧
      ks = (if Event.deleteNode h ∈ d.events h then kidsOf (s.get h) else []) ∧
      (s1.get h = .free ↔ Event.recycleNodeHandle h ∈ d.events h) ∧
      (clsH (s.get h) = .active ∧ clsH (s1.get h) ≠ .active ↔ Event.deleteNode h ∈ d.events h) ∧
      WFh (s1.get h) ∧ s1.pol = s.pol := by
  intro d
  unfold uncache1 at hu
  cases hg : s.get h with
  | free => simp [hg] at hu
  | deleted c0 =>
    rw [hg] at hu wf
    cases c0 with
    | zero => simp at hu
    | succ c =>
      simp only at hu
      have hcf := uncacheNode_hdr (pessOf s.pol) 0 0 (c + 1) ev h (hpos hh) (by omega)
      simp only [Nat.add_sub_cancel] at hcf
      have hd : d = uncacheDecision (.deleted (c+1)) := by simp only [d, hg]
      simp only [uncacheDecision, Nat.add_sub_cancel] at hd
      by_cases hc : c = 0
      · subst hc
        simp only [if_true, Option.some.injEq, Prod.mk.injEq] at hu hd
        obtain ⟨rfl, rfl⟩ := hu
        rw [get_set]
        simp only [if_true, toGen, lvlOf, incOf, ccOf, hd, Decision.events, kidsOf]
        simp only [Nat.lt_irrefl, if_false, if_true] at hcf
        refine ⟨by simpa using hcf, by simp, by simp, by simp [clsH], trivial, rfl⟩
      · simp only [hc, if_false, Option.some.injEq, Prod.mk.injEq] at hu hd
        obtain ⟨rfl, rfl⟩ := hu
        have hp : 0 < c := by omega
        rw [get_set]
        simp only [if_true, toGen, lvlOf, incOf, ccOf, hd, Decision.events, kidsOf, List.append_nil]
        simp only [hp, if_true] at hcf
        refine ⟨by simpa using hcf, by simp, by simp, by simp [clsH], by simp only [WFh]; omega, rfl⟩
  | active lvl inc cc0 kids =>
    rw [hg] at hu wf
    simp only [WFh] at wf
    cases cc0 with
    | zero => simp at hu
    | succ cc =>
      simp only at hu
      have hl : ((lvl : Nat) : Int) ≠ 0 := by simp; exact wf
      have hcf := uncacheNode_hdr (pessOf s.pol) ((lvl : Nat) : Int) inc (cc + 1) ev h (hpos hh) (by omega)
      simp only [Nat.add_sub_cancel, hl, if_false] at hcf
      have hd : d = uncacheDecision (.active lvl inc (cc+1) kids) := by simp only [d, hg]
      simp only [uncacheDecision, Nat.add_sub_cancel] at hd
      by_cases hlast : cc = 0 ∧ inc = 0
      · obtain ⟨rfl, rfl⟩ := hlast
        simp only [and_self, if_true, Option.some.injEq, Prod.mk.injEq] at hu hd
        obtain ⟨rfl, rfl⟩ := hu
        rw [get_set]
        simp only [if_true, toGen, lvlOf, incOf, ccOf, hd, Decision.events, kidsOf]
        simp only [Nat.lt_irrefl, if_false, if_true] at hcf
        refine ⟨hcf, by simp, by simp, by simp [clsH], trivial, rfl⟩
      · simp only [hlast, if_false, Option.some.injEq, Prod.mk.injEq] at hu hd
        obtain ⟨rfl, rfl⟩ := hu
        rw [get_set]
        simp only [if_true, toGen, lvlOf, incOf, ccOf, hd, Decision.events, kidsOf, List.append_nil]
        refine ⟨?_, by simp, by simp, by simp [clsH], wf, rfl⟩
        by_cases hp : 0 < cc
        · simpa [hp] using hcf
        · have hc0 : cc = 0 := by omega
          subst hc0
          have hi : inc ≠ 0 := fun e => hlast ⟨rfl, e⟩
          simpa [hi] using hcf

/-! ### 3. the reclamation rule of C06, for the GENERATED functions -/

/-- the node behind a header must be gone: no incoming edge and (pessimistic policy or no cache entry) -/
def ShouldBeDead (pess : Bool) (inc cc : Nat) : Prop := inc = 0 ∧ (pess = true ∨ cc = 0)

instance (pess : Bool) (inc cc : Nat) : Decidable (ShouldBeDead pess inc cc) := by unfold ShouldBeDead; infer_instance

/-- the invariant of one header: a node exists exactly as long as the rule allows it, a deleted handle has no incoming
    edges (NodeLife: `WInv.unreach`, `incOf (deleted _) = 0`) -/
def GInv (pess : Bool) (lvl : Int) (inc cc : Nat) : Prop :=
  (lvl ≠ 0 → ¬ ShouldBeDead pess inc cc) ∧ (lvl = 0 → inc = 0)

/-- the contract of the four calls (what the compiled-out MEDDLY_DCASSERTs and the counters demand) -/
def InContract (op : Gen.NodeHeaders.Op) (lvl : Int) (inc cc : Nat) : Prop :=
  match op with
  | .link => lvl ≠ 0 ∧ inc + 1 < 4294967296
  | .unlink => lvl ≠ 0 ∧ 0 < inc
  | .cache => lvl ≠ 0 ∧ cc + 1 < 4294967296
  | .uncache => 0 < cc

/-- every in-contract call on a reference-counting header succeeds and again yields such a header with the same
    policy flag; the old events are a prefix of the new ones -/
theorem gen_step_total (op : Gen.NodeHeaders.Op) (pess : Bool) (lvl : Int) (inc cc : Nat) (ev : List Event) (p : Int)
    (hp : 1 ≤ p) (hc : InContract op lvl inc cc) :
    ∃ lvl' inc' cc' new, Gen.NodeHeaders.step (hdr pess lvl inc cc ev) p op = .ok (hdr pess lvl' inc' cc' (ev ++ new)) := by
  cases op with
  | link =>
    obtain ⟨_, hf⟩ := hc
    exact ⟨_, _, _, _, by simp [Gen.NodeHeaders.step, Except.map, linkNode_hdr pess lvl inc cc ev p hp hf]; rfl⟩
  | cache =>
    obtain ⟨_, hf⟩ := hc
    exact ⟨_, _, _, [], by simp [Gen.NodeHeaders.step, cacheNode_hdr pess lvl inc cc ev p hp hf]; rfl⟩
  | unlink =>
    obtain ⟨_, hi⟩ := hc
    simp only [Gen.NodeHeaders.step, unlinkNode_hdr pess lvl inc cc ev p hp hi]
    by_cases h2 : 0 < inc - 1
    · exact ⟨_, _, _, [], by simp [h2]; rfl⟩
    · by_cases h3 : cc = 0
      · exact ⟨_, _, _, _, by simp only [h2, h3, if_false, if_true]; rfl⟩
      · cases pess
        · exact ⟨_, _, _, [], by simp [h2, h3]; rfl⟩
        · exact ⟨_, _, _, _, by simp only [h2, h3, if_false, if_true]; rfl⟩
  | uncache =>
    simp only [InContract] at hc
    simp only [Gen.NodeHeaders.step, uncacheNode_hdr pess lvl inc cc ev p hp hc]
    by_cases h2 : 0 < cc - 1
    · exact ⟨_, _, _, [], by simp [h2]; rfl⟩
    · by_cases h3 : lvl = 0
      · exact ⟨_, _, _, _, by simp only [h2, h3, if_false, if_true]; rfl⟩
      · by_cases h4 : inc = 0
        · exact ⟨_, _, _, _, by simp only [h2, h3, h4, if_false, if_true]; rfl⟩
        · exact ⟨_, _, _, [], by simp [h2, h3, h4]; rfl⟩

theorem new_nil {α : Type} {ev new : List α} (h : ev = ev ++ new) : new = [] := by simpa using h

theorem hdr_inj {pess pess' : Bool} {lvl lvl' : Int} {inc inc' cc cc' : Nat} {ev ev' : List Event}
    (h : hdr pess lvl inc cc ev = hdr pess' lvl' inc' cc' ev') :
    pess = pess' ∧ lvl = lvl' ∧ inc = inc' ∧ cc = cc' ∧ ev = ev' := by
  simp only [hdr, State.mk.injEq, Option.some.injEq] at h
  obtain ⟨a, b, _, c, _, d, e⟩ := h
  exact ⟨d, a, c, b, e⟩

/-- `gen_deleted_iff` (C06: "a node is reclaimed as soon as unreferenced under the pessimistic policy, once no cache entry
    mentions it under the optimistic one"): an in-contract call of the GENERATED code on a live node whose header
    satisfies the invariant deletes the node (`parent.deleteNode(p)` is issued, the level entry becomes 0) EXACTLY when
    afterwards the incoming count is 0 and (the policy is pessimistic or the cache count is 0). -/
theorem gen_deleted_iff (op : Gen.NodeHeaders.Op) (pess : Bool) (lvl : Int) (inc cc : Nat) (ev : List Event) (p : Int)
    (hp : 1 ≤ p) (hl : lvl ≠ 0) (hc : InContract op lvl inc cc) (hI : GInv pess lvl inc cc)
    {lvl' : Int} {inc' cc' : Nat} {new : List Event}
    (hs : Gen.NodeHeaders.step (hdr pess lvl inc cc ev) p op = .ok (hdr pess lvl' inc' cc' (ev ++ new))) :
    (lvl' = 0 ↔ ShouldBeDead pess inc' cc') ∧ (Event.deleteNode p ∈ new ↔ ShouldBeDead pess inc' cc') ∧
      (lvl' ≠ 0 → lvl' = lvl) := by
  have hnd := hI.1 hl
  unfold ShouldBeDead at hnd ⊢
  cases op with
  | link =>
    obtain ⟨_, hf⟩ := hc
    simp only [Gen.NodeHeaders.step, Except.map, linkNode_hdr pess lvl inc cc ev p hp hf, Except.ok.injEq] at hs
    obtain ⟨_, rfl, rfl, rfl, he⟩ := hdr_inj hs
    have he := List.append_cancel_left he
    subst he
    refine ⟨by simp [hl], ?_, fun _ => rfl⟩
    by_cases h0 : inc = 0 <;> simp [h0]
  | cache =>
    obtain ⟨_, hf⟩ := hc
    simp only [Gen.NodeHeaders.step, cacheNode_hdr pess lvl inc cc ev p hp hf, Except.ok.injEq] at hs
    obtain ⟨_, rfl, rfl, rfl, he⟩ := hdr_inj hs
    have he := new_nil he
    subst he
    refine ⟨?_, ?_, fun _ => rfl⟩
    · simp only [hl, false_iff]; intro ⟨a, b⟩; rcases b with b | b
      · exact hnd ⟨a, Or.inl b⟩
      · omega
    · simp only [List.not_mem_nil, false_iff]; intro ⟨a, b⟩; rcases b with b | b
      · exact hnd ⟨a, Or.inl b⟩
      · omega
  | unlink =>
    obtain ⟨_, hi⟩ := hc
    simp only [Gen.NodeHeaders.step, unlinkNode_hdr pess lvl inc cc ev p hp hi, Except.ok.injEq] at hs
    by_cases h2 : 0 < inc - 1
    · simp only [h2, if_true] at hs
      obtain ⟨_, rfl, rfl, rfl, he⟩ := hdr_inj hs
      have he := new_nil he
      subst he
      exact ⟨by simp [hl]; omega, by simp; omega, fun _ => rfl⟩
    · by_cases h3 : cc = 0
      · simp only [h2, h3, if_false, if_true] at hs
        obtain ⟨_, rfl, rfl, rfl, he⟩ := hdr_inj hs
        have he := List.append_cancel_left he
        subst he
        exact ⟨by simp; omega, by simp; omega, fun h => absurd rfl h⟩
      · cases pess
        · simp only [h2, h3, if_false] at hs
          obtain ⟨_, rfl, rfl, rfl, he⟩ := hdr_inj hs
          have he := new_nil he
          subst he
          exact ⟨by simp [hl, h3], by simp [h3], fun _ => rfl⟩
        · simp only [h2, h3, if_false, if_true] at hs
          obtain ⟨_, rfl, rfl, rfl, he⟩ := hdr_inj hs
          have he := List.append_cancel_left he
          subst he
          exact ⟨by simp; omega, by simp; omega, fun h => absurd rfl h⟩
  | uncache =>
    simp only [InContract] at hc
    simp only [Gen.NodeHeaders.step, uncacheNode_hdr pess lvl inc cc ev p hp hc, Except.ok.injEq, hl, if_false] at hs
    by_cases h2 : 0 < cc - 1
    · simp only [h2, if_true] at hs
      obtain ⟨_, rfl, rfl, rfl, he⟩ := hdr_inj hs
      have he := new_nil he
      subst he
      refine ⟨?_, ?_, fun _ => rfl⟩
      · simp only [hl, false_iff]; intro ⟨a, b⟩; rcases b with b | b
        · exact hnd ⟨a, Or.inl b⟩
        · omega
      · simp only [List.not_mem_nil, false_iff]; intro ⟨a, b⟩; rcases b with b | b
        · exact hnd ⟨a, Or.inl b⟩
        · omega
    · by_cases h4 : inc = 0
      · simp only [h2, h4, if_false, if_true] at hs
        obtain ⟨_, rfl, rfl, rfl, he⟩ := hdr_inj hs
        have he := List.append_cancel_left he
        subst he
        exact ⟨by simp; omega, by simp; omega, fun h => absurd rfl h⟩
      · simp only [h2, h4, if_false] at hs
        obtain ⟨_, rfl, rfl, rfl, he⟩ := hdr_inj hs
        have he := new_nil he
        subst he
        exact ⟨by simp [hl, h4], by simp [h4], fun _ => rfl⟩

/-- `gen_recycled_iff` (C06: "handles are reused only after that"): an in-contract call of the GENERATED code on a header
    that satisfies the invariant and is in use (a live node, or a deleted handle that is still cached) hands the handle
    back (`recycleNodeHandle(p)`) EXACTLY when afterwards both counts are 0 — and then the level entry is 0 as well. -/
theorem gen_recycled_iff (op : Gen.NodeHeaders.Op) (pess : Bool) (lvl : Int) (inc cc : Nat) (ev : List Event) (p : Int)
    (hp : 1 ≤ p) (hc : InContract op lvl inc cc) (hI : GInv pess lvl inc cc)
    {lvl' : Int} {inc' cc' : Nat} {new : List Event}
    (hs : Gen.NodeHeaders.step (hdr pess lvl inc cc ev) p op = .ok (hdr pess lvl' inc' cc' (ev ++ new))) :
    (Event.recycleNodeHandle p ∈ new ↔ inc' = 0 ∧ cc' = 0) ∧ (Event.recycleNodeHandle p ∈ new → lvl' = 0) := by
  cases op with
  | link =>
    obtain ⟨_, hf⟩ := hc
    simp only [Gen.NodeHeaders.step, Except.map, linkNode_hdr pess lvl inc cc ev p hp hf, Except.ok.injEq] at hs
    obtain ⟨_, rfl, rfl, rfl, he⟩ := hdr_inj hs
    have he := List.append_cancel_left he
    subst he
    by_cases h0 : inc = 0 <;> simp [h0]
  | cache =>
    obtain ⟨_, hf⟩ := hc
    simp only [Gen.NodeHeaders.step, cacheNode_hdr pess lvl inc cc ev p hp hf, Except.ok.injEq] at hs
    obtain ⟨_, rfl, rfl, rfl, he⟩ := hdr_inj hs
    have he := new_nil he
    subst he
    simp
  | unlink =>
    obtain ⟨hl, hi⟩ := hc
    simp only [Gen.NodeHeaders.step, unlinkNode_hdr pess lvl inc cc ev p hp hi, Except.ok.injEq] at hs
    by_cases h2 : 0 < inc - 1
    · simp only [h2, if_true] at hs
      obtain ⟨_, rfl, rfl, rfl, he⟩ := hdr_inj hs
      have he := new_nil he
      subst he
      simp; omega
    · by_cases h3 : cc = 0
      · simp only [h2, h3, if_false, if_true] at hs
        obtain ⟨_, rfl, rfl, rfl, he⟩ := hdr_inj hs
        have he := List.append_cancel_left he
        subst he
        simp; omega
      · cases pess
        · simp only [h2, h3, if_false] at hs
          obtain ⟨_, rfl, rfl, rfl, he⟩ := hdr_inj hs
          have he := new_nil he
          subst he
          simp [h3]
        · simp only [h2, h3, if_false, if_true] at hs
          obtain ⟨_, rfl, rfl, rfl, he⟩ := hdr_inj hs
          have he := List.append_cancel_left he
          subst he
          simp [h3]
  | uncache =>
    simp only [InContract] at hc
    simp only [Gen.NodeHeaders.step, uncacheNode_hdr pess lvl inc cc ev p hp hc, Except.ok.injEq] at hs
    by_cases h2 : 0 < cc - 1
    · simp only [h2, if_true] at hs
      obtain ⟨_, rfl, rfl, rfl, he⟩ := hdr_inj hs
      have he := new_nil he
      subst he
      simp; omega
    · by_cases h3 : lvl = 0
      · simp only [h2, h3, if_false, if_true] at hs
        obtain ⟨_, rfl, rfl, rfl, he⟩ := hdr_inj hs
        have he := List.append_cancel_left he
        subst he
        have := hI.2 h3
        simp; omega
      · by_cases h4 : inc = 0
        · simp only [h2, h3, h4, if_false, if_true] at hs
          obtain ⟨_, rfl, rfl, rfl, he⟩ := hdr_inj hs
          have he := List.append_cancel_left he
          subst he
          simp; omega
        · simp only [h2, h3, h4, if_false] at hs
          obtain ⟨_, rfl, rfl, rfl, he⟩ := hdr_inj hs
          have he := new_nil he
          subst he
          simp [h4]

/-- `gen_never_recycled_while_cached` (C06: `no_reuse_while_cached`): whatever the header (no invariant assumed), the
    GENERATED code never hands a handle back while a compute-table entry still mentions it. -/
theorem gen_never_recycled_while_cached (op : Gen.NodeHeaders.Op) (pess : Bool) (lvl : Int) (inc cc : Nat)
    (ev : List Event) (p : Int) (hp : 1 ≤ p) (hc : InContract op lvl inc cc)
    {lvl' : Int} {inc' cc' : Nat} {new : List Event}
    (hs : Gen.NodeHeaders.step (hdr pess lvl inc cc ev) p op = .ok (hdr pess lvl' inc' cc' (ev ++ new)))
    (hr : Event.recycleNodeHandle p ∈ new) : cc' = 0 := by
  cases op with
  | link =>
    obtain ⟨_, hf⟩ := hc
    simp only [Gen.NodeHeaders.step, Except.map, linkNode_hdr pess lvl inc cc ev p hp hf, Except.ok.injEq] at hs
    obtain ⟨_, rfl, rfl, rfl, he⟩ := hdr_inj hs
    have he := List.append_cancel_left he
    subst he
    by_cases h0 : inc = 0 <;> simp [h0] at hr
  | cache =>
    obtain ⟨_, hf⟩ := hc
    simp only [Gen.NodeHeaders.step, cacheNode_hdr pess lvl inc cc ev p hp hf, Except.ok.injEq] at hs
    obtain ⟨_, rfl, rfl, rfl, he⟩ := hdr_inj hs
    have he := new_nil he
    subst he
    simp at hr
  | unlink =>
    obtain ⟨hl, hi⟩ := hc
    simp only [Gen.NodeHeaders.step, unlinkNode_hdr pess lvl inc cc ev p hp hi, Except.ok.injEq] at hs
    by_cases h2 : 0 < inc - 1
    · simp only [h2, if_true] at hs
      obtain ⟨_, rfl, rfl, rfl, he⟩ := hdr_inj hs
      have he := new_nil he
      subst he
      simp at hr
    · by_cases h3 : cc = 0
      · simp only [h2, h3, if_false, if_true] at hs
        obtain ⟨_, rfl, rfl, rfl, he⟩ := hdr_inj hs
        rfl
      · cases pess
        · simp only [h2, h3, if_false] at hs
          obtain ⟨_, rfl, rfl, rfl, he⟩ := hdr_inj hs
          have he := new_nil he
          subst he
          simp at hr
        · simp only [h2, h3, if_false, if_true] at hs
          obtain ⟨_, rfl, rfl, rfl, he⟩ := hdr_inj hs
          have he := List.append_cancel_left he
          subst he
          simp at hr
  | uncache =>
    simp only [InContract] at hc
    simp only [Gen.NodeHeaders.step, uncacheNode_hdr pess lvl inc cc ev p hp hc, Except.ok.injEq] at hs
    by_cases h2 : 0 < cc - 1
    · simp only [h2, if_true] at hs
      obtain ⟨_, rfl, rfl, rfl, he⟩ := hdr_inj hs
      have he := new_nil he
      subst he
      simp at hr
    · by_cases h3 : lvl = 0
      · simp only [h2, h3, if_false, if_true] at hs
        obtain ⟨_, rfl, rfl, rfl, he⟩ := hdr_inj hs
        omega
      · by_cases h4 : inc = 0
        · simp only [h2, h3, h4, if_false, if_true] at hs
          obtain ⟨_, rfl, rfl, rfl, he⟩ := hdr_inj hs
          omega
        · simp only [h2, h3, h4, if_false] at hs
          obtain ⟨_, rfl, rfl, rfl, he⟩ := hdr_inj hs
          have he := new_nil he
          subst he
          simp at hr

/-- `gen_inv_step`: the invariant of a header is preserved by every in-contract call of the GENERATED code (so the two
    `iff`s above apply along every legal history of a handle). -/
theorem gen_inv_step (op : Gen.NodeHeaders.Op) (pess : Bool) (lvl : Int) (inc cc : Nat) (ev : List Event) (p : Int)
    (hp : 1 ≤ p) (hc : InContract op lvl inc cc) (hI : GInv pess lvl inc cc)
    {lvl' : Int} {inc' cc' : Nat} {new : List Event}
    (hs : Gen.NodeHeaders.step (hdr pess lvl inc cc ev) p op = .ok (hdr pess lvl' inc' cc' (ev ++ new))) :
    GInv pess lvl' inc' cc' := by
  by_cases hl : lvl ≠ 0
  · obtain ⟨a, _, c⟩ := gen_deleted_iff op pess lvl inc cc ev p hp hl hc hI hs
    refine ⟨fun h => fun d => h (a.mpr d), fun h => (a.mp h).1⟩
  · have hl0 : lvl = 0 := by simpa using hl
    subst hl0
    have hi0 := hI.2 rfl
    subst hi0
    cases op with
    | link => exact absurd rfl hc.1
    | cache => exact absurd rfl hc.1
    | unlink => exact absurd rfl hc.1
    | uncache =>
      simp only [InContract] at hc
      simp only [Gen.NodeHeaders.step, uncacheNode_hdr pess 0 0 cc ev p hp hc, Except.ok.injEq] at hs
      by_cases h2 : 0 < cc - 1
      · simp only [h2, if_true] at hs
        obtain ⟨_, rfl, rfl, rfl, _⟩ := hdr_inj hs
        exact ⟨fun h => absurd rfl h, fun _ => rfl⟩
      · simp only [h2, if_false, if_true] at hs
        obtain ⟨_, rfl, rfl, rfl, _⟩ := hdr_inj hs
        exact ⟨fun h => absurd rfl h, fun _ => rfl⟩

/-- `gen_revive_iff`: `linkNode` reports a revival (`reviveNode(p)`) exactly for a node that had no incoming edge. -/
theorem gen_revive_iff (pess : Bool) (lvl : Int) (inc cc : Nat) (ev : List Event) (p : Int) (hp : 1 ≤ p)
    (hf : inc + 1 < 4294967296) {g : State} {r : Int} (hs : linkNode (hdr pess lvl inc cc ev) p = .ok (g, r)) :
    r = p ∧ (g.events = ev ++ [Event.reviveNode p] ↔ inc = 0) ∧ (inc ≠ 0 → g.events = ev) := by
  rw [linkNode_hdr pess lvl inc cc ev p hp hf] at hs
  simp only [Except.ok.injEq, Prod.mk.injEq] at hs
  obtain ⟨rfl, rfl⟩ := hs
  by_cases h0 : inc = 0 <;> simp [hdr, h0]

/-- the NodeLife image of a header satisfies the header invariant whenever NodeLife's invariant `unreach` holds for it -/
theorem ginv_toGen (pol : Policy) {e : HState} (wf : WFh e)
    (hu : isActive e = true → incOf e = 0 → 0 < ccOf e ∧ pol = .optimistic) :
    GInv (pessOf pol) (((lvlOf e : Nat) : Int)) (incOf e) (ccOf e) := by
  cases e with
  | free => exact ⟨fun h => absurd rfl h, fun _ => rfl⟩
  | deleted c => exact ⟨fun h => absurd rfl h, fun _ => rfl⟩
  | active lvl inc cc kids =>
    simp only [WFh] at wf
    refine ⟨fun _ => ?_, fun h => ?_⟩
    · intro ⟨a, b⟩
      obtain ⟨c, d⟩ := hu rfl a
      subst d
      rcases b with b | b
      · simp [pessOf] at b
      · simp only [ccOf] at c b; omega
    · simp [lvlOf] at h; exact absurd h wf

/-! ### 4. NodeLife's machine with every per-handle transition computed by the generated code -/

/-- read a header back as a NodeLife handle state; level and children of a live node are kept from `old`
    (the generated functions never change the level entry of a node that stays alive: `gen_deleted_iff`) -/
def ofGen (g : State) (old : HState) : HState :=
  if g.levels.getD 0 ≠ 0 then .active (lvlOf old) (g.incoming_counts.getD 0) (g.cache_counts.getD 0) (kidsOf old)
  else if g.cache_counts.getD 0 ≠ 0 then .deleted (g.cache_counts.getD 0)
  else .free

theorem ofGen_toGen (pol : Policy) {e : HState} (wf : WFh e) (ev : List Event) (old : HState)
    (hk : isActive e = true → lvlOf old = lvlOf e ∧ kidsOf old = kidsOf e) : ofGen (toGen pol e ev) old = e := by
  cases e with
  | free => simp [ofGen, toGen, hdr, lvlOf, ccOf]
  | deleted c =>
    simp only [WFh] at wf
    have : c ≠ 0 := by omega
    simp [ofGen, toGen, hdr, lvlOf, ccOf, this]
  | active lvl inc cc kids =>
    simp only [WFh] at wf
    obtain ⟨hl, hk⟩ := hk rfl
    have h1 : lvlOf old = lvl := hl
    have h2 : kidsOf old = kids := hk
    show ofGen (hdr (pessOf pol) ((lvl : Nat) : Int) inc cc ev) old = _
    simp [ofGen, hdr, h1, h2, wf]

/-- one generated call on handle `h` of a NodeLife state: the new table entry read back from the resulting header, and the
    children to unlink next = the node's children iff the call issued `parent.deleteNode(h)` -/
def callG (op : Gen.NodeHeaders.Op) (s : St) (h : Nat) : Option (St × List Nat) :=
  match Gen.NodeHeaders.step (toGen s.pol (s.get h) []) h op with
  | .ok g => some (s.set h (ofGen g (s.get h)),
      if Event.deleteNode (h : Int) ∈ g.events then kidsOf (s.get h) else [])
  | .error _ => none

/-- the deletion cascade driven by the generated `unlinkNode` and its `deleteNode` events -/
def drainG : Nat → St → List Nat → Option St
  | _, s, [] => some s
  | 0, _, _ :: _ => none
  | f+1, s, h :: wl =>
    if h = 0 then drainG f s wl
    else
      match callG .unlink s h with
      | some (s1, ks) => drainG f s1 (ks ++ wl)
      | none => none

/-- NodeLife's `step`, with every `linkNode` / `unlinkNode` / `cacheNode` / `uncacheNode` executed by the GENERATED code and
    the deletion cascade driven by its `deleteNode` events.  The legality checks of the API contract (`Paired`) are
    NodeLife's; `alloc` is NodeLife's (`getFreeNodeHandle` / `createReducedNode` are not translated). -/
def stepG (s : St) : Op → Option St
  | .link h =>
    if h = 0 then some s
    else if isActive (s.get h) = true then
      match callG .link s h with
      | some (s1, _) => some { s1 with ext := h :: s.ext }
      | none => none
    else none
  | .unlink h =>
    if h = 0 then some s
    else if h ∈ s.ext then drainG (fuelFor s) { s with ext := s.ext.erase h } [h]
    else none
  | .cache h =>
    if h = 0 then some s
    else if isActive (s.get h) = true then (callG .cache s h).map (·.1)
    else none
  | .uncache h =>
    if h = 0 then some s
    else if 0 < ccOf (s.get h) then
      match callG .uncache s h with
      | some (s1, ks) => drainG (fuelFor s) s1 ks
      | none => none
    else none
  | .alloc h lvl kids => step s (.alloc h lvl kids)

def runG (s : St) : List Op → Option St
  | [] => some s
  | op :: ops =>
    match stepG s op with
    | none => none
    | some s' => runG s' ops

/-- every live node sits at a level ≥ 1 (`alloc` demands it, nothing changes a level) -/
def LvlPos (s : St) : Prop := ∀ p, isActive (s.get p) = true → lvlOf (s.get p) ≠ 0

/-- every count fits the 32-bit counters of the implementation with room for one more -/
def CountsFit (s : St) : Prop := ∀ p, incOf (s.get p) + 1 < 4294967296 ∧ ccOf (s.get p) + 1 < 4294967296

/-- the counts stay in range along NodeLife's run (true for every history shorter than 2^32 - 1 calls) -/
def RunFits : St → List Op → Prop
  | _, [] => True
  | s, op :: ops => CountsFit s ∧ match step s op with
    | some s' => RunFits s' ops
    | none => True

theorem wfh_of {s : St} {wl : List Nat} (hw : WInv s wl) (hl : LvlPos s) (p : Nat) : WFh (s.get p) := by
  cases hg : s.get p with
  | free => trivial
  | active lvl inc cc kids => have := hl p (by rw [hg]; rfl); rw [hg] at this; exact this
  | deleted c => exact hw.zombie p c hg

theorem lvlpos_of_shrinks {s s' : St} (h : Shrinks s s') (hl : LvlPos s) : LvlPos s' := by
  intro p hp
  obtain ⟨a, b, _⟩ := h p hp
  rw [b]; exact hl p a

theorem unlink1_set {s s1 : St} {h : Nat} {ks : List Nat} (hu : unlink1 s h = some (s1, ks)) :
    s1 = s.set h (s1.get h) := by
  have key : ∀ v, (s.set h v) = s.set h ((s.set h v).get h) := by intro v; rw [get_set]; simp
  unfold unlink1 at hu
  split at hu
  · split at hu
    · simp only [Option.some.injEq, Prod.mk.injEq] at hu; rw [← hu.1]; exact key _
    · split at hu
      · simp only [Option.some.injEq, Prod.mk.injEq] at hu; rw [← hu.1]; exact key _
      · split at hu <;> (simp only [Option.some.injEq, Prod.mk.injEq] at hu; rw [← hu.1]; exact key _)
  · cases hu

theorem uncache1_set {s s1 : St} {h : Nat} {ks : List Nat} (hu : uncache1 s h = some (s1, ks)) :
    s1 = s.set h (s1.get h) ∧ Shrinks s s1 := by
  have key : ∀ v, (s.set h v) = s.set h ((s.set h v).get h) := by intro v; rw [get_set]; simp
  unfold uncache1 at hu
  split at hu
  · rename_i lvl inc cc kids hg
    split at hu
    · simp only [Option.some.injEq, Prod.mk.injEq] at hu; rw [← hu.1]
      exact ⟨key _, shrinks_set (fun h => by simp [isActive] at h)⟩
    · simp only [Option.some.injEq, Prod.mk.injEq] at hu; rw [← hu.1]
      exact ⟨key _, shrinks_set (fun _ => by rw [hg]; exact ⟨rfl, rfl, rfl⟩)⟩
  · split at hu <;>
    · simp only [Option.some.injEq, Prod.mk.injEq] at hu; rw [← hu.1]
      exact ⟨key _, shrinks_set (fun h => by simp [isActive] at h)⟩
  · cases hu

/-- the generated `unlinkNode`, read back, is NodeLife's `unlink1` -/
theorem callG_unlink {s s1 : St} {h : Nat} {ks : List Nat} (hh : h ≠ 0) (hu : unlink1 s h = some (s1, ks))
    (wf : WFh (s.get h)) : callG .unlink s h = some (s1, ks) := by
  obtain ⟨a, b, _, _, e, _⟩ := unlink_sim hh hu wf []
  have hset := unlink1_set hu
  have hshr := unlink1_shrinks hu h
  have hback := ofGen_toGen s.pol e ([] ++ (unlinkDecision s.pol (s.get h)).events h) (s.get h)
    (fun ha => by obtain ⟨_, x, y⟩ := hshr ha; exact ⟨x.symm, y.symm⟩)
  simp only [callG, Gen.NodeHeaders.step, a, hback]
  rw [← hset]
  subst b
  simp only [toGen, hdr, List.nil_append]
  by_cases hm : Event.deleteNode (h : Int) ∈ (unlinkDecision s.pol (s.get h)).events h <;> simp [hm]

/-- the generated `uncacheNode`, read back, is NodeLife's transition for one `uncacheNode` call -/
theorem callG_uncache {s s1 : St} {h : Nat} {ks : List Nat} (hh : h ≠ 0) (hu : uncache1 s h = some (s1, ks))
    (wf : WFh (s.get h)) : callG .uncache s h = some (s1, ks) := by
  obtain ⟨a, b, _, _, e, _⟩ := uncache_sim hh hu wf []
  obtain ⟨hset, hshr⟩ := uncache1_set hu
  have hback := ofGen_toGen s.pol e ([] ++ (uncacheDecision (s.get h)).events h) (s.get h)
    (fun ha => by obtain ⟨_, x, y⟩ := hshr h ha; exact ⟨x.symm, y.symm⟩)
  simp only [callG, Gen.NodeHeaders.step, a, hback]
  rw [← hset]
  subst b
  simp only [toGen, hdr, List.nil_append]
  by_cases hm : Event.deleteNode (h : Int) ∈ (uncacheDecision (s.get h)).events h <;> simp [hm]

theorem callG_link {s : St} {h lvl inc cc : Nat} {kids : List Nat} (hh : h ≠ 0) (hg : s.get h = .active lvl inc cc kids)
    (hl : lvl ≠ 0) (hf : inc + 1 < 4294967296) :
    callG .link s h = some (s.set h (.active lvl (inc + 1) cc kids), []) := by
  have a := linkNode_hdr (pessOf s.pol) ((lvl : Nat) : Int) inc cc [] h (hpos hh) hf
  simp only [callG, Gen.NodeHeaders.step, Except.map, hg, toGen, lvlOf, incOf, ccOf, a]
  by_cases h0 : inc = 0 <;> simp [ofGen, hdr, h0, hl, kidsOf, lvlOf]

theorem callG_cache {s : St} {h lvl inc cc : Nat} {kids : List Nat} (hh : h ≠ 0) (hg : s.get h = .active lvl inc cc kids)
    (hl : lvl ≠ 0) (hf : cc + 1 < 4294967296) :
    callG .cache s h = some (s.set h (.active lvl inc (cc + 1) kids), []) := by
  have a := cacheNode_hdr (pessOf s.pol) ((lvl : Nat) : Int) inc cc [] h (hpos hh) hf
  simp only [callG, Gen.NodeHeaders.step, hg, toGen, lvlOf, incOf, ccOf, a]
  simp [ofGen, hdr, hl, kidsOf, lvlOf]

/-- the cascade driven by the generated code is NodeLife's cascade -/
theorem drainG_eq : ∀ (f : Nat) (s : St) (wl : List Nat) (s' : St),
    WInv s wl → LvlPos s → drain f s wl = some s' → drainG f s wl = some s'
  | f, s, [], s', _, _, hd => by
    cases f <;> (simp only [drain, Option.some.injEq] at hd; subst hd; simp [drainG])
  | 0, s, _ :: _, s', _, _, hd => by simp [drain] at hd
  | f+1, s, h :: wl, s', hw, hl, hd => by
    simp only [drain] at hd
    simp only [drainG]
    by_cases h0 : h = 0
    · subst h0
      simp only [if_true] at hd ⊢
      exact drainG_eq f s wl s' (winv_skip0 hw) hl hd
    · simp only [h0, if_false] at hd ⊢
      obtain ⟨s1, ks, hu, hw1, _, _, _, _⟩ := unlink1_ok hw h0
      rw [hu] at hd
      rw [callG_unlink h0 hu (wfh_of hw hl h)]
      exact drainG_eq f s1 (ks ++ wl) s' hw1 (lvlpos_of_shrinks (unlink1_shrinks hu) hl) hd

theorem lvlpos_ext {s : St} (x : List Nat) (hl : LvlPos s) : LvlPos { s with ext := x } := hl

/-- `stepG_eq`: on every legal call (NodeLife's `step` is defined) from a state satisfying NodeLife's invariant, with
    counts in the range of the counters, the machine driven by the GENERATED code makes exactly NodeLife's step. -/
theorem stepG_eq {s s' : St} {op : Op} (hw : WInv s []) (hl : LvlPos s) (hc : CountsFit s)
    (hs : step s op = some s') : stepG s op = some s' := by
  cases op with
  | link h =>
    simp only [step] at hs
    simp only [stepG]
    by_cases h0 : h = 0
    · simpa [h0] using hs
    · simp only [h0, if_false] at hs ⊢
      cases hg : s.get h with
      | free => simp [hg] at hs
      | deleted c => simp [hg] at hs
      | active lvl inc cc kids =>
        simp only [hg, Option.some.injEq] at hs
        have hlv := hl h (by rw [hg]; rfl)
        have hfit := (hc h).1
        rw [hg] at hlv hfit
        simp only [isActive, if_true, callG_link h0 hg hlv hfit]
        exact congrArg some hs
  | unlink h =>
    simp only [step] at hs
    simp only [stepG]
    by_cases h0 : h = 0
    · simpa [h0] using hs
    · simp only [h0, if_false] at hs ⊢
      by_cases hm : h ∈ s.ext
      · simp only [hm, if_true] at hs ⊢
        exact drainG_eq _ _ _ _ (winv_unlink_start hw hm) (lvlpos_ext _ hl) hs
      · simp [hm] at hs
  | cache h =>
    simp only [step] at hs
    simp only [stepG]
    by_cases h0 : h = 0
    · simpa [h0] using hs
    · simp only [h0, if_false] at hs ⊢
      cases hg : s.get h with
      | free => simp [hg] at hs
      | deleted c => simp [hg] at hs
      | active lvl inc cc kids =>
        simp only [hg, Option.some.injEq] at hs
        have hlv := hl h (by rw [hg]; rfl)
        have hfit := (hc h).2
        rw [hg] at hlv hfit
        simp only [isActive, if_true, callG_cache h0 hg hlv hfit, Option.map]
        exact congrArg some hs
  | uncache h =>
    simp only [stepG]
    by_cases h0 : h = 0
    · simp only [step, h0, if_true] at hs ⊢; exact hs
    · rw [step_uncache s h h0] at hs
      simp only [h0, if_false]
      cases hu : uncache1 s h with
      | none => simp [hu] at hs
      | some r =>
        obtain ⟨s1, ks⟩ := r
        simp only [hu] at hs
        have hpos : 0 < ccOf (s.get h) := by
          unfold uncache1 at hu
          split at hu
          · rename_i hg; rw [hg]; simp [ccOf]
          · rename_i hg; rw [hg]; simp [ccOf]
          · cases hu
        simp only [hpos, if_true, callG_uncache h0 hu (wfh_of hw hl h)]
        -- the cascade: only when the node was deleted are there children to unlink
        have hl1 : LvlPos s1 := lvlpos_of_shrinks (uncache1_set hu).2 hl
        unfold uncache1 at hu
        split at hu
        · rename_i lvl inc cc kids hg
          split at hu
          · rename_i hlast
            obtain ⟨rfl, rfl⟩ := hlast
            simp only [Option.some.injEq, Prod.mk.injEq] at hu
            obtain ⟨rfl, rfl⟩ := hu
            have hcnt := hw.counts h h0
            rw [hg] at hcnt; simp [incOf] at hcnt
            have hd := winv_delete (wl := []) (v := .free) hw h0 hg (Or.inl rfl) (by omega)
              (fun x hx _ => hw.counts x hx) (by simp)
            simp only [List.append_nil] at hd
            exact drainG_eq _ _ _ _ hd hl1 hs
          · simp only [Option.some.injEq, Prod.mk.injEq] at hu
            obtain ⟨rfl, rfl⟩ := hu
            cases hf : fuelFor s <;> (rw [hf] at hs; simp only [drain] at hs; simpa [drainG] using hs)
        · split at hu <;>
          · simp only [Option.some.injEq, Prod.mk.injEq] at hu
            obtain ⟨rfl, rfl⟩ := hu
            cases hf : fuelFor s <;> (rw [hf] at hs; simp only [drain] at hs; simpa [drainG] using hs)
        · cases hu
  | alloc h lvl kids => exact hs

theorem lvlpos_step {s s' : St} {op : Op} (hl : LvlPos s) (hs : step s op = some s') : LvlPos s' := by
  cases op with
  | link h =>
    simp only [step] at hs
    by_cases h0 : h = 0
    · simp [h0] at hs; subst hs; exact hl
    · simp only [h0, if_false] at hs
      split at hs
      · rename_i lvl inc cc kids hg
        simp only [Option.some.injEq] at hs; subst hs
        exact lvlpos_ext _ (lvlpos_of_shrinks (shrinks_set (s := s) (fun _ => by rw [hg]; exact ⟨rfl, rfl, rfl⟩)) hl)
      · cases hs
  | unlink h =>
    simp only [step] at hs
    by_cases h0 : h = 0
    · simp [h0] at hs; subst hs; exact hl
    · simp only [h0, if_false] at hs
      split at hs
      · exact lvlpos_of_shrinks (drain_shrinks _ _ _ _ hs) (lvlpos_ext _ hl)
      · cases hs
  | cache h =>
    simp only [step] at hs
    by_cases h0 : h = 0
    · simp [h0] at hs; subst hs; exact hl
    · simp only [h0, if_false] at hs
      split at hs
      · rename_i lvl inc cc kids hg
        simp only [Option.some.injEq] at hs; subst hs
        exact lvlpos_of_shrinks (shrinks_set (s := s) (fun _ => by rw [hg]; exact ⟨rfl, rfl, rfl⟩)) hl
      · cases hs
  | uncache h =>
    by_cases h0 : h = 0
    · simp [step, h0] at hs; subst hs; exact hl
    · rw [step_uncache s h h0] at hs
      cases hu : uncache1 s h with
      | none => simp [hu] at hs
      | some r =>
        obtain ⟨s1, ks⟩ := r
        simp only [hu] at hs
        exact lvlpos_of_shrinks (drain_shrinks _ _ _ _ hs) (lvlpos_of_shrinks (uncache1_set hu).2 hl)
  | alloc h lvl kids =>
    simp only [step] at hs
    by_cases h0 : h = 0
    · simp [h0] at hs
    · simp only [h0, if_false] at hs
      split at hs
      · split at hs
        · rename_i hc
          split at hs
          · simp only [Option.some.injEq] at hs; subst hs
            intro p hp
            have e : ∀ x, ({ (s.set h (.active lvl 1 0 kids)) with ext := x } : St).get p =
                if p = h then .active lvl 1 0 kids else s.get p := fun x => get_set s h p _
            rw [e] at hp ⊢
            by_cases ep : p = h
            · simp only [ep, if_true, lvlOf]; omega
            · simp only [ep, if_false] at hp ⊢; exact hl p hp
          · cases hs
        · cases hs
      · cases hs

theorem lvlpos_init (pol : Policy) (K : Nat) : LvlPos (init pol K) := by
  intro p hp; simp [init, St.get, tget, isActive] at hp

/-- `runG_eq`: on every legal history (`Paired`: NodeLife's run is defined) whose counts stay in the range of the
    counters, the machine driven by the GENERATED code reaches exactly NodeLife's state. -/
theorem runG_eq : ∀ (ops : List Op) (s s' : St), WInv s [] → LvlPos s → RunFits s ops → run s ops = some s' →
    runG s ops = some s'
  | [], s, s', _, _, _, hr => by simpa [run, runG] using hr
  | op :: ops, s, s', hw, hl, hf, hr => by
    simp only [run] at hr
    simp only [runG]
    cases h1 : step s op with
    | none => simp [h1] at hr
    | some s1 =>
      simp only [h1] at hr
      obtain ⟨hc, hrest⟩ := hf
      simp only [h1] at hrest
      rw [stepG_eq hw hl hc h1]
      exact runG_eq ops s1 s' (step_inv hw h1).1 (lvlpos_step hl h1) hrest hr

/-- `gen_machine`: the C06 theorems for the machine driven by the GENERATED link / unlink / cache / uncache: on every
    legal history from the empty forest (counts within the counters' range) it reaches a state `s` in which
    (`counts_exact`) every recorded incoming count is the number of references that exist, (`no_dangling`) live nodes
    point to live nodes at lower levels, (`all_reclaimed`) with no outside reference and no cache entry left every handle
    is free, (`all_reclaimed_pessimistic`) under the pessimistic policy no node outlives the last outside reference,
    (`reuse_only_free`) and a handle can be handed out again only when it is free and referenced by nobody. -/
theorem gen_machine (pol : Policy) (K : Nat) (ops : List Op) (s : St)
    (hr : run (init pol K) ops = some s) (hf : RunFits (init pol K) ops) :
    runG (init pol K) ops = some s ∧
    (∀ h, h ≠ 0 → incOf (s.get h) = s.ext.count h + prefs s.tab h) ∧
    (∀ p k, isActive (s.get p) = true → k ∈ kidsOf (s.get p) → k ≠ 0 →
      isActive (s.get k) = true ∧ lvlOf (s.get k) < lvlOf (s.get p)) ∧
    (s.ext = [] → (∀ h, ccOf (s.get h) = 0) → ∀ h, s.get h = .free) ∧
    (pol = .pessimistic → s.ext = [] → ∀ h, isActive (s.get h) = false) ∧
    (∀ h lvl kids s', stepG s (.alloc h lvl kids) = some s' →
      s.get h = .free ∧ s.ext.count h = 0 ∧ prefs s.tab h = 0) := by
  refine ⟨runG_eq ops _ _ (winv_init pol K) (lvlpos_init pol K) hf hr, counts_exact pol K ops s hr,
    no_dangling pol K ops s hr, all_reclaimed pol K ops s hr, ?_, ?_⟩
  · intro hp; subst hp; exact all_reclaimed_pessimistic K ops s hr
  · intro h lvl kids s' ha
    obtain ⟨a, _, _, d, e⟩ := reuse_only_free pol K ops s s' hr h lvl kids ha
    exact ⟨a, d, e⟩

/-- a state whose table entries are all in range is in range (handles beyond the table are free) -/
theorem countsFit_of_table {s : St}
    (h : ∀ e ∈ s.tab, incOf e + 1 < 4294967296 ∧ ccOf e + 1 < 4294967296) : CountsFit s := by
  intro p
  by_cases hp : p < s.tab.length
  · have : s.get p = s.tab[p] := by simp [St.get, tget, hp]
    rw [this]; exact h _ (List.getElem_mem hp)
  · have : s.get p = .free := by
      simp [St.get, tget, List.getD_eq_getElem?_getD, List.getElem?_eq_none (by omega : s.tab.length ≤ p)]
    rw [this]; simp [incOf, ccOf]

/-- the example histories of State/NodeLife.lean, executed by the machine driven by the generated code -/
example :
    let ops := [Op.alloc 1 1 [0, 0], .alloc 2 1 [0, 0], .link 1, .link 2, .alloc 3 2 [1, 2], .link 1,
                .cache 3, .unlink 3]
    runG (init .pessimistic 3) ops =
      some ⟨.pessimistic, 3, [.free, .active 1 2 0 [0, 0], .active 1 1 0 [0, 0], .deleted 1], [1, 2, 1]⟩ := by
  decide

example :
    let ops := [Op.alloc 1 1 [0, 0], .alloc 2 1 [0, 0], .link 1, .alloc 3 2 [1, 2], .cache 3, .cache 1,
                .unlink 3, .uncache 1, .unlink 1, .uncache 3]
    (runG (init .optimistic 3) ops).map (fun s => (s.ext, s.tab)) = some ([], [.free, .free, .free, .free]) := by
  decide

example :
    let ops := [Op.alloc 1 1 [0, 0], .alloc 2 1 [0, 0], .link 1, .alloc 3 2 [1, 2], .cache 3, .cache 1,
                .unlink 3, .unlink 1]
    (runG (init .pessimistic 3) ops).map (fun s => (s.ext, s.tab)) =
      some ([], [.free, .deleted 1, .free, .deleted 1]) := by
  decide

/-- the decisions of the generated code on single headers: optimistic keeps an unreachable cached node and revives it;
    pessimistic deletes it at once and recycles the handle with the last cache entry -/
example : (unlinkNode (hdr false 2 1 1 []) 7).toOption.map (fun g => (g.levels, g.incoming_counts, g.events)) =
    some (some 2, some 0, []) := by decide
example : (linkNode (hdr false 2 0 1 []) 7).toOption.map (fun r => (r.1.incoming_counts, r.1.events, r.2)) =
    some (some 1, [Event.reviveNode 7], 7) := by decide
example : (unlinkNode (hdr true 2 1 1 []) 7).toOption.map (fun g => (g.levels, g.incoming_counts, g.events)) =
    some (some 0, some 0, [Event.deleteNode 7]) := by decide
example : (uncacheNode (hdr true 0 0 1 [Event.deleteNode 7]) 7).toOption.map (fun g => (g.levels, g.cache_counts, g.events)) =
    some (some 0, some 0, [Event.deleteNode 7, Event.recycleNodeHandle 7]) := by decide
example : (uncacheNode (hdr false 2 0 1 []) 7).toOption.map (fun g => (g.levels, g.cache_counts, g.events)) =
    some (some 0, some 0, [Event.deleteNode 7, Event.recycleNodeHandle 7]) := by decide

end Meddly.NodeHeadersGen

namespace Meddly.NodeHeadersCounter
open Meddly.CounterArray Meddly.CounterArrayGen

/-! ### 5. the specification `Counter.*` is what the generated counter_array does to one entry -/

/-- every in-contract call of one of the four counter_array members used by node_headers, executed by the counter_array
    GENERATED from arrays.h / arrays.cc on the image of a model array `c`: it succeeds, the entry `i` and the returned
    bool are exactly what `Gen.NodeHeaders.Counter.*` says, every other entry and the size are unchanged, and the
    result is again the image of a model array satisfying the invariant. -/
theorem counter_spec (junk : Junk) {c : CA} (h : Inv c) (hf : Fit c) {i : Nat} (hi : i < c.data.length) :
    let v := c.data.getD i 0
    (v + 1 < 4294967296 →
      (∃ c', Gen.CounterArray.step junk (toGen c) (.increment i) = .ok (toGen c', 0) ∧ Inv c' ∧
        Gen.NodeHeaders.Counter.increment v = .ok (c'.data.getD i 0) ∧
        c'.data.length = c.data.length ∧ ∀ j, j ≠ i → c'.data.getD j 0 = c.data.getD j 0) ∧
      (∃ c' r, Gen.CounterArray.step junk (toGen c) (.isZeroBeforeIncrement i) = .ok (toGen c', r) ∧ Inv c' ∧
        Gen.NodeHeaders.Counter.isZeroBeforeIncrement v = .ok (c'.data.getD i 0, decide (r = 1)) ∧
        c'.data.length = c.data.length ∧ ∀ j, j ≠ i → c'.data.getD j 0 = c.data.getD j 0)) ∧
    (0 < v →
      (∃ c', Gen.CounterArray.step junk (toGen c) (.decrement i) = .ok (toGen c', 0) ∧ Inv c' ∧
        Gen.NodeHeaders.Counter.decrement v = .ok (c'.data.getD i 0) ∧
        c'.data.length = c.data.length ∧ ∀ j, j ≠ i → c'.data.getD j 0 = c.data.getD j 0) ∧
      (∃ c' r, Gen.CounterArray.step junk (toGen c) (.isPositiveAfterDecrement i) = .ok (toGen c', r) ∧ Inv c' ∧
        Gen.NodeHeaders.Counter.isPositiveAfterDecrement v = .ok (c'.data.getD i 0, decide (r = 1)) ∧
        c'.data.length = c.data.length ∧ ∀ j, j ≠ i → c'.data.getD j 0 = c.data.getD j 0)) ∧
    Gen.CounterArray.step junk (toGen c) (.get i) = .ok (toGen c, v) := by
  intro v
  have hvd : c.data.getD i 0 = v := rfl
  clear_value v
  have getset : ∀ (x j : Nat), j ≠ i → (c.data.set i x).getD j 0 = c.data.getD j 0 := by
    intro x j hj
    simp [List.getD_eq_getElem?_getD, Ne.symm hj]
  have getself : ∀ (x : Nat), (c.data.set i x).getD i 0 = x := by
    intro x; simp [List.getD_eq_getElem?_getD, hi]
  refine ⟨fun hv => ⟨?_, ?_⟩, fun hv => ⟨?_, ?_⟩, ?_⟩
  · have hs : specStep c.data (.increment i) = some (c.data.set i (v + 1), 0) := by simp only [specStep, hvd]; simp [hi, hv]
    obtain ⟨c', hc, hd, hI, _⟩ := step_sim h hs
    refine ⟨c', gen_step junk h hf (op := .increment i) trivial hs hc, hI, ?_, by simp [hd], fun j hj => by rw [hd]; exact getset _ j hj⟩
    rw [hd, getself]; simp [Gen.NodeHeaders.Counter.increment, hv]
  · have hs : specStep c.data (.isZeroBeforeIncrement i) = some (c.data.set i (v + 1), if v = 0 then 1 else 0) := by
      simp only [specStep, hvd]; simp [hi, hv]
    obtain ⟨c', hc, hd, hI, _⟩ := step_sim h hs
    refine ⟨c', _, gen_step junk h hf (op := .isZeroBeforeIncrement i) trivial hs hc, hI, ?_, by simp [hd], fun j hj => by rw [hd]; exact getset _ j hj⟩
    rw [hd, getself]
    by_cases h0 : v = 0 <;> simp [Gen.NodeHeaders.Counter.isZeroBeforeIncrement, hv, h0]
  · have hs : specStep c.data (.decrement i) = some (c.data.set i (v - 1), 0) := by simp only [specStep, hvd]; simp [hi, hv]
    obtain ⟨c', hc, hd, hI, _⟩ := step_sim h hs
    refine ⟨c', gen_step junk h hf (op := .decrement i) trivial hs hc, hI, ?_, by simp [hd], fun j hj => by rw [hd]; exact getset _ j hj⟩
    rw [hd, getself]; simp [Gen.NodeHeaders.Counter.decrement, hv]
  · have hs : specStep c.data (.isPositiveAfterDecrement i) = some (c.data.set i (v - 1), if 0 < v - 1 then 1 else 0) := by
      simp only [specStep, hvd]; simp [hi, hv]
    obtain ⟨c', hc, hd, hI, _⟩ := step_sim h hs
    refine ⟨c', _, gen_step junk h hf (op := .isPositiveAfterDecrement i) trivial hs hc, hI, ?_, by simp [hd], fun j hj => by rw [hd]; exact getset _ j hj⟩
    rw [hd, getself]
    by_cases h0 : 0 < v - 1 <;> simp [Gen.NodeHeaders.Counter.isPositiveAfterDecrement, hv, h0]
  · have hs : specStep c.data (.get i) = some (c.data, v) := by simp only [specStep, hvd]; simp [hi]
    obtain ⟨c', hc, hd, hI, _⟩ := step_sim h hs
    have := gen_step junk h hf (op := .get i) trivial hs hc
    have hcc : c' = c := by
      simp only [Meddly.CounterArray.step] at hc
      simp [hi] at hc
      exact hc.1.symm
    rw [hcc] at this; exact this
end Meddly.NodeHeadersCounter

/-
`#print axioms` (Lean 4.33.0):
  propext only:                  terminal_noop
  propext, Quot.sound:           isDeleted_hdr isActive_hdr deactivate_hdr counts_hdr linkNode_hdr cacheNode_hdr unlinkNode_hdr
                                 uncacheNode_hdr link_sim cache_sim step_uncache gen_step_total gen_deleted_iff
                                 gen_never_recycled_while_cached gen_inv_step gen_revive_iff lvlpos_step countsFit_of_table
  propext, Classical.choice, Quot.sound:
                                 cls_toGen unlink_sim uncache_sim gen_recycled_iff ginv_toGen ofGen_toGen callG_unlink callG_uncache
                                 callG_link callG_cache drainG_eq stepG_eq runG_eq gen_machine NodeHeadersCounter.counter_spec
-/
