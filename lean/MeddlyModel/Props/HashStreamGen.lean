/-
  The hand-written model of `MEDDLY::hash_stream` (Core/HashStream.lean) IS what src/hash_stream.h says now.

  `Gen.HashStream.{rot, mix, final_mix, start, start0, push, push2, push3, finish}` are GENERATED from
  /repo/src/hash_stream.h by translate/hashstream_to_lean.py (clang's typed AST -> Lean; `unsigned` = `UInt32`,
  `int slot` = `Int` with explicit undefined-behaviour / throw outcomes).  This file proves that every
  generated function coincides with the corresponding hand-written definition of Core/HashStream.lean on the
  states the hand-written model has (`slot ∈ {0,1,2,3}`, embedded by `toGen`):

      Gen.push  (toGen s) v       = .ok (toGen (push  s v))          (`push_gen`)
      Gen.push2 (toGen s) a b     = .ok (toGen (push2 s a b))        (`push2_gen`)
      Gen.push3 (toGen s) a b c   = .ok (toGen (push3 s a b c))      (`push3_gen`)
      Gen.start i = toGen (start i),  Gen.finish (toGen s) = finish s,  Gen.mix = mix3,  Gen.final_mix = finalMix3

  so that `push2_eq`, `hash_of_sequence` and `hash_agree` of Core/HashStream.lean -- on which the unique-table
  model (C01) and the codec model (C02) rest -- are statements about the header's CURRENT text: they are
  restated below for the generated functions (`gen_push2_eq`, `gen_hash_of_sequence`, `gen_hash_agree`).
  A change of hash_stream.h that changes any of these functions changes the generated file and breaks these
  proofs (the differential family `gen` then tells whether the translation is still faithful).

  Trusted base: the translation conventions in the header of Gen/HashStream.lean (validated on every run by the
  differential family `gen`: the real class on random word sequences with random groupings), and the
  hand-written description of WHICH calls `unpacked_node::computeHash` / `simple_separated::hashNode` issue
  (`uFullCalls`, `pFullCalls`, `sparseCalls` below mirror the loops of Core/HashStream.lean call by call).
  All proofs are kernel-only (`rfl`, `simp`, `decide`, case analysis on the slot).
-/
import MeddlyModel.Gen.HashStream
import MeddlyModel.Core.HashStream

namespace Meddly.HashStreamGen
open Meddly.HashStream

/-! ## Embedding of the hand-written state space -/

/-- the `int` held by `slot` -/
def slotVal : Slot → Int
  | .s0 => 0 | .s1 => 1 | .s2 => 2 | .s3 => 3

/-- hand-written state ↦ generated state -/
def toGen (s : State) : Gen.HashStream.State :=
  { z0 := s.z0, z1 := s.z1, z2 := s.z2, slot := slotVal s.slot }

/-- generated state ↦ hand-written state (slots outside 0..3 have no counterpart; mapped to slot 0) -/
def ofGen (g : Gen.HashStream.State) : State :=
  { z0 := g.z0, z1 := g.z1, z2 := g.z2,
    slot := if g.slot = 1 then .s1 else if g.slot = 2 then .s2 else if g.slot = 3 then .s3 else .s0 }

/-- the result of a generated step, read back (failures have no counterpart; mapped to the default state) -/
def ofGenR : Except Gen.HashStream.Err Gen.HashStream.State → State
  | .ok g => ofGen g
  | .error _ => default

theorem ofGen_toGen (s : State) : ofGen (toGen s) = s := by
  cases s with
  | mk z0 z1 z2 slot => cases slot <;> rfl

theorem toGen_inj (s t : State) (h : toGen s = toGen t) : s = t := by
  rw [← ofGen_toGen s, ← ofGen_toGen t, h]

/-- every generated state whose slot is one of 0, 1, 2, 3 is the image of a hand-written state -/
theorem toGen_surj (g : Gen.HashStream.State) (h : g.slot = 0 ∨ g.slot = 1 ∨ g.slot = 2 ∨ g.slot = 3) :
    toGen (ofGen g) = g := by
  cases g with
  | mk z0 z1 z2 slot =>
    simp only at h
    rcases h with h | h | h | h <;> subst h <;> rfl

/-! ## The helpers -/

/-- `rot`: the generated function (k an `int`) against the hand-written one (k a `UInt32`), for every
    rotation amount the header may legally use -/
theorem rot_gen (x : UInt32) (k : Nat) (hk : k ≤ 32) :
    Gen.HashStream.rot x (k : Int) = rot x (UInt32.ofNat k) := by
  have h1 : Int.toNat (k : Int) = k := by omega
  have h2 : Int.toNat (32 - (k : Int)) = 32 - k := by omega
  unfold Gen.HashStream.rot rot
  rw [h1, h2]
  have h3 : UInt32.ofNat (32 - k) = 32 - UInt32.ofNat k := by
    apply UInt32.toNat_inj.mp
    rw [UInt32.toNat_sub_of_le]
    · simp [UInt32.toNat_ofNat']; omega
    · rw [UInt32.le_iff_toNat_le]; simp [UInt32.toNat_ofNat']; omega
  rw [h3]

/-- in the generated file `rot` is only called with amounts for which its side condition holds -/
theorem rot_defined_iff (x : UInt32) (k : Int) : Gen.HashStream.rot_defined x k ↔ 0 < k ∧ k < 32 := by
  unfold Gen.HashStream.rot_defined Gen.HashStream.InInt32; omega

/-- (by unfolding: `Gen.HashStream.rot c 4` and `rot c 4` reduce to the same shifts) -/
theorem mix_gen (a b c : UInt32) : Gen.HashStream.mix a b c = mix3 a b c := rfl

theorem final_mix_gen (a b c : UInt32) : Gen.HashStream.final_mix a b c = finalMix3 a b c := rfl

/-! ## The member functions -/

theorem start_gen (init : UInt32) : Gen.HashStream.start init = toGen (start init) := rfl

theorem start0_gen : Gen.HashStream.start0 = toGen start0 := rfl

theorem finish_gen (s : State) : Gen.HashStream.finish (toGen s) = finish s := by
  unfold Gen.HashStream.finish finish State.finalMix
  simp only [toGen, final_mix_gen]

theorem push_gen (s : State) (v : UInt32) :
    Gen.HashStream.push (toGen s) v = .ok (toGen (push s v)) := by
  cases s with
  | mk z0 z1 z2 slot =>
    cases slot <;>
      simp [Gen.HashStream.push, Gen.HashStream.InInt32, toGen, slotVal, push, State.mix, mix_gen]

theorem push2_gen (s : State) (v1 v2 : UInt32) :
    Gen.HashStream.push2 (toGen s) v1 v2 = .ok (toGen (push2 s v1 v2)) := by
  cases s with
  | mk z0 z1 z2 slot =>
    cases slot <;> simp [Gen.HashStream.push2, toGen, slotVal, push2, State.mix, mix_gen]

theorem push3_gen (s : State) (v1 v2 v3 : UInt32) :
    Gen.HashStream.push3 (toGen s) v1 v2 v3 = .ok (toGen (push3 s v1 v2 v3)) := by
  cases s with
  | mk z0 z1 z2 slot =>
    cases slot <;> simp [Gen.HashStream.push3, toGen, slotVal, push3, State.mix, mix_gen]

/-! ## Call sequences executed with the generated functions -/

/-- one call of the stream interface, executed with the GENERATED member functions;
    `push(const void*, 4n)` = one `push(unsigned)` per word (that loop is not translated, see Gen/HashStream.lean) -/
def genCall (g : Gen.HashStream.State) : Call → Except Gen.HashStream.Err Gen.HashStream.State
  | .p1 a => Gen.HashStream.push g a
  | .p2 a b => Gen.HashStream.push2 g a b
  | .p3 a b c => Gen.HashStream.push3 g a b c
  | .pw ws => ws.foldlM Gen.HashStream.push g

def genRun (g : Gen.HashStream.State) (cs : List Call) : Except Gen.HashStream.Err Gen.HashStream.State :=
  cs.foldlM genCall g

/-- `start(init)`, the calls, `finish()` with the generated functions -/
def genHash (init : UInt32) (cs : List Call) : Except Gen.HashStream.Err UInt32 :=
  (genRun (Gen.HashStream.start init) cs).map Gen.HashStream.finish

theorem genWords_sim (ws : List UInt32) : ∀ s : State,
    ws.foldlM Gen.HashStream.push (toGen s) = .ok (toGen (pushWords s ws)) := by
  induction ws with
  | nil => intro s; rfl
  | cons w ws ih =>
    intro s
    rw [List.foldlM_cons, push_gen]
    exact ih (push s w)

theorem genCall_sim (s : State) (c : Call) : genCall (toGen s) c = .ok (toGen (c.run s)) := by
  cases c with
  | p1 a => exact push_gen s a
  | p2 a b => exact push2_gen s a b
  | p3 a b c => exact push3_gen s a b c
  | pw ws => exact genWords_sim ws s

/-- **Simulation.**  Any sequence of interface calls executed with the generated functions never fails
    (no throw, no undefined behaviour) and ends in the state the hand-written model computes. -/
theorem genRun_sim (cs : List Call) : ∀ s : State, genRun (toGen s) cs = .ok (toGen (runCalls s cs)) := by
  induction cs with
  | nil => intro s; rfl
  | cons c cs ih =>
    intro s
    unfold genRun
    rw [List.foldlM_cons, genCall_sim]
    exact ih (c.run s)

theorem genHash_sim (init : UInt32) (cs : List Call) :
    genHash init cs = .ok (finish (runCalls (start init) cs)) := by
  unfold genHash
  rw [start_gen, genRun_sim]
  show Except.ok (Gen.HashStream.finish (toGen _)) = _
  rw [finish_gen]

/-! ## The call sequences of the node hashing code (mirror of the loops in Core/HashStream.lean) -/

/-- `s.push(i, down); [s.push(&ev, bytes)]` -/
def entryCalls (P : Params) (i d : UInt32) (ev : List UInt32) : List Call :=
  .p2 i d :: (if P.hashEV then [.pw ev] else [])

/-- the calls of `unpacked_node::computeHash`, full node -/
def uFullCalls (P : Params) : Nat → List Edge → List Call
  | _, [] => []
  | n, e :: es =>
    (if P.skipU e then [] else entryCalls P (UInt32.ofNat n) e.down e.ev) ++ uFullCalls P (n+1) es

/-- the calls of `simple_separated::hashNode`, node stored full -/
def pFullCalls (P : Params) : Nat → List Edge → List Call
  | _, [] => []
  | n, e :: es =>
    (if P.skipP e then [] else entryCalls P (UInt32.ofNat n) e.down e.ev) ++ pFullCalls P (n+1) es

/-- the calls of both sparse loops -/
def sparseCalls (P : Params) (es : List Entry) : List Call :=
  es.flatMap (fun e => entryCalls P e.idx e.down e.ev)

theorem runCalls_append (s : State) (a b : List Call) :
    runCalls s (a ++ b) = runCalls (runCalls s a) b := by
  simp [runCalls, List.foldl_append]

theorem runCalls_entry (P : Params) (s : State) (i d : UInt32) (ev : List UInt32) :
    runCalls s (entryCalls P i d ev) = pushEntry P s i d ev := by
  unfold entryCalls pushEntry
  cases P.hashEV <;> rfl

theorem uFullLoop_calls (P : Params) (ch : List Edge) : ∀ (n : Nat) (s : State),
    uFullLoop P n ch s = runCalls s (uFullCalls P n ch) := by
  induction ch with
  | nil => intro n s; rfl
  | cons e es ih =>
    intro n s
    unfold uFullLoop uFullCalls
    rw [runCalls_append, ih]
    cases P.skipU e
    · simp only [Bool.false_eq_true, ↓reduceIte, runCalls_entry]
    · rfl

theorem pFullLoop_calls (P : Params) (ch : List Edge) : ∀ (n : Nat) (s : State),
    pFullLoop P n ch s = runCalls s (pFullCalls P n ch) := by
  induction ch with
  | nil => intro n s; rfl
  | cons e es ih =>
    intro n s
    unfold pFullLoop pFullCalls
    rw [runCalls_append, ih]
    cases P.skipP e
    · simp only [Bool.false_eq_true, ↓reduceIte, runCalls_entry]
    · rfl

theorem sparseLoop_calls (P : Params) (es : List Entry) : ∀ s : State,
    sparseLoop P es s = runCalls s (sparseCalls P es) := by
  induction es with
  | nil => intro s; rfl
  | cons e es ih =>
    intro s
    show sparseLoop P es (pushEntry P s e.idx e.down e.ev) = _
    unfold sparseCalls
    rw [List.flatMap_cons, runCalls_append, runCalls_entry]
    exact ih _

theorem computeHashFull_calls (P : Params) (hdr : List UInt32) (ch : List Edge) :
    computeHashFull P hdr ch = finish (runCalls (start 0) (.pw hdr :: uFullCalls P 0 ch)) := by
  unfold computeHashFull; rw [uFullLoop_calls]; rfl

theorem hashNodeFull_calls (P : Params) (hdr : List UInt32) (ch : List Edge) :
    hashNodeFull P hdr ch = finish (runCalls (start 0) (.pw hdr :: pFullCalls P 0 ch)) := by
  unfold hashNodeFull; rw [pFullLoop_calls]; rfl

theorem computeHashSparse_calls (P : Params) (hdr : List UInt32) (es : List Entry) :
    computeHashSparse P hdr es = finish (runCalls (start 0) (.pw hdr :: sparseCalls P es)) := by
  unfold computeHashSparse; rw [sparseLoop_calls]; rfl

/-! ## Non-vacuity: the generated functions on concrete inputs (values of the real class, see
    Core/HashStream.lean `Examples` and the differential family `gen`) -/

section Examples

/-- value of a generated computation, 0 if it failed -/
def val (r : Except Gen.HashStream.Err UInt32) : UInt32 :=
  match r with
  | .ok h => h
  | .error _ => 0

-- real C++: start(0); push(0,5); push(2,7); finish() = 2777887130
example : val (genHash 0 [.p2 0 5, .p2 2 7]) = 2777887130 := by decide
example : val (genHash 0 [.p1 0, .p1 5, .p1 2, .p1 7]) = 2777887130 := by decide
-- real C++: start(0); push(0,5,3); push(2,7,9); finish() = 456344633
example : val (genHash 0 [.p3 0 5 3, .p3 2 7 9]) = 456344633 := by decide
example : val (genHash 0 [.p2 0 5, .p1 3, .p2 2 7, .p1 9]) = 456344633 := by decide
-- more than one mix: start(7); push(i*i+1) for i<10; finish() = 2627151752
set_option maxRecDepth 8192 in
example : val (genHash 7 [.pw [1, 2, 5, 10, 17, 26, 37, 50, 65, 82]]) = 2627151752 := by decide
/-- the outcomes that the hand-written model does not have: a slot outside 0..3 makes the two- and the
    three-argument push throw, and the one-argument push index `z[3]` (undefined behaviour) -/
example : Gen.HashStream.push2 { z0 := 0, z1 := 0, z2 := 0, slot := 4 } 1 2 = .error .thrown
    ∧ Gen.HashStream.push3 { z0 := 0, z1 := 0, z2 := 0, slot := -1 } 1 2 3 = .error .thrown
    ∧ Gen.HashStream.push { z0 := 0, z1 := 0, z2 := 0, slot := 4 } 1 = .error .ub
    ∧ Gen.HashStream.push { z0 := 0, z1 := 0, z2 := 0, slot := -2147483648 } 1 = .error .ub := by
  exact ⟨rfl, rfl, rfl, rfl⟩
/-- the slot-3 defect of `push(a,b,c)` (Core/HashStream.lean `push3_slot3_defect`) is in the header's text:
    real C++ gives 999880263 -/
example : val ((Gen.HashStream.push3 Gen.HashStream.start0 1 2 3 >>= fun g => Gen.HashStream.push g 4).map
    Gen.HashStream.finish) = 999880263 := by decide

end Examples

/-! ## Property theorems -/

/-- **The hand-written primitives are the generated ones.**  Each primitive of Core/HashStream.lean equals
    the generated function read back through `ofGen`; `rot` / `mix3` / `finalMix3` are the generated helpers.
    Hence every definition of Core/HashStream.lean (`pushWords`, `hashSeq`, `computeHashFull`, `hashNodeFull`,
    `nodeHash`, …), all of which are compositions of these primitives, is a function of the CURRENT text of
    hash_stream.h. -/
theorem model_is_generated (s : State) (init a b c : UInt32) :
    start init = ofGen (Gen.HashStream.start init) ∧
    start0 = ofGen Gen.HashStream.start0 ∧
    push s a = ofGenR (Gen.HashStream.push (toGen s) a) ∧
    push2 s a b = ofGenR (Gen.HashStream.push2 (toGen s) a b) ∧
    push3 s a b c = ofGenR (Gen.HashStream.push3 (toGen s) a b c) ∧
    finish s = Gen.HashStream.finish (toGen s) ∧
    mix3 a b c = Gen.HashStream.mix a b c ∧
    finalMix3 a b c = Gen.HashStream.final_mix a b c := by
  refine ⟨?_, ?_, ?_, ?_, ?_, (finish_gen s).symm, (mix_gen a b c).symm, (final_mix_gen a b c).symm⟩
  · rw [start_gen, ofGen_toGen]
  · rw [start0_gen, ofGen_toGen]
  · rw [push_gen]; exact (ofGen_toGen _).symm
  · rw [push2_gen]; exact (ofGen_toGen _).symm
  · rw [push3_gen]; exact (ofGen_toGen _).symm

/-- **The generated step functions are total on the slots 0..3 and stay there**: no `throw`, no undefined
    behaviour (`slot--` overflow, `z[slot]` out of bounds) is reachable from `start(init)` or `start()`. -/
theorem gen_total (g : Gen.HashStream.State) (h : g.slot = 0 ∨ g.slot = 1 ∨ g.slot = 2 ∨ g.slot = 3)
    (a b c : UInt32) :
    (∃ g', Gen.HashStream.push g a = .ok g' ∧ (g'.slot = 0 ∨ g'.slot = 1 ∨ g'.slot = 2)) ∧
    (∃ g', Gen.HashStream.push2 g a b = .ok g' ∧ (g'.slot = 0 ∨ g'.slot = 1 ∨ g'.slot = 2)) ∧
    (∃ g', Gen.HashStream.push3 g a b c = .ok g' ∧ g'.slot = g.slot) := by
  rw [← toGen_surj g h]
  refine ⟨⟨_, push_gen _ a, ?_⟩, ⟨_, push2_gen _ a b, ?_⟩, ⟨_, push3_gen _ a b c, ?_⟩⟩
  all_goals
    cases g with
    | mk z0 z1 z2 slot =>
      simp only at h
      rcases h with h | h | h | h <;> subst h <;> simp [ofGen, toGen, slotVal, push, push2, push3, State.mix]

/-- **push2_eq for the header's text.**  With the generated functions, the two-argument push is two
    one-argument pushes, in every slot state 0, 1, 2, 3. -/
theorem gen_push2_eq (g : Gen.HashStream.State) (h : g.slot = 0 ∨ g.slot = 1 ∨ g.slot = 2 ∨ g.slot = 3)
    (a b : UInt32) :
    Gen.HashStream.push2 g a b = (Gen.HashStream.push g a >>= fun g' => Gen.HashStream.push g' b) := by
  rw [← toGen_surj g h, push2_gen, push_gen]
  show _ = Gen.HashStream.push (toGen _) b
  rw [push_gen, push2_eq]

/-- the three-argument push is three one-argument pushes in the slot states 0, 1, 2 (every state reachable
    from `start(init)`) -/
theorem gen_push3_eq (g : Gen.HashStream.State) (h : g.slot = 0 ∨ g.slot = 1 ∨ g.slot = 2) (a b c : UInt32) :
    Gen.HashStream.push3 g a b c =
      (Gen.HashStream.push g a >>= fun g' => Gen.HashStream.push g' b >>= fun g'' => Gen.HashStream.push g'' c) := by
  have h' : g.slot = 0 ∨ g.slot = 1 ∨ g.slot = 2 ∨ g.slot = 3 := by omega
  have hs : (ofGen g).slot ≠ .s3 := by
    cases g with
    | mk z0 z1 z2 slot =>
      simp only at h
      rcases h with h | h | h <;> subst h <;> simp [ofGen]
  rw [← toGen_surj g h', push3_gen, push_gen]
  show _ = (Gen.HashStream.push (toGen _) b >>= fun g'' => Gen.HashStream.push g'' c)
  rw [push_gen]
  show _ = Gen.HashStream.push (toGen _) c
  rw [push_gen, push3_eq _ hs]

/-- **hash_of_sequence for the header's text.**  Whatever grouping of the words into `push(a)`, `push(a,b)`,
    `push(a,b,c)`, `push(ptr, bytes)` calls is used after `start(init)`, the generated functions never fail
    and `finish()` returns `hashSeq init (all words in order)`; in particular two groupings of the same words
    hash alike. -/
theorem gen_hash_of_sequence (init : UInt32) (cs : List Call) :
    genHash init cs = .ok (hashSeq init (cs.flatMap Call.words)) := by
  rw [genHash_sim, hash_of_sequence]

/-- `hashSeq` itself is the generated `start`, `push` per word, `finish` -/
theorem gen_hashSeq (init : UInt32) (ws : List UInt32) : genHash init [.pw ws] = .ok (hashSeq init ws) := by
  rw [gen_hash_of_sequence]; simp [Call.words]

/-- **hash_agree for the header's text.**  For one logical node (hashed-header words `hdr`, child vector
    `ch`), the call sequences issued by `unpacked_node::computeHash` on the full view (with any number of
    trailing transparent entries) and on the sorted sparse view, and by `simple_separated::hashNode` on the
    node stored full (truncated or not; needs `Canon`) and stored sparse, executed with the GENERATED
    `start / push / push2 / finish`, never fail and all return the same number `nodeHash P hdr ch` --
    which is itself the generated `start(0)`, one `push` per word of `nodeWords P hdr ch`, `finish()`. -/
theorem gen_hash_agree (P : Params) (hdr : List UInt32) (ch : List Edge) (hc : P.Canon ch) (k : Nat) :
    genHash 0 (.pw hdr :: uFullCalls P 0 ch) = .ok (nodeHash P hdr ch) ∧
    genHash 0 (.pw hdr :: uFullCalls P 0 (ch ++ List.replicate k ⟨P.tv, P.te⟩)) = .ok (nodeHash P hdr ch) ∧
    genHash 0 (.pw hdr :: sparseCalls P (sparseOf P ch)) = .ok (nodeHash P hdr ch) ∧
    genHash 0 (.pw hdr :: pFullCalls P 0 ch) = .ok (nodeHash P hdr ch) ∧
    genHash 0 (.pw hdr :: pFullCalls P 0 (ch ++ List.replicate k ⟨P.tv, P.te⟩)) = .ok (nodeHash P hdr ch) ∧
    genHash 0 [.pw (nodeWords P hdr ch)] = .ok (nodeHash P hdr ch) := by
  have H := hash_agree P hdr ch hc k
  refine ⟨?_, ?_, ?_, ?_, ?_, gen_hashSeq 0 _⟩
  · rw [genHash_sim, ← computeHashFull_calls, H.1]
  · rw [genHash_sim, ← computeHashFull_calls, H.2.1]
  · rw [genHash_sim, ← computeHashSparse_calls, H.2.2.1]
  · rw [genHash_sim, ← hashNodeFull_calls]; exact congrArg _ H.2.2.2.1
  · rw [genHash_sim, ← hashNodeFull_calls]; exact congrArg _ H.2.2.2.2.1

end Meddly.HashStreamGen

/-
  #print axioms (Lean 4.33.0) -- no `sorry`, no `native_decide`, no `bv_decide`, no new axiom:

  rot_gen                    [propext, Quot.sound]
  mix_gen                    [propext, Quot.sound]
  final_mix_gen              [propext, Quot.sound]
  start_gen                  (none)
  start0_gen                 (none)
  finish_gen                 [propext, Quot.sound]
  push_gen                   [propext, Quot.sound]
  push2_gen                  [propext, Quot.sound]
  push3_gen                  [propext, Quot.sound]
  genRun_sim                 [propext, Quot.sound]
  model_is_generated         [propext, Quot.sound]
  gen_total                  [propext, Quot.sound]
  gen_push2_eq               [propext, Quot.sound]
  gen_push3_eq               [propext, Quot.sound]
  gen_hash_of_sequence       [propext, Quot.sound]
  gen_hashSeq                [propext, Quot.sound]
  gen_hash_agree             [propext, Classical.choice, Quot.sound]
-/
