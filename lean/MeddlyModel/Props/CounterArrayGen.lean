/-
  The hand-written model of `MEDDLY::counter_array` (State/CounterArray.lean) IS what src/arrays.h and
  src/arrays.cc say now.

  `Gen.CounterArray.{init, get, swap, increment, decrement, isZeroBeforeIncrement, isPositiveAfterDecrement,
  entry_bits, expand, shrink, expand8to16, expand16to32, shrink16to8, shrink32to16, shrink32to8, step}` are
  GENERATED from /repo/src/arrays.h and /repo/src/arrays.cc by translate/counterarray_to_lean.py (clang's typed
  AST -> Lean; the three pointers as `Option (List Nat)`, elements and `size_t` as `Nat` with every C++
  wrap-around / truncation explicit, malloc / realloc / memset / free / the copy loops with the semantics
  printed in the generated file's header; `.error .ub` = undefined behaviour, `.error .unmodelled` = zero-size
  allocation).  This file proves, for every model state `c` with the model's invariant `Inv c` (and the
  machine-size side conditions `Fit c`: fewer than 2^62 entries, tallies below 2^64 - 1) and every call
  inside the contract:

      Gen.increment junk (toGen c) i = .ok (toGen (bump c i v))              (`increment_gen`)
      Gen.decrement (toGen c) i      = .ok (toGen (drop1 c i v))             (`decrement_gen`)
      ... one equation per member (`get_gen`, `swap_gen`, `isZeroBeforeIncrement_gen`,
      `isPositiveAfterDecrement_gen`, `entry_bits_gen`, `expand_gen`, `shrink_gen`, `init_gen`) ...
      Gen.step junk (toGen c) (opG op) = .ok (toGen c', r)   whenever  step c op = some (c', r)   (`gen_step`)

  for EVERY content `junk` of freshly allocated memory, and lifts them to call sequences (`gen_run_sim`), so
  that the model's property theorems `counter_refines`, `width_inv`, `tally_exact` are restated for the
  GENERATED step function (`gen_counter_refines`, `gen_width_inv`, `gen_tally_exact`), together with
  `gen_model_agrees` and `gen_junk_irrelevant`.  A change of arrays.h / arrays.cc that changes the counter
  logic (a tally set in the wrong place, a wrong comparison constant, a dropped `++counts_09bit`, a wrong
  narrowing decision, a missing widening call, ...) changes the generated file and breaks these proofs; the
  differential family `gen` then tells whether the translation is still faithful.

  Trusted base: the translation conventions in the header of Gen/CounterArray.lean (validated on every run by
  the differential family `gen`: a real counter_array with a recording array_watcher on random call sequences),
  the dispatcher `Gen.CounterArray.step` (fixed text, not translated), clang's AST.
  All proofs are kernel-only (`simp`, `omega`, case analysis); no Mathlib.
-/
import MeddlyModel.Gen.CounterArray
import MeddlyModel.State.CounterArray

namespace Meddly.CounterArrayGen
open Meddly.CounterArray
open Gen.CounterArray (State Err fresh realloc memset0)
set_option linter.unusedSimpArgs false

abbrev Junk := List Nat → Nat → Nat

def ptr (c : CA) (b : Nat) : Option (List Nat) := if c.bytes = b ∧ c.data ≠ [] then some c.data else none

def toGen (c : CA) : State :=
  { watch := false, watched := [], data8 := ptr c 1, data16 := ptr c 2, data32 := ptr c 4,
    size := c.data.length, counts_09bit := c.c09, counts_17bit := c.c17, bytes := c.bytes }

theorem fresh_length (j : Nat → Nat) (m n : Nat) : (fresh j m n).length = n := by simp [fresh]

theorem copy_fresh (l : List Nat) (j : Nat → Nat) (m : Nat) :
    l.take l.length ++ (fresh j m l.length).drop l.length = l := by
  simp [List.drop_eq_nil_of_le, fresh_length]

@[simp] theorem drop_fresh (j : Nat → Nat) (m n : Nat) : List.drop n (fresh j m n) = [] := by
  simp [List.drop_eq_nil_of_le, fresh_length]

theorem expand8to16_ok (junk : Junk) (g : State) (l : List Nat) (j : Nat)
    (hw : g.watch = false) (h8 : g.data8 = some l) (hs : g.size = l.length) (hj : j < l.length)
    (hlen : l.length < 2 ^ 62) :
    Gen.CounterArray.expand8to16 junk g j =
      .ok { g with data8 := none, data16 := some (l.set j 256), counts_09bit := 1, bytes := 2 } := by
  have e : l.length * 2 % 18446744073709551616 / 2 = l.length := by omega
  have e0 : l.length * 2 % 18446744073709551616 ≠ 0 := by omega
  simp [Gen.CounterArray.expand8to16, hs, h8, hw, e, e0, hj]
  
theorem expand16to32_ok (junk : Junk) (g : State) (l : List Nat) (j : Nat)
    (hw : g.watch = false) (h16 : g.data16 = some l) (hs : g.size = l.length) (hj : j < l.length)
    (hlen : l.length < 2 ^ 62) :
    Gen.CounterArray.expand16to32 junk g j =
      .ok { g with data16 := none, data32 := some (l.set j 65536), counts_17bit := 1, bytes := 4 } := by
  have e : l.length * 4 % 18446744073709551616 / 4 = l.length := by omega
  have e0 : l.length * 4 % 18446744073709551616 ≠ 0 := by omega
  simp [Gen.CounterArray.expand16to32, hs, h16, hw, e, e0, hj]

/-- machine-size side conditions: the byte size of the widest array fits `size_t`, the tallies can be incremented -/
structure Fit (c : CA) : Prop where
  len : c.data.length < 2 ^ 62
  c09 : c.c09 + 1 < 2 ^ 64
  c17 : c.c17 + 1 < 2 ^ 64

theorem ne_nil_of_lt {l : List Nat} {i : Nat} (h : i < l.length) : l ≠ [] := by
  intro e; subst e; simp at h

theorem increment_gen (junk : Junk) {c : CA} (h : Inv c) (hf : Fit c) {i : Nat} (hi : i < c.data.length)
    (hv : c.data.getD i 0 + 1 < 4294967296) :
    Gen.CounterArray.increment junk (toGen c) i = .ok (toGen (bump c i (c.data.getD i 0))) := by
  obtain ⟨hb, hfit, h9, h17, hw1, hw2⟩ := h
  obtain ⟨hl, hc9, hc17⟩ := hf
  obtain ⟨b, d, n9, n17⟩ := c
  simp only at hb hfit h9 h17 hw1 hw2 hi hv hl hc9 hc17 ⊢
  have hne := ne_nil_of_lt hi
  have hvm := hfit _ (getD_mem hi)
  have hg : d.getD i 0 = d[i] := by simp [hi]
  rw [hg] at hv hvm ⊢
  generalize hx : d[i] = v at hv hvm ⊢
  rcases hb with rfl | rfl | rfl
  · rw [lim1] at hvm
    by_cases e : v = 255
    · subst e
      simp [Gen.CounterArray.increment, toGen, ptr, hne, hi, bump, hx]
      rw [expand8to16_ok _ _ (d.set i 0) i rfl rfl (by simp) (by simpa using hi) (by simpa using hl)]
      simp
    · have e2 : (v + 1) % 256 = v + 1 := Nat.mod_eq_of_lt (by omega)
      simp [Gen.CounterArray.increment, toGen, ptr, hne, hi, bump, hx, e2]
  · rw [lim2] at hvm
    have z17 : n17 = 0 := hw2 rfl
    subst z17
    have m9 : (n9 + 1) % 18446744073709551616 = n9 + 1 := Nat.mod_eq_of_lt (by omega)
    by_cases e : v = 65535
    · subst e
      simp [Gen.CounterArray.increment, toGen, ptr, hne, hi, bump, hx]
      rw [expand16to32_ok _ _ (d.set i 0) i rfl rfl (by simp) (by simpa using hi) (by simpa using hl)]
      simp
    · have e2 : (v + 1) % 65536 = v + 1 := Nat.mod_eq_of_lt (by omega)
      have e0 : ¬ v + 1 = 0 := by omega
      by_cases e3 : v = 255
      · subst e3
        simp [Gen.CounterArray.increment, toGen, ptr, hne, hi, bump, hx, m9]
      · simp [Gen.CounterArray.increment, toGen, ptr, hne, hi, bump, hx, e2, e3]
  · rw [lim4] at hvm
    have m9 : (n9 + 1) % 18446744073709551616 = n9 + 1 := Nat.mod_eq_of_lt (by omega)
    have m17 : (n17 + 1) % 18446744073709551616 = n17 + 1 := Nat.mod_eq_of_lt (by omega)
    have e2 : (v + 1) % 4294967296 = v + 1 := Nat.mod_eq_of_lt (by omega)
    by_cases e3 : v = 255
    · subst e3
      simp [Gen.CounterArray.increment, toGen, ptr, hne, hi, bump, hx, m9]
    · by_cases e4 : v = 65535
      · subst e4
        simp [Gen.CounterArray.increment, toGen, ptr, hne, hi, bump, hx, m17]
      · simp [Gen.CounterArray.increment, toGen, ptr, hne, hi, bump, hx, e2, e3, e4]

theorem big_pos {k : Nat} {l : List Nat} {i : Nat} (hi : i < l.length) (hk : k ≤ l[i]) : 0 < big k l := by
  unfold big
  rw [List.countP_pos_iff]
  exact ⟨l[i], List.getElem_mem hi, by simpa using hk⟩

theorem decrement_gen {c : CA} (h : Inv c) (hf : Fit c) {i : Nat} (hi : i < c.data.length)
    (hv : 0 < c.data.getD i 0) :
    Gen.CounterArray.decrement (toGen c) i = .ok (toGen (drop1 c i (c.data.getD i 0))) := by
  obtain ⟨hb, hfit, h9, h17, hw1, hw2⟩ := h
  obtain ⟨hl, hc9, hc17⟩ := hf
  obtain ⟨b, d, n9, n17⟩ := c
  simp only at hb hfit h9 h17 hw1 hw2 hi hv hl hc9 hc17 ⊢
  have hne := ne_nil_of_lt hi
  have hvm := hfit _ (getD_mem hi)
  have hg : d.getD i 0 = d[i] := by simp [hi]
  rw [hg] at hv hvm ⊢
  have p9 : 256 ≤ d[i] → 0 < n9 := fun hk => Nat.lt_of_lt_of_le (big_pos hi hk) h9
  have p17 : 65536 ≤ d[i] → 0 < n17 := fun hk => Nat.lt_of_lt_of_le (big_pos hi hk) h17
  generalize hx : d[i] = v at hv hvm p9 p17 ⊢
  rcases hb with rfl | rfl | rfl
  · simp [Gen.CounterArray.decrement, toGen, ptr, hne, hi, drop1, hx]
  · by_cases e : v = 256
    · subst e
      have m9 : (n9 + 18446744073709551615) % 18446744073709551616 = n9 - 1 := by have := p9 (by omega); omega
      simp [Gen.CounterArray.decrement, toGen, ptr, hne, hi, drop1, hx, m9]
    · have e' : ¬ 256 = v := fun x => e x.symm
      simp [Gen.CounterArray.decrement, toGen, ptr, hne, hi, drop1, hx, e, e']
  · by_cases e : v = 256
    · subst e
      have m9 : (n9 + 18446744073709551615) % 18446744073709551616 = n9 - 1 := by have := p9 (by omega); omega
      simp [Gen.CounterArray.decrement, toGen, ptr, hne, hi, drop1, hx, m9]
    · have e' : ¬ 256 = v := fun x => e x.symm
      by_cases e4 : v = 65536
      · subst e4
        have m17 : (n17 + 18446744073709551615) % 18446744073709551616 = n17 - 1 := by have := p17 (by omega); omega
        simp [Gen.CounterArray.decrement, toGen, ptr, hne, hi, drop1, hx, m17]
      · have e4' : ¬ 65536 = v := fun x => e4 x.symm
        simp [Gen.CounterArray.decrement, toGen, ptr, hne, hi, drop1, hx, e, e', e4, e4']

theorem isPositiveAfterDecrement_gen {c : CA} (h : Inv c) (hf : Fit c) {i : Nat} (hi : i < c.data.length)
    (hv : 0 < c.data.getD i 0) :
    Gen.CounterArray.isPositiveAfterDecrement (toGen c) i =
      .ok (toGen (drop1 c i (c.data.getD i 0)), decide (0 < c.data.getD i 0 - 1)) := by
  obtain ⟨hb, hfit, h9, h17, hw1, hw2⟩ := h
  obtain ⟨hl, hc9, hc17⟩ := hf
  obtain ⟨b, d, n9, n17⟩ := c
  simp only at hb hfit h9 h17 hw1 hw2 hi hv hl hc9 hc17 ⊢
  have hne := ne_nil_of_lt hi
  have hvm := hfit _ (getD_mem hi)
  have hg : d.getD i 0 = d[i] := by simp [hi]
  rw [hg] at hv hvm ⊢
  have p9 : 256 ≤ d[i] → 0 < n9 := fun hk => Nat.lt_of_lt_of_le (big_pos hi hk) h9
  have p17 : 65536 ≤ d[i] → 0 < n17 := fun hk => Nat.lt_of_lt_of_le (big_pos hi hk) h17
  generalize hx : d[i] = v at hv hvm p9 p17 ⊢
  rcases hb with rfl | rfl | rfl
  · rw [lim1] at hvm
    have e1 : (v + 255) % 256 = v - 1 := by omega
    simp [Gen.CounterArray.isPositiveAfterDecrement, toGen, ptr, hne, hi, drop1, hx, e1]
  · rw [lim2] at hvm
    have e1 : (v + 65535) % 65536 = v - 1 := by omega
    by_cases e : v = 256
    · subst e
      have m9 : (n9 + 18446744073709551615) % 18446744073709551616 = n9 - 1 := by have := p9 (by omega); omega
      simp [Gen.CounterArray.isPositiveAfterDecrement, toGen, ptr, hne, hi, drop1, hx, m9]
    · have e' : ¬ 256 = v := fun x => e x.symm
      simp [Gen.CounterArray.isPositiveAfterDecrement, toGen, ptr, hne, hi, drop1, hx, e, e', e1]
  · rw [lim4] at hvm
    have e1 : (v + 4294967295) % 4294967296 = v - 1 := by omega
    by_cases e : v = 256
    · subst e
      have m9 : (n9 + 18446744073709551615) % 18446744073709551616 = n9 - 1 := by have := p9 (by omega); omega
      simp [Gen.CounterArray.isPositiveAfterDecrement, toGen, ptr, hne, hi, drop1, hx, m9]
    · have e' : ¬ 256 = v := fun x => e x.symm
      by_cases e4 : v = 65536
      · subst e4
        have m17 : (n17 + 18446744073709551615) % 18446744073709551616 = n17 - 1 := by have := p17 (by omega); omega
        simp [Gen.CounterArray.isPositiveAfterDecrement, toGen, ptr, hne, hi, drop1, hx, m17]
      · have e4' : ¬ 65536 = v := fun x => e4 x.symm
        simp [Gen.CounterArray.isPositiveAfterDecrement, toGen, ptr, hne, hi, drop1, hx, e, e', e4, e4', e1]

theorem get_gen {c : CA} (h : Inv c) {i : Nat} (hi : i < c.data.length) :
    Gen.CounterArray.get (toGen c) i = .ok (c.data.getD i 0) := by
  have hne := ne_nil_of_lt hi
  rcases h.bytesOK with hb | hb | hb <;> simp [Gen.CounterArray.get, toGen, ptr, hne, hi, hb]

theorem entry_bits_gen {c : CA} (h : Inv c) : Gen.CounterArray.entry_bits (toGen c) = .ok c.bits := by
  rcases h.bytesOK with hb | hb | hb <;> simp [Gen.CounterArray.entry_bits, toGen, CA.bits, hb]

theorem swap_gen {c : CA} (h : Inv c) {i j : Nat} (hi : i < c.data.length) (hj : j < c.data.length) :
    Gen.CounterArray.swap (toGen c) i j =
      .ok (toGen { c with data := (c.data.set i (c.data.getD j 0)).set j (c.data.getD i 0) }) := by
  have hne := ne_nil_of_lt hi
  rcases h.bytesOK with hb | hb | hb <;> simp [Gen.CounterArray.swap, toGen, ptr, hne, hi, hj, hb]

theorem init_gen : Gen.CounterArray.init false = toGen init := by
  simp [Gen.CounterArray.init, toGen, ptr, init]

theorem isZeroBeforeIncrement_gen (junk : Junk) {c : CA} (h : Inv c) (hf : Fit c) {i : Nat} (hi : i < c.data.length)
    (hv : c.data.getD i 0 + 1 < 4294967296) :
    Gen.CounterArray.isZeroBeforeIncrement junk (toGen c) i =
      .ok (if c.data.getD i 0 = 0 then (toGen { c with data := c.data.set i 1 }, true)
           else (toGen (bump c i (c.data.getD i 0)), false)) := by
  obtain ⟨hb, hfit, h9, h17, hw1, hw2⟩ := h
  obtain ⟨hl, hc9, hc17⟩ := hf
  obtain ⟨b, d, n9, n17⟩ := c
  simp only at hb hfit h9 h17 hw1 hw2 hi hv hl hc9 hc17 ⊢
  have hne := ne_nil_of_lt hi
  have hvm := hfit _ (getD_mem hi)
  have hg : d.getD i 0 = d[i] := by simp [hi]
  rw [hg] at hv hvm ⊢
  generalize hx : d[i] = v at hv hvm ⊢
  by_cases z : v = 0
  · subst z
    rcases hb with rfl | rfl | rfl <;>
      simp [Gen.CounterArray.isZeroBeforeIncrement, toGen, ptr, hne, hi, hx]
  have z' : ¬ 0 = v := fun x => z x.symm
  rcases hb with rfl | rfl | rfl
  · rw [lim1] at hvm
    by_cases e : v = 255
    · subst e
      simp [Gen.CounterArray.isZeroBeforeIncrement, toGen, ptr, hne, hi, bump, hx]
      rw [expand8to16_ok _ _ (d.set i 0) i rfl rfl (by simp) (by simpa using hi) (by simpa using hl)]
      simp
    · have e2 : (v + 1) % 256 = v + 1 := Nat.mod_eq_of_lt (by omega)
      simp [Gen.CounterArray.isZeroBeforeIncrement, toGen, ptr, hne, hi, bump, hx, e2, z, z']
  · rw [lim2] at hvm
    have z17 : n17 = 0 := hw2 rfl
    subst z17
    have m9 : (n9 + 1) % 18446744073709551616 = n9 + 1 := Nat.mod_eq_of_lt (by omega)
    by_cases e : v = 65535
    · subst e
      simp [Gen.CounterArray.isZeroBeforeIncrement, toGen, ptr, hne, hi, bump, hx]
      rw [expand16to32_ok _ _ (d.set i 0) i rfl rfl (by simp) (by simpa using hi) (by simpa using hl)]
      simp
    · have e2 : (v + 1) % 65536 = v + 1 := Nat.mod_eq_of_lt (by omega)
      by_cases e3 : v = 255
      · subst e3
        simp [Gen.CounterArray.isZeroBeforeIncrement, toGen, ptr, hne, hi, bump, hx, m9]
      · simp [Gen.CounterArray.isZeroBeforeIncrement, toGen, ptr, hne, hi, bump, hx, e2, e3, z, z']
  · rw [lim4] at hvm
    have m9 : (n9 + 1) % 18446744073709551616 = n9 + 1 := Nat.mod_eq_of_lt (by omega)
    have m17 : (n17 + 1) % 18446744073709551616 = n17 + 1 := Nat.mod_eq_of_lt (by omega)
    have e2 : (v + 1) % 4294967296 = v + 1 := Nat.mod_eq_of_lt (by omega)
    by_cases e3 : v = 255
    · subst e3
      simp [Gen.CounterArray.isZeroBeforeIncrement, toGen, ptr, hne, hi, bump, hx, m9]
    · by_cases e4 : v = 65535
      · subst e4
        simp [Gen.CounterArray.isZeroBeforeIncrement, toGen, ptr, hne, hi, bump, hx, m17]
      · simp [Gen.CounterArray.isZeroBeforeIncrement, toGen, ptr, hne, hi, bump, hx, e2, e3, e4, z, z']

theorem ptr_getD (c : CA) (b : Nat) : (ptr c b).getD [] = if c.bytes = b then c.data else [] := by
  unfold ptr
  by_cases h1 : c.bytes = b <;> by_cases h2 : c.data = [] <;> simp [h1, h2]

@[simp] theorem ite_nil_getD (d : List Nat) : (if d = [] then none else some d).getD [] = d := by
  by_cases h : d = [] <;> simp [h]

theorem memset0_append (a b : List Nat) (k : Nat) (hb : b.length = k) :
    memset0 (a ++ b) a.length k = a ++ List.replicate k 0 := by
  subst hb
  simp [memset0]

theorem memset0_append' (a b : List Nat) (n k : Nat) (ha : a.length = n) (hb : b.length = k) :
    memset0 (a ++ b) n k = a ++ List.replicate k 0 := by
  subst ha; exact memset0_append a b k hb

theorem realloc_grow (j : Nat → Nat) (m : Nat) (l : List Nat) (n : Nat) (h : l.length ≤ n) :
    memset0 (realloc j m l n) l.length (n - l.length) = l ++ List.replicate (n - l.length) 0 := by
  unfold realloc
  rw [List.take_of_length_le h]
  exact memset0_append _ _ _ (fresh_length _ _ _)

theorem realloc_shrink (j : Nat → Nat) (m : Nat) (l : List Nat) (n : Nat) (h : n ≤ l.length) :
    realloc j m l n = l.take n := by
  unfold realloc
  have : n - l.length = 0 := by omega
  simp [this, fresh]

/-- the three narrowing copies -/
theorem shrink16to8_ok (junk : Junk) (g : State) (l : List Nat) (ns : Nat)
    (hw : g.watch = false) (h16 : g.data16.getD [] = l) (hs : g.size = l.length) (h0 : 0 < ns) (hn : ns < 2 ^ 62) :
    Gen.CounterArray.shrink16to8 junk g ns =
      .ok { g with data8 := some (((l.take (if ns < l.length then ns else l.length)).map (· % 256)) ++
                                   (fresh (junk [0]) 256 ns).drop (if ns < l.length then ns else l.length)),
                   data16 := none, bytes := 1 } := by
  have e0 : ¬ ns = 0 := by omega
  have e1 : ns % 18446744073709551616 = ns := by omega
  have e2 : (if ns < l.length then ns else l.length) ≤ l.length := by split <;> omega
  have e3 : (if ns < l.length then ns else l.length) ≤ ns := by split <;> omega
  simp [Gen.CounterArray.shrink16to8, hs, h16, hw, e0, e1, e2, e3]

theorem shrink32to8_ok (junk : Junk) (g : State) (l : List Nat) (ns : Nat)
    (hw : g.watch = false) (h32 : g.data32.getD [] = l) (hs : g.size = l.length) (h0 : 0 < ns) (hn : ns < 2 ^ 62) :
    Gen.CounterArray.shrink32to8 junk g ns =
      .ok { g with data8 := some (((l.take (if ns < l.length then ns else l.length)).map (· % 256)) ++
                                   (fresh (junk [0]) 256 ns).drop (if ns < l.length then ns else l.length)),
                   data32 := none, bytes := 1 } := by
  have e0 : ¬ ns = 0 := by omega
  have e1 : ns % 18446744073709551616 = ns := by omega
  have e2 : (if ns < l.length then ns else l.length) ≤ l.length := by split <;> omega
  have e3 : (if ns < l.length then ns else l.length) ≤ ns := by split <;> omega
  simp [Gen.CounterArray.shrink32to8, hs, h32, hw, e0, e1, e2, e3]

theorem shrink32to16_ok (junk : Junk) (g : State) (l : List Nat) (ns : Nat)
    (hw : g.watch = false) (h32 : g.data32.getD [] = l) (hs : g.size = l.length) (h0 : 0 < ns) (hn : ns < 2 ^ 62) :
    Gen.CounterArray.shrink32to16 junk g ns =
      .ok { g with data16 := some (((l.take (if ns < l.length then ns else l.length)).map (· % 65536)) ++
                                   (fresh (junk [0]) 65536 ns).drop (if ns < l.length then ns else l.length)),
                   data32 := none, bytes := 2 } := by
  have e0 : ¬ ns * 2 % 18446744073709551616 = 0 := by omega
  have e1 : ns * 2 % 18446744073709551616 / 2 = ns := by omega
  have e2 : (if ns < l.length then ns else l.length) ≤ l.length := by split <;> omega
  have e3 : (if ns < l.length then ns else l.length) ≤ ns := by split <;> omega
  simp [Gen.CounterArray.shrink32to16, hs, h32, hw, e0, e1, e2, e3]

theorem append_replicate_ne_nil (l : List Nat) {k : Nat} (hk : 0 < k) : l ++ List.replicate k 0 ≠ [] := by
  intro h
  have := congrArg List.length h
  simp at this
  omega

theorem expand_gen (junk : Junk) {c : CA} (h : Inv c) (hf : Fit c) {ns : Nat} (hn : ns < 2 ^ 62)
    (hgt : c.data.length < ns) :
    Gen.CounterArray.expand junk (toGen c) ns =
      .ok (toGen { renarrow c with data := (renarrow c).data ++ List.replicate (ns - c.data.length) 0 }) := by
  obtain ⟨hb, hfit, h9, h17, hw1, hw2⟩ := h
  obtain ⟨hl, hc9, hc17⟩ := hf
  obtain ⟨b, d, n9, n17⟩ := c
  simp only at hb hfit h9 h17 hw1 hw2 hl hc9 hc17 hgt ⊢
  have hle : ¬ ns ≤ d.length := by omega
  have hlt : ¬ ns < d.length := by omega
  have hk : 0 < ns - d.length := by omega
  have hne := fun (l : List Nat) => append_replicate_ne_nil l hk
  have a1 : (ns + 18446744073709551616 - d.length) % 18446744073709551616 = ns - d.length := by omega
  have a0 : ¬ ns = 0 := by omega
  have a2 : ¬ ns * 2 = 0 := by omega
  have a4 : ¬ ns * 4 = 0 := by omega
  have b1 : ns % 18446744073709551616 = ns := by omega
  have b2 : ns * 2 % 18446744073709551616 = ns * 2 := by omega
  have b4 : ns * 4 % 18446744073709551616 = ns * 4 := by omega
  have c1 : (ns - d.length) % 18446744073709551616 = ns - d.length := by omega
  have c2 : (ns - d.length) * 2 % 18446744073709551616 = (ns - d.length) * 2 := by omega
  have c4 : (ns - d.length) * 4 % 18446744073709551616 = (ns - d.length) * 4 := by omega
  have c5 : (ns + 18446744073709551616 - d.length) * 2 % 18446744073709551616 / 2 = ns - d.length := by omega
  have c6 : (ns + 18446744073709551616 - d.length) * 2 % 18446744073709551616 % 2 = 0 := by omega
  have s1 : d.length + (ns - d.length) ≤ ns := by omega
  have s2 : d.length + (ns - d.length) = ns := by omega
  rcases hb with rfl | rfl | rfl
  · simp [Gen.CounterArray.expand, toGen, ptr_getD, hle, a0, a1, b1, c1, s1, renarrow, realloc_grow _ _ d ns (by omega), ptr, hne, s2]
  · have z17 : n17 = 0 := hw2 rfl
    subst z17
    by_cases z : n9 = 0
    · subst z
      simp [Gen.CounterArray.expand, toGen, ptr_getD, hle, renarrow]
      rw [shrink16to8_ok _ _ d ns rfl (by simp [ptr_getD]) rfl (by omega) hn]
      simp [hle, hlt, a1, c1, s1, s2, fresh_length]
      rw [memset0_append' _ _ _ _ (by simp) (by simp [fresh_length])]
      simp [ptr, hne]
    · simp [Gen.CounterArray.expand, toGen, ptr_getD, hle, a0, a2, a1, b2, c2, s1, s2, z, renarrow, realloc_grow _ _ d ns (by omega), ptr, hne]
  · by_cases z17 : n17 = 0
    · subst z17
      by_cases z : n9 = 0
      · subst z
        simp [Gen.CounterArray.expand, toGen, ptr_getD, hle, renarrow]
        rw [shrink32to8_ok _ _ d ns rfl (by simp [ptr_getD]) rfl (by omega) hn]
        simp [hle, hlt, a1, c1, s1, s2, fresh_length]
        rw [memset0_append' _ _ _ _ (by simp) (by simp [fresh_length])]
        simp [ptr, hne]
      · simp [Gen.CounterArray.expand, toGen, ptr_getD, hle, renarrow, z]
        rw [shrink32to16_ok _ _ d ns rfl (by simp [ptr_getD]) rfl (by omega) hn]
        simp [hle, hlt, a1, c1, c2, c5, c6, s1, s2, fresh_length]
        rw [memset0_append' _ _ _ _ (by simp) (by simp [fresh_length, c5])]
        simp [ptr, hne]
    · simp [Gen.CounterArray.expand, toGen, ptr_getD, hle, a0, a4, a1, b4, c4, s1, s2, z17, renarrow, realloc_grow _ _ d ns (by omega), ptr, hne]

theorem shrink_gen (junk : Junk) {c : CA} (h : Inv c) (hf : Fit c) {ns : Nat} (h0 : ns ≠ 0)
    (hlt : ns < c.data.length) :
    Gen.CounterArray.shrink junk (toGen c) ns =
      .ok (toGen { renarrow c with data := (renarrow c).data.take ns }) := by
  obtain ⟨hb, hfit, h9, h17, hw1, hw2⟩ := h
  obtain ⟨hl, hc9, hc17⟩ := hf
  obtain ⟨b, d, n9, n17⟩ := c
  simp only at hb hfit h9 h17 hw1 hw2 hl hc9 hc17 hlt ⊢
  have hge : ¬ ns ≥ d.length := by omega
  have hge' : ¬ d.length ≤ ns := by omega
  have hle : ns ≤ d.length := by omega
  have hd : d ≠ [] := ne_nil_of_lt hlt
  have hn : ns < 2 ^ 62 := by omega
  have a2 : ¬ ns * 2 = 0 := by omega
  have a4 : ¬ ns * 4 = 0 := by omega
  have b1 : ns % 18446744073709551616 = ns := by omega
  have b2 : ns * 2 % 18446744073709551616 = ns * 2 := by omega
  have b4 : ns * 4 % 18446744073709551616 = ns * 4 := by omega
  have m : min ns d.length = ns := by omega
  rcases hb with rfl | rfl | rfl
  · simp [Gen.CounterArray.shrink, toGen, ptr_getD, hge, hge', h0, b1, renarrow, realloc_shrink _ _ d ns hle, ptr, hd, m]
  · have z17 : n17 = 0 := hw2 rfl
    subst z17
    by_cases z : n9 = 0
    · subst z
      simp [Gen.CounterArray.shrink, toGen, ptr_getD, hge, hge', renarrow]
      rw [shrink16to8_ok _ _ d ns rfl (by simp [ptr_getD]) rfl (by omega) hn]
      simp [hlt, ptr, hd, h0, m, List.map_take]
    · simp [Gen.CounterArray.shrink, toGen, ptr_getD, hge, hge', h0, a2, b2, z, renarrow, realloc_shrink _ _ d ns hle, ptr, hd, m]
  · by_cases z17 : n17 = 0
    · subst z17
      by_cases z : n9 = 0
      · subst z
        simp [Gen.CounterArray.shrink, toGen, ptr_getD, hge, hge', renarrow]
        rw [shrink32to8_ok _ _ d ns rfl (by simp [ptr_getD]) rfl (by omega) hn]
        simp [hlt, ptr, hd, h0, m, List.map_take]
      · simp [Gen.CounterArray.shrink, toGen, ptr_getD, hge, hge', renarrow, z]
        rw [shrink32to16_ok _ _ d ns rfl (by simp [ptr_getD]) rfl (by omega) hn]
        simp [hlt, ptr, hd, h0, m, List.map_take]
    · simp [Gen.CounterArray.shrink, toGen, ptr_getD, hge, hge', h0, a4, b4, z17, renarrow, realloc_shrink _ _ d ns hle, ptr, hd, m]

/-- model operation ↦ operation of the generated dispatcher -/
def opG : Op → Gen.CounterArray.Op
  | .expand ns => .expand ns
  | .shrink ns => .shrink ns
  | .get i => .get i
  | .swap i j => .swap i j
  | .increment i => .increment i
  | .decrement i => .decrement i
  | .isZeroBeforeIncrement i => .isZeroBeforeIncrement i
  | .isPositiveAfterDecrement i => .isPositiveAfterDecrement i

/-- the requested size times the widest element (4 bytes) fits `size_t` -/
def OpFit : Op → Prop
  | .expand ns => ns < 2 ^ 62
  | _ => True

theorem gen_step (junk : Junk) {c : CA} (h : Inv c) (hf : Fit c) {op : Op} (ho : OpFit op) {a' : List Nat} {r : Nat}
    (hs : specStep c.data op = some (a', r)) {c' : CA} (hc : step c op = some (c', r)) :
    Gen.CounterArray.step junk (toGen c) (opG op) = .ok (toGen c', r) := by
  cases op with
  | expand ns =>
    simp only [OpFit] at ho
    by_cases hle : ns ≤ c.data.length
    · simp [step, hle] at hc
      obtain ⟨rfl, rfl⟩ := hc
      simp [opG, Gen.CounterArray.step, Except.map, Gen.CounterArray.expand, toGen, hle]
    · simp only [step, hle, if_false, Option.some.injEq, Prod.mk.injEq] at hc
      obtain ⟨rfl, rfl⟩ := hc
      simp [opG, Gen.CounterArray.step, Except.map, expand_gen junk h hf ho (by omega)]
  | shrink ns =>
    by_cases hle : c.data.length ≤ ns
    · simp [step, hle] at hc
      obtain ⟨rfl, rfl⟩ := hc
      simp [opG, Gen.CounterArray.step, Except.map, Gen.CounterArray.shrink, toGen, hle]
    · by_cases h0 : ns = 0
      · exfalso
        subst h0
        simp only [step] at hc
        rw [if_neg hle] at hc
        simp at hc
      · simp only [step, hle, h0, if_false, Option.some.injEq, Prod.mk.injEq] at hc
        obtain ⟨rfl, rfl⟩ := hc
        simp [opG, Gen.CounterArray.step, Except.map, shrink_gen junk h hf h0 (by omega)]
  | get i =>
    simp only [specStep] at hs
    split at hs
    · rename_i hi
      simp [step, hi] at hc
      obtain ⟨rfl, rfl⟩ := hc
      simp [opG, Gen.CounterArray.step, Except.map, get_gen h hi, List.getElem?_eq_getElem hi]
    · cases hs
  | swap i j =>
    simp only [specStep] at hs
    split at hs
    · rename_i hij
      simp only [step, hij, and_self, if_true, Option.some.injEq, Prod.mk.injEq] at hc
      obtain ⟨rfl, rfl⟩ := hc
      simp [opG, Gen.CounterArray.step, Except.map, swap_gen h hij.1 hij.2]
    · cases hs
  | increment i =>
    simp only [specStep] at hs
    split at hs
    · rename_i hi
      simp only [step, hi.1, if_true, Option.some.injEq, Prod.mk.injEq] at hc
      obtain ⟨rfl, rfl⟩ := hc
      simp [opG, Gen.CounterArray.step, Except.map, increment_gen junk h hf hi.1 hi.2]
    · cases hs
  | decrement i =>
    simp only [specStep] at hs
    split at hs
    · rename_i hi
      simp only [step, hi.1, if_true, Option.some.injEq, Prod.mk.injEq] at hc
      obtain ⟨rfl, rfl⟩ := hc
      simp [opG, Gen.CounterArray.step, Except.map, decrement_gen h hf hi.1 hi.2]
    · cases hs
  | isZeroBeforeIncrement i =>
    simp only [specStep] at hs
    split at hs
    · rename_i hi
      by_cases z : c.data.getD i 0 = 0
      · simp only [step, hi.1, if_true, z, Option.some.injEq, Prod.mk.injEq] at hc
        obtain ⟨rfl, rfl⟩ := hc
        simp only [opG, Gen.CounterArray.step, Except.map, isZeroBeforeIncrement_gen junk h hf hi.1 hi.2, z, if_true]
      · simp only [step, hi.1, if_true, z, if_false, Option.some.injEq, Prod.mk.injEq] at hc
        obtain ⟨rfl, rfl⟩ := hc
        simp only [opG, Gen.CounterArray.step, Except.map, isZeroBeforeIncrement_gen junk h hf hi.1 hi.2, z, if_false]
        simp
    · cases hs
  | isPositiveAfterDecrement i =>
    simp only [specStep] at hs
    split at hs
    · rename_i hi
      simp only [Option.some.injEq, Prod.mk.injEq] at hs
      obtain ⟨ha, hr⟩ := hs
      simp only [step, hi.1, if_true, Option.some.injEq, Prod.mk.injEq] at hc
      obtain ⟨rfl, hr2⟩ := hc
      simp [opG, Gen.CounterArray.step, Except.map, isPositiveAfterDecrement_gen h hf hi.1 hi.2, ← hr]
    · cases hs

/-! ## Machine-size bookkeeping along a run -/

/-- after `n` calls: the array is shorter than 2^62 and each tally is at most `n` (a call adds at most 1) -/
structure FitN (n : Nat) (c : CA) : Prop where
  len : c.data.length < 2 ^ 62
  c09 : c.c09 ≤ n
  c17 : c.c17 ≤ n

theorem FitN.fit {n : Nat} {c : CA} (h : FitN n c) (hn : n + 1 < 2 ^ 64) : Fit c :=
  ⟨h.len, by have := h.c09; omega, by have := h.c17; omega⟩

theorem fitN_init : FitN 0 init := ⟨by simp [init], by simp [init], by simp [init]⟩

theorem renarrow_fields (c : CA) :
    (renarrow c).data.length = c.data.length ∧ (renarrow c).c09 = c.c09 ∧ (renarrow c).c17 = c.c17 := by
  unfold renarrow
  split
  · simp
  · split
    · split <;> simp
    · split
      · simp
      · split <;> simp

theorem bump_fields (c : CA) (i v : Nat) :
    (bump c i v).data.length = c.data.length ∧ (bump c i v).c09 ≤ c.c09 + 1 ∧ (bump c i v).c17 ≤ c.c17 + 1 := by
  unfold bump
  split
  · dsimp only; split <;> simp
  · split
    · dsimp only; split <;> simp <;> split <;> omega
    · simp; constructor <;> split <;> omega

theorem drop1_fields (c : CA) (i v : Nat) :
    (drop1 c i v).data.length = c.data.length ∧ (drop1 c i v).c09 ≤ c.c09 ∧ (drop1 c i v).c17 ≤ c.c17 := by
  unfold drop1
  split
  · simp
  · split
    · simp; split <;> omega
    · simp; constructor <;> split <;> omega

theorem fitN_step {n : Nat} {c c' : CA} {op : Op} {r : Nat} (hf : FitN n c) (ho : OpFit op)
    (hs : step c op = some (c', r)) : FitN (n + 1) c' := by
  obtain ⟨hl, h9, h17⟩ := hf
  have rn := renarrow_fields c
  cases op with
  | expand ns =>
    simp only [OpFit] at ho
    simp only [step] at hs
    split at hs
    · simp only [Option.some.injEq, Prod.mk.injEq] at hs; obtain ⟨rfl, _⟩ := hs; exact ⟨hl, by omega, by omega⟩
    · simp only [Option.some.injEq, Prod.mk.injEq] at hs; obtain ⟨rfl, _⟩ := hs
      exact ⟨by simp [rn.1]; omega, by simp [rn.2.1]; omega, by simp [rn.2.2]; omega⟩
  | shrink ns =>
    simp only [step] at hs
    split at hs
    · simp only [Option.some.injEq, Prod.mk.injEq] at hs; obtain ⟨rfl, _⟩ := hs; exact ⟨hl, by omega, by omega⟩
    · split at hs
      · cases hs
      · simp only [Option.some.injEq, Prod.mk.injEq] at hs; obtain ⟨rfl, _⟩ := hs
        exact ⟨by simp [rn.1]; omega, by simp [rn.2.1]; omega, by simp [rn.2.2]; omega⟩
  | get i =>
    simp only [step] at hs
    split at hs
    · simp only [Option.some.injEq, Prod.mk.injEq] at hs; obtain ⟨rfl, _⟩ := hs; exact ⟨hl, by omega, by omega⟩
    · cases hs
  | swap i j =>
    simp only [step] at hs
    split at hs
    · simp only [Option.some.injEq, Prod.mk.injEq] at hs; obtain ⟨rfl, _⟩ := hs; exact ⟨by simpa using hl, by simp; omega, by simp; omega⟩
    · cases hs
  | increment i =>
    simp only [step] at hs
    split at hs
    · simp only [Option.some.injEq, Prod.mk.injEq] at hs; obtain ⟨rfl, _⟩ := hs
      have b := bump_fields c i (c.data.getD i 0)
      exact ⟨by omega, by omega, by omega⟩
    · cases hs
  | decrement i =>
    simp only [step] at hs
    split at hs
    · simp only [Option.some.injEq, Prod.mk.injEq] at hs; obtain ⟨rfl, _⟩ := hs
      have b := drop1_fields c i (c.data.getD i 0)
      exact ⟨by omega, by omega, by omega⟩
    · cases hs
  | isZeroBeforeIncrement i =>
    simp only [step] at hs
    split at hs
    · split at hs
      · simp only [Option.some.injEq, Prod.mk.injEq] at hs; obtain ⟨rfl, _⟩ := hs; exact ⟨by simpa using hl, by simp; omega, by simp; omega⟩
      · simp only [Option.some.injEq, Prod.mk.injEq] at hs; obtain ⟨rfl, _⟩ := hs
        have b := bump_fields c i (c.data.getD i 0)
        exact ⟨by omega, by omega, by omega⟩
    · cases hs
  | isPositiveAfterDecrement i =>
    simp only [step] at hs
    split at hs
    · simp only [Option.some.injEq, Prod.mk.injEq] at hs; obtain ⟨rfl, _⟩ := hs
      have b := drop1_fields c i (c.data.getD i 0)
      exact ⟨by omega, by omega, by omega⟩
    · cases hs

/-! ## Call sequences through the GENERATED step function -/

/-- run a call sequence with the generated dispatcher `Gen.CounterArray.step`, collecting the results -/
def genRun (junk : Junk) (g : State) : List Op → Except Err (State × List Nat)
  | [] => .ok (g, [])
  | op :: ops =>
    match Gen.CounterArray.step junk g (opG op) with
    | .error e => .error e
    | .ok (g', r) =>
      match genRun junk g' ops with
      | .error e => .error e
      | .ok (g'', rs) => .ok (g'', r :: rs)

/-- the contents of whichever array is live -/
def contents (g : State) : List Nat :=
  match g.data8, g.data16, g.data32 with
  | some l, _, _ => l
  | none, some l, _ => l
  | none, none, some l => l
  | none, none, none => []

theorem contents_toGen {c : CA} (h : Inv c) : contents (toGen c) = c.data := by
  by_cases e : c.data = []
  · simp [contents, toGen, ptr, e]
  · rcases h.bytesOK with hb | hb | hb <;> simp [contents, toGen, ptr, e, hb]

/-- `gen_run_sim`: every in-contract call sequence, executed with the GENERATED functions from the image of a
    model state, succeeds (no undefined behaviour, no unmodelled case), returns what the model returns and ends
    in the image of the model's final state -- whatever the contents of freshly allocated memory (`junk`). -/
theorem gen_run_sim (junk : Junk) : ∀ (ops : List Op) {c : CA} {n : Nat}, Inv c → FitN n c →
    n + ops.length < 2 ^ 64 → (∀ op ∈ ops, OpFit op) → ∀ {a rs}, specRun c.data ops = some (a, rs) →
    ∃ c', run c ops = some (c', rs) ∧ genRun junk (toGen c) ops = .ok (toGen c', rs) ∧ c'.data = a ∧ Inv c' ∧
      (Exact c → cleanShrinks c.data ops → Exact c')
  | [], c, n, h, _, _, _, a, rs, hs => by
    simp only [specRun, Option.some.injEq, Prod.mk.injEq] at hs
    obtain ⟨rfl, rfl⟩ := hs
    exact ⟨c, rfl, rfl, rfl, h, fun e _ => e⟩
  | op :: ops, c, n, h, hf, hn, ho, a, rs, hs => by
    simp only [specRun] at hs
    cases h1 : specStep c.data op with
    | none => simp [h1] at hs
    | some p1 =>
      obtain ⟨a1, r1⟩ := p1
      simp only [h1] at hs
      cases h2 : specRun a1 ops with
      | none => simp [h2] at hs
      | some p2 =>
        obtain ⟨a2, rs2⟩ := p2
        simp only [h2, Option.some.injEq, Prod.mk.injEq] at hs
        obtain ⟨rfl, rfl⟩ := hs
        obtain ⟨c1, s1, d1, i1, e1⟩ := step_sim h h1
        have hop : OpFit op := ho op (by simp)
        have hlen : n + 1 + ops.length < 2 ^ 64 := by simp only [List.length_cons] at hn; omega
        have g1 := gen_step junk h (hf.fit (by omega)) hop h1 s1
        have f1 := fitN_step hf hop s1
        subst d1
        obtain ⟨c2, s2, g2, d2, i2, e2⟩ :=
          gen_run_sim junk ops i1 f1 hlen (fun o ho' => ho o (by simp [ho'])) h2
        refine ⟨c2, by simp [run, s1, s2], by simp [genRun, g1, g2], d2, i2, ?_⟩
        intro ex cl
        simp only [cleanShrinks, h1] at cl
        exact e2 (e1 ex cl.1) cl.2

/-! ### Concrete runs of the generated functions (non-vacuity; the same sequences as in State/CounterArray.lean) -/

/-- some contents of fresh memory (never 0, so that a missing memset / copy would show) -/
def junk0 : Junk := fun t k => 170 + 7 * t.length + k

def okWith (r : Except Err (State × List Nat)) (p : State → List Nat → Bool) : Bool :=
  match r with
  | .ok (g, rs) => p g rs
  | .error _ => false

example :
    okWith (genRun junk0 (Gen.CounterArray.init false)
      ([Op.expand 3] ++ List.replicate 256 (Op.increment 1) ++
       [Op.get 1, Op.isPositiveAfterDecrement 1, Op.get 1, Op.shrink 2, Op.get 1, Op.isZeroBeforeIncrement 0]))
      (fun g rs => g.data8 == some [1, 255] && g.data16 == none && g.data32 == none && g.bytes == 1 &&
                   g.size == 2 && rs.drop 257 == [256, 1, 255, 0, 255, 1]) = true := by
  decide +kernel

example :
    okWith (genRun junk0 (Gen.CounterArray.init false) ([Op.expand 2] ++ List.replicate 256 (Op.increment 0)))
      (fun g _ => g.data16 == some [256, 0] && g.data8 == none && g.counts_09bit == 1 && g.bytes == 2) = true := by
  decide +kernel

/-- the stale tally of the model's last example, now in the generated code: `counts_09bit` stays 1 -/
example :
    okWith (genRun junk0 (Gen.CounterArray.init false)
      ([Op.expand 4] ++ List.replicate 300 (Op.increment 3) ++ [Op.shrink 2, Op.expand 8]))
      (fun g _ => g.data16 == some [0, 0, 0, 0, 0, 0, 0, 0] && g.counts_09bit == 1 && g.bytes == 2) = true := by
  decide +kernel

/-- out of contract: an index beyond the size is undefined behaviour, `shrink(0)` is `realloc(p, 0)` -/
def errIs {α : Type} (r : Except Err α) (e : Err) : Bool :=
  match r with
  | .ok _ => false
  | .error x => x == e

example : errIs (Gen.CounterArray.step junk0 (Gen.CounterArray.init false) (.get 0)) .ub = true := by decide +kernel
example : errIs (genRun junk0 (Gen.CounterArray.init false) [Op.expand 2, Op.shrink 0]) .unmodelled = true := by
  decide +kernel
example : (Gen.CounterArray.init true).watched = [(true, 0, 8)] := by decide +kernel

/-! ## The model's property theorems, for the generated functions -/

/-- in-contract call sequence whose size requests fit the address space -/
def Fits (ops : List Op) : Prop := (∀ op ∈ ops, OpFit op) ∧ ops.length < 2 ^ 64

/-- `gen_counter_refines`: `counter_refines` for the GENERATED step function: on every in-contract call
    sequence the code of arrays.h / arrays.cc (as translated) returns exactly the values a plain array of
    naturals returns and holds exactly its contents afterwards, in the array selected by the non-null pointer;
    `size` is the length. -/
theorem gen_counter_refines (junk : Junk) (ops : List Op) (a rs : List Nat)
    (h : specRun [] ops = some (a, rs)) (hf : Fits ops) :
    ∃ g, genRun junk (Gen.CounterArray.init false) ops = .ok (g, rs) ∧ contents g = a ∧ g.size = a.length := by
  obtain ⟨c, _, hg, hd, hI, _⟩ :=
    gen_run_sim junk ops inv_init fitN_init (by have := hf.2; omega) hf.1 (c := init) h
  exact ⟨toGen c, by rw [init_gen]; exact hg, by rw [contents_toGen hI, hd], by simp [toGen, hd]⟩

/-- `gen_width_inv`: `width_inv` for the generated functions, plus the pointer discipline: exactly the pointer
    selected by `bytes` is non-null (none if the array is empty), the others are null. -/
theorem gen_width_inv (junk : Junk) (ops : List Op) (a rs : List Nat)
    (h : specRun [] ops = some (a, rs)) (hf : Fits ops) :
    ∃ g, genRun junk (Gen.CounterArray.init false) ops = .ok (g, rs) ∧
      (g.bytes = 1 ∨ g.bytes = 2 ∨ g.bytes = 4) ∧ (∀ x ∈ contents g, x < 2 ^ (8 * g.bytes)) ∧
      big 256 (contents g) ≤ g.counts_09bit ∧ big 65536 (contents g) ≤ g.counts_17bit ∧
      (g.bytes = 1 → g.counts_09bit = 0 ∧ g.counts_17bit = 0) ∧ (g.bytes = 2 → g.counts_17bit = 0) ∧
      (g.data8.isSome = true ↔ g.bytes = 1 ∧ g.size ≠ 0) ∧ (g.data16.isSome = true ↔ g.bytes = 2 ∧ g.size ≠ 0) ∧
      (g.data32.isSome = true ↔ g.bytes = 4 ∧ g.size ≠ 0) := by
  obtain ⟨c, _, hg, hd, hI, _⟩ :=
    gen_run_sim junk ops inv_init fitN_init (by have := hf.2; omega) hf.1 (c := init) h
  refine ⟨toGen c, by rw [init_gen]; exact hg, ?_⟩
  rw [contents_toGen hI]
  refine ⟨hI.bytesOK, hI.fits, hI.t09, hI.t17, hI.w1, hI.w2, ?_, ?_, ?_⟩ <;>
    (rcases hI.bytesOK with b | b | b <;> by_cases e : c.data = [] <;> simp [toGen, ptr, e, b])

/-- `gen_tally_exact`: `tally_exact` for the generated functions: if every `shrink` drops only entries below
    256, `counts_09bit` / `counts_17bit` EQUAL the numbers of entries >= 256 / >= 65536. -/
theorem gen_tally_exact (junk : Junk) (ops : List Op) (a rs : List Nat)
    (h : specRun [] ops = some (a, rs)) (hc : cleanShrinks [] ops) (hf : Fits ops) :
    ∃ g, genRun junk (Gen.CounterArray.init false) ops = .ok (g, rs) ∧
      g.counts_09bit = big 256 (contents g) ∧ g.counts_17bit = big 65536 (contents g) := by
  obtain ⟨c, _, hg, hd, hI, hE⟩ :=
    gen_run_sim junk ops inv_init fitN_init (by have := hf.2; omega) hf.1 (c := init) h
  refine ⟨toGen c, by rw [init_gen]; exact hg, ?_⟩
  rw [contents_toGen hI]
  exact hE exact_init hc

/-- `gen_model_agrees`: the hand-written `run` and the generated functions compute the same results and the
    same final state on every in-contract call sequence (what the differential family `nodelife` checks for
    the hand-written model therefore holds for the translated code, and vice versa). -/
theorem gen_model_agrees (junk : Junk) (ops : List Op) (a rs : List Nat)
    (h : specRun [] ops = some (a, rs)) (hf : Fits ops) :
    ∃ c, run init ops = some (c, rs) ∧ genRun junk (Gen.CounterArray.init false) ops = .ok (toGen c, rs) ∧
      Gen.CounterArray.entry_bits (toGen c) = .ok c.bits := by
  obtain ⟨c, hr, hg, _, hI, _⟩ :=
    gen_run_sim junk ops inv_init fitN_init (by have := hf.2; omega) hf.1 (c := init) h
  exact ⟨c, hr, by rw [init_gen]; exact hg, entry_bits_gen hI⟩

/-- `gen_junk_irrelevant`: the unspecified contents of malloc'ed / realloc'ed memory never reach a result or
    the final state of an in-contract call sequence. -/
theorem gen_junk_irrelevant (j1 j2 : Junk) (ops : List Op) (a rs : List Nat)
    (h : specRun [] ops = some (a, rs)) (hf : Fits ops) :
    genRun j1 (Gen.CounterArray.init false) ops = genRun j2 (Gen.CounterArray.init false) ops := by
  obtain ⟨c1, hr1, hg1, _⟩ := gen_model_agrees j1 ops a rs h hf
  obtain ⟨c2, hr2, hg2, _⟩ := gen_model_agrees j2 ops a rs h hf
  rw [hr1] at hr2
  simp only [Option.some.injEq, Prod.mk.injEq] at hr2
  rw [hg1, hg2, hr2.1]

end Meddly.CounterArrayGen

/-
`#print axioms` (Lean 4.33.0): every theorem of this file depends on at most [propext, Classical.choice, Quot.sound].
-/
