/-
  The position numbering of the Lean model IS the library's level order.

  `Gen.Levels.*` (`MDD.downLevel … MXD.primedOfLevel`, `isLevelAbove`, `MAX`, `ABS`) are GENERATED from
  /repo/src/forest_levels.h and /repo/src/defines.h by translate/levels_to_lean.py (clang's typed AST ->
  Lean functions over `Int`, with a generated predicate `f_defined` = "no signed overflow on the way").
  Everything below is proved about those generated definitions; a change of the headers that changes the
  level order changes the generated file and breaks these proofs.

  The whole Lean model (Core/DD.lean, Core/Dump.lean, Ops/*) works with POSITIONS: a set forest over K
  variables has positions K … 1 (= levels), a relation forest positions 2K … 1 where position 2k is the
  unprimed level k and position 2k-1 the primed level -k; position 0 = terminals.  The harness prints the
  position of every dumped node with `posOfLevel` (harness/common.h).  What is proved here:

    * `pos` (= the harness's `posOfLevel(rel = true, ·)` on levels ≠ 0, and 0 on the terminal level 0) is a
      bijection between levels and positions ≥ 0                                   (`pos_inj`, `pos_levelOfPos`)
    * `MXD_levels::downLevel / upLevel` are "position - 1" / "position + 1"         (`MXD_downLevel_pos`, `MXD_upLevel_pos`)
    * `MXD_levels::topLevel` returns the argument with the larger position          (`MXD_topLevel_pos`)
    * `isLevelAbove k1 k2` ⇔ position of k1 > position of k2                        (`isLevelAbove_iff_pos`)
    * `topUnprimed`, `unprimedOfLevel`, `primedOfLevel` land on positions 2|k| and 2|k|-1
    * for set forests (`MDD_levels`, position = level) the same with the identity  (`MDD_*`)
    * none of these functions overflows for |k| < 2^30                              (`defined_of_bounded`)

  Trusted base: the translation conventions in the header of Gen/Levels.lean (validated on every run by the
  differential family `gen`: the real inline functions on all levels in [-40, 40] and some large ones).
  All proofs are kernel-only (`omega`, `simp`, `decide`).
-/
import MeddlyModel.Gen.Levels

namespace Meddly.Levels
open Gen.Levels

/-! ## Vocabulary -/

/-- `posOfLevel(rel = true, k)` of harness/common.h, literally: `k > 0 ? 2*k : -2*k-1`.
    (Meaningful for node levels k ≠ 0; the C++ expression gives -1 for k = 0.) -/
def posOf (k : Int) : Int := if k > 0 then 2 * k else -2 * k - 1

/-- position of a relation level, terminal level 0 included: unprimed k ↦ 2k, primed -k ↦ 2k-1, 0 ↦ 0
    (header comment of Core/DD.lean). -/
def pos (k : Int) : Int := if k > 0 then 2 * k else if k < 0 then -2 * k - 1 else 0

/-- the level at a position ≥ 0 (inverse of `pos`) -/
def levelOfPos (p : Int) : Int := if p % 2 = 0 then p / 2 else -((p + 1) / 2)

/-- levels of every forest MEDDLY can build are far inside this bound (a domain has < 2^30 variables) -/
def Bounded (k : Int) : Prop := -1073741824 < k ∧ k < 1073741824

instance (k : Int) : Decidable (Bounded k) := by unfold Bounded; exact inferInstance

theorem pos_eq_posOf (k : Int) (h : k ≠ 0) : pos k = posOf k := by
  unfold pos posOf; omega

theorem pos_nonneg (k : Int) : 0 ≤ pos k := by unfold pos; omega

theorem pos_eq_zero (k : Int) : pos k = 0 ↔ k = 0 := by unfold pos; omega

theorem posOf_pos (k : Int) (h : k ≠ 0) : 1 ≤ posOf k := by unfold posOf; omega

/-! ## Auxiliary: the helpers -/

theorem ite_prop (c : Prop) [Decidable c] (p q : Prop) : (if c then p else q) ↔ ((c → p) ∧ (¬ c → q)) := by
  split <;> simp [*]

theorem ABS_eq (k : Int) : ABS k = if k < 0 then -k else k := rfl

theorem ABS_natAbs (k : Int) : ABS k = k.natAbs := by unfold ABS; omega

theorem MAX_eq_max (a b : Int) : MAX a b = max a b := by unfold MAX; omega

/-! ## Non-vacuity: the generated functions compute what the C++ computes (values printed by the real
    inline functions, harness family `gen`) -/

example : MXD.downLevel 3 = -3 ∧ MXD.downLevel (-3) = 2 ∧ MXD.downLevel (-1) = 0 := by decide
example : MXD.upLevel 3 = -4 ∧ MXD.upLevel (-3) = 3 ∧ MXD.upLevel 0 = -1 := by decide
example : MXD.topLevel 3 (-3) = 3 ∧ MXD.topLevel (-4) 3 = -4 ∧ MXD.topLevel (-2) (-2) = -2 := by decide
example : MXD.topUnprimed (-4) 3 = 4 ∧ MXD.unprimedOfLevel (-7) = 7 ∧ MXD.primedOfLevel 7 = -7
    ∧ MXD.primedOfLevel (-7) = -7 := by decide
example : isLevelAbove 3 (-3) = true ∧ isLevelAbove (-3) 3 = false ∧ isLevelAbove (-4) 3 = true
    ∧ isLevelAbove 2 2 = false ∧ isLevelAbove 1 0 = true ∧ isLevelAbove (-1) 0 = true := by decide
example : MDD.downLevel 5 = 4 ∧ MDD.upLevel 5 = 6 ∧ MDD.topLevel 2 7 = 7 := by decide
example : pos 3 = 6 ∧ pos (-3) = 5 ∧ pos 1 = 2 ∧ pos (-1) = 1 ∧ pos 0 = 0 ∧ posOf (-1) = 1 ∧ posOf 1 = 2 := by decide
example : (List.range 9).map (fun p : Nat => levelOfPos p) = [0, -1, 1, -2, 2, -3, 3, -4, 4] := by decide
/-- the hypothesis `Bounded` is not vacuous and the `_defined` predicates are not trivially true:
    `ABS(INT_MIN)` and `MDD_levels::upLevel(INT_MAX)` overflow -/
example : Bounded 40 ∧ Bounded (-1073741823) ∧ ¬ ABS_defined (-2147483648) ∧ ABS_defined (-2147483647)
    ∧ ¬ MDD.upLevel_defined 2147483647 ∧ ¬ MXD.downLevel_defined (-2147483648) := by decide

/-! ## Property theorems -/

/-- **No overflow.**  For levels with |k| < 2^30 no signed operation inside any of the translated functions
    overflows: the C++ functions are defined there and return the values of the generated Lean functions. -/
theorem defined_of_bounded (k k1 k2 : Int) (h : Bounded k) (h1 : Bounded k1) (h2 : Bounded k2) :
    ABS_defined k ∧ MAX_defined k1 k2 ∧ isLevelAbove_defined k1 k2 ∧
    MDD.downLevel_defined k ∧ MDD.upLevel_defined k ∧ MDD.topLevel_defined k1 k2 ∧
    MXD.downLevel_defined k ∧ MXD.upLevel_defined k ∧ MXD.topLevel_defined k1 k2 ∧
    MXD.topUnprimed_defined k1 k2 ∧ MXD.unprimedOfLevel_defined k ∧ MXD.primedOfLevel_defined k := by
  unfold Bounded at h h1 h2
  -- independent of the shape of the generated predicates: unfold everything, split, linear arithmetic
  simp only [ABS_defined, MAX_defined, isLevelAbove_defined, MDD.downLevel_defined, MDD.upLevel_defined,
    MDD.topLevel_defined, MXD.downLevel_defined, MXD.upLevel_defined, MXD.topLevel_defined,
    MXD.topUnprimed_defined, MXD.unprimedOfLevel_defined, MXD.primedOfLevel_defined, InInt32, ite_prop]
  and_intros <;> intros <;> first | trivial | (unfold ABS MAX at *; omega) | omega

/-- ... and the results are levels within one step of the bound (so iterating stays inside `int`). -/
theorem results_in_range (k k1 k2 : Int) (h : Bounded k) (h1 : Bounded k1) (h2 : Bounded k2) :
    InInt32 (MXD.downLevel k) ∧ InInt32 (MXD.upLevel k) ∧ Bounded (MXD.topLevel k1 k2) ∧
    Bounded (MXD.topUnprimed k1 k2) ∧ Bounded (MXD.unprimedOfLevel k) ∧ Bounded (MXD.primedOfLevel k) ∧
    InInt32 (MDD.downLevel k) ∧ InInt32 (MDD.upLevel k) ∧ Bounded (MDD.topLevel k1 k2) := by
  unfold Bounded at *
  unfold InInt32 MXD.downLevel MXD.upLevel MXD.topLevel MXD.topUnprimed MXD.unprimedOfLevel MXD.primedOfLevel
    MDD.downLevel MDD.upLevel MDD.topLevel MAX ABS
  omega

/-- **`pos` is injective**: two levels with the same position are the same level. -/
theorem pos_inj (k1 k2 : Int) (h : pos k1 = pos k2) : k1 = k2 := by
  unfold pos at h; omega

/-- **The harness's `posOfLevel` is injective** (on node levels k ≠ 0 -- and even with the level 0, which it
    sends to -1). -/
theorem posOf_inj (k1 k2 : Int) (h : posOf k1 = posOf k2) : k1 = k2 := by
  unfold posOf at h; omega

/-- **`pos` is onto the positions ≥ 0**, with inverse `levelOfPos` (even position 2k: unprimed level k; odd
    position 2k-1: primed level -k): levels and positions are in bijection. -/
theorem pos_levelOfPos (p : Int) (hp : 0 ≤ p) : pos (levelOfPos p) = p := by
  unfold pos levelOfPos; omega

theorem levelOfPos_pos (k : Int) : levelOfPos (pos k) = k := by
  unfold pos levelOfPos; omega

/-- **`MXD_levels::downLevel` is "one position down"**: for every node level k ≠ 0 the level below has
    position `pos k - 1`; in particular below the lowest primed level -1 (position 1) is the terminal level 0. -/
theorem MXD_downLevel_pos (k : Int) (h : k ≠ 0) : pos (MXD.downLevel k) = pos k - 1 := by
  unfold MXD.downLevel pos; omega

/-- the same in the harness's vocabulary: for positions ≥ 2 `posOfLevel` drops by one, and
    `downLevel(-1) = 0`. -/
theorem MXD_downLevel_posOf (k : Int) (h : posOf k ≥ 2) :
    posOf (MXD.downLevel k) = posOf k - 1 := by
  unfold MXD.downLevel posOf at *; omega

theorem MXD_downLevel_bottom : MXD.downLevel (-1) = 0 := by decide

/-- **`MXD_levels::upLevel` is "one position up"**, from the terminal level too (`upLevel(0) = -1`). -/
theorem MXD_upLevel_pos (k : Int) : pos (MXD.upLevel k) = pos k + 1 := by
  unfold MXD.upLevel pos; omega

theorem MXD_upLevel_posOf (k : Int) (h : k ≠ 0) : posOf (MXD.upLevel k) = posOf k + 1 := by
  unfold MXD.upLevel posOf; omega

/-- `upLevel` and `downLevel` are inverse to each other (on node levels). -/
theorem MXD_up_down (k : Int) : MXD.downLevel (MXD.upLevel k) = k ∧ (k ≠ 0 → MXD.upLevel (MXD.downLevel k) = k) := by
  unfold MXD.upLevel MXD.downLevel; omega

/-- **`MXD_levels::topLevel` returns the argument with the larger position.** -/
theorem MXD_topLevel_pos (k1 k2 : Int) :
    pos (MXD.topLevel k1 k2) = max (pos k1) (pos k2) ∧ (MXD.topLevel k1 k2 = k1 ∨ MXD.topLevel k1 k2 = k2) := by
  unfold MXD.topLevel pos ABS MAX; omega

theorem MXD_topLevel_posOf (k1 k2 : Int) :
    posOf (MXD.topLevel k1 k2) = max (posOf k1) (posOf k2) := by
  unfold MXD.topLevel posOf ABS MAX; omega

/-- **`isLevelAbove k1 k2` ⇔ the position of k1 is larger** (relation forests: primed and unprimed levels,
    terminal level included). -/
theorem isLevelAbove_iff_pos (k1 k2 : Int) : isLevelAbove k1 k2 = true ↔ pos k1 > pos k2 := by
  unfold isLevelAbove pos ABS
  repeat' split
  all_goals simp
  all_goals omega

theorem isLevelAbove_iff_posOf (k1 k2 : Int) (h1 : k1 ≠ 0) (h2 : k2 ≠ 0) :
    isLevelAbove k1 k2 = true ↔ posOf k1 > posOf k2 := by
  rw [isLevelAbove_iff_pos, pos_eq_posOf k1 h1, pos_eq_posOf k2 h2]

/-- `isLevelAbove` is a strict total order on levels: irreflexive, transitive, total. -/
theorem isLevelAbove_order (a b c : Int) :
    isLevelAbove a a = false ∧
    (isLevelAbove a b = true → isLevelAbove b c = true → isLevelAbove a c = true) ∧
    (a ≠ b → isLevelAbove a b = true ∨ isLevelAbove b a = true) := by
  refine ⟨?_, ?_, ?_⟩
  · cases h : isLevelAbove a a
    · rfl
    · have := (isLevelAbove_iff_pos a a).mp h; omega
  · intro h1 h2
    have := (isLevelAbove_iff_pos a b).mp h1
    have := (isLevelAbove_iff_pos b c).mp h2
    exact (isLevelAbove_iff_pos a c).mpr (by omega)
  · intro hne
    have : pos a ≠ pos b := fun h => hne (pos_inj a b h)
    rcases Int.lt_or_gt_of_ne this with h | h
    · exact Or.inr ((isLevelAbove_iff_pos b a).mpr h)
    · exact Or.inl ((isLevelAbove_iff_pos a b).mpr h)

/-- **`topUnprimed` is the unprimed level of `topLevel`** (the comment in forest_levels.h: "This is
    ABS(topLevel(k1, k2)) but computed more efficiently"). -/
theorem MXD_topUnprimed_eq (k1 k2 : Int) :
    MXD.topUnprimed k1 k2 = MXD.unprimedOfLevel (MXD.topLevel k1 k2) := by
  unfold MXD.topUnprimed MXD.unprimedOfLevel MXD.topLevel ABS MAX; omega

/-- **`unprimedOfLevel` lands on position 2|k|, `primedOfLevel` on position 2|k|-1** (k ≠ 0), i.e. on the two
    positions of variable |k|; `primedOfLevel` is the level just below `unprimedOfLevel`. -/
theorem MXD_primed_unprimed_pos (k : Int) (h : k ≠ 0) :
    posOf (MXD.unprimedOfLevel k) = 2 * k.natAbs ∧
    posOf (MXD.primedOfLevel k) = 2 * k.natAbs - 1 ∧
    MXD.unprimedOfLevel k > 0 ∧ MXD.primedOfLevel k < 0 ∧
    MXD.primedOfLevel k = MXD.downLevel (MXD.unprimedOfLevel k) := by
  unfold MXD.unprimedOfLevel MXD.primedOfLevel MXD.downLevel posOf ABS; omega

/-- **Set forests (`MDD_levels`): position = level.**  `downLevel`/`upLevel` are ∓1, `topLevel` is the maximum,
    and on levels ≥ 0 `isLevelAbove` is `>`. -/
theorem MDD_levels_pos (k k1 k2 : Int) :
    MDD.downLevel k = k - 1 ∧ MDD.upLevel k = k + 1 ∧ MDD.topLevel k1 k2 = max k1 k2 ∧
    (0 ≤ k1 → 0 ≤ k2 → (isLevelAbove k1 k2 = true ↔ k1 > k2)) := by
  refine ⟨rfl, rfl, MAX_eq_max k1 k2, ?_⟩
  intro h1 h2
  rw [isLevelAbove_iff_pos]; unfold pos; omega

/-- On the unprimed levels of a relation forest `isLevelAbove` and `MXD_levels::topLevel` agree with the
    set-forest versions (an MxD's unprimed levels are ordered like an MDD's levels). -/
theorem MXD_MDD_agree_unprimed (k1 k2 : Int) (h1 : 0 ≤ k1) (h2 : 0 ≤ k2) :
    MXD.topLevel k1 k2 = MDD.topLevel k1 k2 := by
  unfold MXD.topLevel MDD.topLevel ABS MAX; omega

end Meddly.Levels

/-
  #print axioms (Lean 4.33.0) -- no `sorry`, no `native_decide`, no `bv_decide`, no new axiom:

  defined_of_bounded         [propext, Classical.choice, Quot.sound]
  results_in_range           [propext, Classical.choice, Quot.sound]
  pos_inj                    [propext, Quot.sound]
  posOf_inj                  [propext, Quot.sound]
  pos_levelOfPos             [propext, Quot.sound]
  levelOfPos_pos             [propext, Quot.sound]
  MXD_downLevel_pos          [propext, Quot.sound]
  MXD_downLevel_posOf        [propext, Quot.sound]
  MXD_downLevel_bottom       (none)
  MXD_upLevel_pos            [propext, Quot.sound]
  MXD_upLevel_posOf          [propext, Quot.sound]
  MXD_up_down                [propext, Classical.choice, Quot.sound]
  MXD_topLevel_pos           [propext, Classical.choice, Quot.sound]
  MXD_topLevel_posOf         [propext, Quot.sound]
  isLevelAbove_iff_pos       [propext, Classical.choice, Quot.sound]
  isLevelAbove_iff_posOf     [propext, Classical.choice, Quot.sound]
  isLevelAbove_order         [propext, Classical.choice, Quot.sound]
  MXD_topUnprimed_eq         [propext, Quot.sound]
  MXD_primed_unprimed_pos    [propext, Classical.choice, Quot.sound]
  MDD_levels_pos             [propext, Classical.choice, Quot.sound]
  MXD_MDD_agree_unprimed     [propext, Quot.sound]
-/
