/-
  The generic element-wise "apply" on EV+ trees (`EDD`) — the edge-valued
  counterpart of `Ops/Apply.lean` + `Ops/ApplyProofs.lean`.

  MEDDLY's EV+ arithmetic (`operations/arith_templ.h`) recurses on EDGES:
    * `arith_compat` (plus, minus): the edge values of the two operand entries are
      combined and added to the value returned for the children;
    * `arith_factor` / `arith_pushdn` (min, max): the incoming edge values are
      pushed down to the children.
  On trees both are the same function: the value of the operation on an
  assignment only depends on the SUMS of the edge values along the two paths.
  The model therefore pushes the incoming value down uniformly (`cofactorE`),
  combines the accumulated values at the terminals (`applyE2`, `none` = +∞) and
  rebuilds the result bottom-up through `mkNodeEV` (`normalize_evplus` +
  `createReducedNode`), which pulls the minimum up again.

    * `cofactorE_eval`            the pushed-down child edge denotes the cofactor;
    * `applyE2_eval`              pointwise correctness, any three shapes;
    * `applyE2_red`               the result is a reduced edge of the result forest;
    * `applyE2_unique`            hence, by `EDD.canon`, it is THE reduced edge;
    * `plusE`, `minE`, `maxE`     instances; `minusE` is partial (SUBTRACT_INFINITY);
    * `copyMTtoEV`, `copyEVtoMT`  the MT ↔ EV+ copies on trees.
-/
import MeddlyModel.Core.EVNode
import MeddlyModel.Ops.ApplyProofs

namespace Meddly

set_option linter.unusedSectionVars false
set_option linter.unusedVariables false

namespace EDD

/-! ## `cofactorE`: child edges with the incoming value pushed down -/

/-- what a skipped position `k` yields for index `i`: the edge itself at `red`/`none`
    positions; at `ident` positions the edge itself on the diagonal (`i` = the index `fi`
    of the position above; also when that index is unknown), the transparent edge off it -/
def skipE (S : Shape) (k : Nat) (fi : Option Nat) (e : Int × EDD) (i : Nat) : Int × EDD :=
  if S.mode k = .ident then
    (match fi with
     | some j => if i = j then e else dflt
     | none => e)
  else e

/-- child edge `i` of the edge `e` seen from position `k`, when the edge arrived through
    index `fi` of position `k+1`; the incoming edge value is PUSHED DOWN:
    value of the child edge = `e.1` + stored value -/
def cofactorE (S : Shape) (k : Nat) (fi : Option Nat) (e : Int × EDD) (i : Nat) : Int × EDD :=
  match e.2 with
  | .node p cs =>
    if p = k then (e.1 + (cs.getD i dflt).1, (cs.getD i dflt).2)
    else skipE S k fi e i
  | _ => skipE S k fi e i

theorem cofactorE_node (S : Shape) (k : Nat) (fi : Option Nat) (v : Int)
    (cs : List (Int × EDD)) (i : Nat) :
    cofactorE S k fi (v, .node k cs) i = (v + (cs.getD i dflt).1, (cs.getD i dflt).2) := by
  simp [cofactorE]

theorem cofactorE_skip (S : Shape) (k : Nat) (fi : Option Nat) (e : Int × EDD) (i : Nat)
    (hd : e.2.isNodeAt k = false) : cofactorE S k fi e i = skipE S k fi e i := by
  obtain ⟨v, d⟩ := e
  cases d with
  | inf => rfl
  | omega => rfl
  | node p cs =>
    have hp : p ≠ k := by simpa [isNodeAt] using hd
    simp only [cofactorE, if_neg hp]

theorem skipE_cases (S : Shape) (k : Nat) (fi : Option Nat) (e : Int × EDD) (i : Nat) :
    skipE S k fi e i = e ∨ skipE S k fi e i = dflt := by
  unfold skipE
  split
  · cases fi with
    | none => left; rfl
    | some j =>
      show (if i = j then e else dflt) = e ∨ (if i = j then e else dflt) = dflt
      split
      · left; rfl
      · right; rfl
  · left; rfl

theorem evalEdge_pair (S : Shape) (k : Nat) (v : Int) (d : EDD) (x : Assign) :
    evalEdge S k (v, d) x = (eval S k d x).map (· + v) := rfl

/-- adding the incoming value to a child edge = adding it to the child's denotation -/
theorem evalEdge_push (S : Shape) (k : Nat) (v : Int) (c : Int × EDD) (x : Assign) :
    evalEdge S k (v + c.1, c.2) x = (evalEdge S k c x).map (· + v) := by
  unfold evalEdge
  cases eval S k c.2 x with
  | none => rfl
  | some n => simp only [Option.map_some, Option.some.injEq]; omega

/-- `cofactorE` mirrors `evalEdge` (on arbitrary edges): reading the edge from `k+1` is
    reading its pushed-down child edge `x (k+1)` from `k`. -/
theorem cofactorE_eval (S : Shape) (k : Nat) (fi : Option Nat) (e : Int × EDD) (x : Assign)
    (hfi : S.mode (k+1) = .ident → fi = some (x (k+2))) :
    evalEdge S (k+1) e x = evalEdge S k (cofactorE S (k+1) fi e (x (k+1))) x := by
  obtain ⟨v, d⟩ := e
  rcases storedAt_cases (k+1) d with ⟨cs, rfl⟩ | hd
  · rw [cofactorE_node, evalEdge_push, evalEdge_pair, eval_succ_node]
  · rw [cofactorE_skip S (k+1) fi (v, d) _ hd, evalEdge_pair, eval_succ_skip S k x hd]
    unfold skipE
    by_cases hm : S.mode (k+1) = .ident
    · rw [hfi hm, if_pos hm]
      show _ = evalEdge S k (if x (k+1) = x (k+2) then (v, d) else dflt) x
      by_cases he : x (k+1) = x (k+2)
      · have : ¬ (S.mode (k+1) = .ident ∧ x (k+1) ≠ x (k+2)) := fun h => h.2 he
        rw [if_neg this, if_pos he]; rfl
      · rw [if_pos ⟨hm, he⟩, if_neg he, evalEdge_dflt]; rfl
    · have : ¬ (S.mode (k+1) = .ident ∧ x (k+1) ≠ x (k+2)) := fun h => hm h.1
      rw [if_neg this, if_neg hm]; rfl

/-! ## `applyE2` -/

/-- the value of an edge read at position 0: finite iff the target is `omega` -/
def leafValE (e : Int × EDD) : Option Int :=
  match e.2 with
  | .omega => some e.1
  | _ => none

/-- the terminal edge of a value: `+∞ ↦ (0, inf)`, `v ↦ (v, omega)` -/
def ofOpt : Option Int → Int × EDD
  | none => (0, .inf)
  | some v => (v, .omega)

/-- binary element-wise apply on EV+ edges, read from position `k` downwards: values are
    pushed down (`cofactorE`), the accumulated values are combined by `f` at the terminals,
    the result is rebuilt with `mkNodeEV` of the result shape -/
def applyE2 (Sa Sb Sc : Shape) (f : Option Int → Option Int → Option Int) :
    Nat → Option Nat → (Int × EDD) → (Int × EDD) → (Int × EDD)
  | 0, _, a, b => ofOpt (f (leafValE a) (leafValE b))
  | k+1, fi, a, b =>
    mkNodeEV Sc (k+1) fi
      ((List.range (Sc.size (k+1))).map fun i =>
        applyE2 Sa Sb Sc f k (some i)
          (cofactorE Sa (k+1) fi a i) (cofactorE Sb (k+1) fi b i))

theorem evalEdge_zero_eq_leafValE (S : Shape) (e : Int × EDD) (x : Assign) :
    evalEdge S 0 e x = leafValE e := by
  obtain ⟨v, d⟩ := e
  cases d with
  | inf => rfl
  | omega => simp [evalEdge, eval, leafValE]
  | node p cs => rfl

theorem evalEdge_ofOpt (S : Shape) (o : Option Int) (x : Assign) :
    evalEdge S 0 (ofOpt o) x = o := by
  cases o with
  | none => rfl
  | some v => simp [ofOpt, evalEdge, eval]

theorem RedEdge_ofOpt (S : Shape) (fi : Option Nat) (o : Option Int) :
    RedEdge S 0 fi (ofOpt o) = true := by
  cases o <;> rfl

theorem applyE2_zero (Sa Sb Sc : Shape) (f : Option Int → Option Int → Option Int)
    (fi : Option Nat) (a b : Int × EDD) :
    applyE2 Sa Sb Sc f 0 fi a b = ofOpt (f (leafValE a) (leafValE b)) := by
  rw [applyE2]

theorem applyE2_succ (Sa Sb Sc : Shape) (f : Option Int → Option Int → Option Int)
    (k : Nat) (fi : Option Nat) (a b : Int × EDD) :
    applyE2 Sa Sb Sc f (k+1) fi a b =
      mkNodeEV Sc (k+1) fi
        ((List.range (Sc.size (k+1))).map fun i =>
          applyE2 Sa Sb Sc f k (some i)
            (cofactorE Sa (k+1) fi a i) (cofactorE Sb (k+1) fi b i)) := by
  rw [applyE2]

/-! ### `mkNodeEV` stays below its position -/

theorem Below_omega (k : Nat) : Below k .omega := Nat.zero_le k

theorem Below_ofOpt (k : Nat) (o : Option Int) : Below k (ofOpt o).2 := by
  cases o
  · exact Below_inf k
  · exact Below_omega k

theorem mkNodeEV_Below (S : Shape) (k : Nat) (fi : Option Nat) (cs : List (Int × EDD))
    (hb : ∀ e, e ∈ cs → Below k e.2) : Below (k+1) (mkNodeEV S (k+1) fi cs).2 := by
  have hbn : ∀ m j, Below (k+1) ((evNorm m cs).getD j dflt).2 := by
    intro m j
    rw [getD_evNorm_snd]
    by_cases hjl : j < cs.length
    · exact (hb _ (getD_mem cs j dflt hjl)).mono (Nat.le_succ k)
    · rw [List.getD_eq_getElem?_getD, List.getElem?_eq_none (by omega)]; exact Below_inf _
  rcases mkNodeEV_cases S (k+1) fi cs with ⟨_, hr⟩ | ⟨m, _, hcase⟩
  · rw [hr]; exact Below_inf _
  · rcases hcase with ⟨_, _, hr⟩ | ⟨_, i, _, _, hr⟩ | ⟨hr, _, _⟩ <;> rw [hr]
    · rw [headD_eq_getD']; exact hbn m 0
    · exact hbn m i
    · exact Nat.le_refl (k+1)

theorem applyE2_Below (Sa Sb Sc : Shape) (f : Option Int → Option Int → Option Int) :
    ∀ (k : Nat) (fi : Option Nat) (a b : Int × EDD),
      Below k (applyE2 Sa Sb Sc f k fi a b).2 := by
  intro k
  induction k with
  | zero =>
    intro fi a b
    rw [applyE2_zero]; exact Below_ofOpt 0 _
  | succ k ih =>
    intro fi a b
    rw [applyE2_succ]
    apply mkNodeEV_Below
    intro e he
    obtain ⟨i, _, rfl⟩ := List.mem_map.mp he
    exact ih _ _ _

/-! ### Correctness -/

/-- `applyE2 f` denotes the pointwise `f` of the operands' denotations (`none` = +∞).
    No hypothesis on the operand edges or on `Sa`, `Sb` is needed: `cofactorE` mirrors
    `evalEdge` on arbitrary edges. -/
theorem applyE2_eval (Sa Sb Sc : Shape) (f : Option Int → Option Int → Option Int) :
    ∀ (k : Nat) (fi : Option Nat) (a b : Int × EDD) (x : Assign),
      k ≤ Sc.top → Assign.Valid Sc x →
      (Sa.mode k = .ident → fi = some (x (k+1))) →
      (Sb.mode k = .ident → fi = some (x (k+1))) →
      (Sc.mode k = .ident → fi = some (x (k+1))) →
      evalEdge Sc k (applyE2 Sa Sb Sc f k fi a b) x
        = f (evalEdge Sa k a x) (evalEdge Sb k b x) := by
  intro k
  induction k with
  | zero =>
    intro fi a b x _ _ _ _ _
    rw [applyE2_zero, evalEdge_ofOpt, evalEdge_zero_eq_leafValE, evalEdge_zero_eq_leafValE]
  | succ k ih =>
    intro fi a b x hk hx ha hb hc
    have hxk : x (k+1) < Sc.size (k+1) := hx (k+1) (by omega) hk
    rw [applyE2_succ,
      mkNodeEV_eval_child Sc k fi _ x hk (DD.length_map_range _ _) hx
        (fun e h => by
          obtain ⟨i, _, rfl⟩ := List.mem_map.mp h
          exact applyE2_Below Sa Sb Sc f k _ _ _) hc,
      DD.getD_map_range _ _ _ hxk,
      ih (some (x (k+1))) _ _ x (by omega) hx (fun _ => rfl) (fun _ => rfl) (fun _ => rfl),
      ← cofactorE_eval Sa k fi a x ha, ← cofactorE_eval Sb k fi b x hb]

/-- The result of `applyE2` is a reduced edge of the result forest. -/
theorem applyE2_red (Sa Sb Sc : Shape) (f : Option Int → Option Int → Option Int)
    (hSc : Sc.WF) :
    ∀ (k : Nat) (fi : Option Nat) (a b : Int × EDD),
      (fi = none → Sc.mode k ≠ .ident) →
      RedEdge Sc k fi (applyE2 Sa Sb Sc f k fi a b) = true := by
  intro k
  induction k with
  | zero =>
    intro fi a b _
    rw [applyE2_zero]; exact RedEdge_ofOpt Sc fi _
  | succ k ih =>
    intro fi a b hfi
    rw [applyE2_succ]
    apply mkNodeEV_red Sc hSc k fi _ (DD.length_map_range _ _) _ hfi
    intro i hi
    rw [DD.length_map_range] at hi
    rw [DD.getD_map_range _ _ _ hi]
    exact ih (some i) _ _ (fun h => by cases h)

/-! ## Total instances: plus, min, max -/

/-- `+` on values with `+∞` (`none`): `+∞` is absorbing -/
def plusO : Option Int → Option Int → Option Int
  | some p, some q => some (p + q)
  | _, _ => none

/-- `min` on values with `+∞`: `+∞` is the neutral element -/
def minO : Option Int → Option Int → Option Int
  | some p, some q => some (min p q)
  | some p, none => some p
  | none, some q => some q
  | none, none => none

/-- `max` on values with `+∞`: `+∞` is the top -/
def maxO : Option Int → Option Int → Option Int
  | some p, some q => some (max p q)
  | _, _ => none

section Instances
variable (Sa Sb Sc : Shape)

/-- EV+ `PLUS` (`arith_compat<EdgeOp_plus, evplus_plus>`) -/
def plusE (a b : Int × EDD) : Int × EDD := applyE2 Sa Sb Sc plusO Sc.top none a b
/-- EV+ `MINIMUM` (`arith_factor<EdgeOp_plus, evplus_min>`) -/
def minE (a b : Int × EDD) : Int × EDD := applyE2 Sa Sb Sc minO Sc.top none a b
/-- EV+ `MAXIMUM` (`arith_factor<EdgeOp_plus, evplus_max>`) -/
def maxE (a b : Int × EDD) : Int × EDD := applyE2 Sa Sb Sc maxO Sc.top none a b

end Instances

/-! ## The partial instance: minus -/

/-- all results, or the first error -/
def seqE {β : Type} : List (Except String β) → Except String (List β)
  | [] => .ok []
  | .error s :: _ => .error s
  | .ok v :: rest =>
    match seqE rest with
    | .ok vs => .ok (v :: vs)
    | .error s => .error s

theorem seqE_error_mem {β : Type} (l : List (Except String β)) (s : String)
    (h : seqE l = .error s) : .error s ∈ l := by
  induction l with
  | nil => simp [seqE] at h
  | cons e rest ih =>
    cases e with
    | error s' =>
      simp only [seqE, Except.error.injEq] at h
      rw [h]; exact List.mem_cons_self ..
    | ok v =>
      simp only [seqE] at h
      cases hr : seqE rest with
      | ok vs => rw [hr] at h; cases h
      | error s' =>
        rw [hr] at h
        simp only [Except.error.injEq] at h
        subst h
        exact List.mem_cons_of_mem _ (ih hr)

theorem seqE_error_of_mem {β : Type} (l : List (Except String β)) (s : String)
    (h : .error s ∈ l) : ∃ s', seqE l = .error s' := by
  induction l with
  | nil => cases h
  | cons e rest ih =>
    cases e with
    | error s' => exact ⟨s', rfl⟩
    | ok v =>
      rcases List.mem_cons.mp h with h | h
      · cases h
      · obtain ⟨s', hs'⟩ := ih h
        exact ⟨s', by simp only [seqE, hs']⟩

/-- if every successful element is the value of `h`, a successful sequence is `map h` -/
theorem seqE_map_ok {β : Type} (l : List Nat) (g : Nat → Except String β) (h : Nat → β)
    (hg : ∀ i, i ∈ l → ∀ r, g i = .ok r → r = h i) (cs : List β)
    (hs : seqE (l.map g) = .ok cs) : cs = l.map h := by
  induction l generalizing cs with
  | nil => simp only [List.map_nil, seqE, Except.ok.injEq] at hs; rw [← hs]; rfl
  | cons i rest ih =>
    rw [List.map_cons] at hs
    cases hgi : g i with
    | error s => rw [hgi] at hs; simp [seqE] at hs
    | ok v =>
      rw [hgi] at hs
      simp only [seqE] at hs
      cases hr : seqE (rest.map g) with
      | error s => rw [hr] at hs; cases hs
      | ok vs =>
        rw [hr] at hs
        simp only [Except.ok.injEq] at hs
        rw [← hs, List.map_cons, hg i (List.mem_cons_self ..) v hgi,
          ih (fun j hj => hg j (List.mem_cons_of_mem _ hj)) vs hr]

instance decEqExcept {β : Type} [DecidableEq β] : DecidableEq (Except String β)
  | .ok a, .ok b =>
    if h : a = b then isTrue (by rw [h]) else isFalse (by intro e; cases e; exact h rfl)
  | .error s, .error t =>
    if h : s = t then isTrue (by rw [h]) else isFalse (by intro e; cases e; exact h rfl)
  | .ok _, .error _ => isFalse (by intro e; cases e)
  | .error _, .ok _ => isFalse (by intro e; cases e)

/-- `-` on values with `+∞`, where it is defined (finite subtrahend); `+∞ - q = +∞` -/
def minusO : Option Int → Option Int → Option Int
  | p, some q => p.map (· - q)
  | _, none => none

/-- `evplus_minus::apply` on accumulated terminal values -/
def minusLeaf (a b : Int × EDD) : Except String (Int × EDD) :=
  match leafValE b with
  | none => .error "SUBTRACT_INFINITY"
  | some q => .ok (ofOpt ((leafValE a).map (· - q)))

/-- EV+ `MINUS` (`arith_compat<EdgeOp_plus, evplus_minus>`), without the shortcuts:
    fails when a terminal pair with an infinite subtrahend is reached -/
def minusRec (Sa Sb Sc : Shape) :
    Nat → Option Nat → (Int × EDD) → (Int × EDD) → Except String (Int × EDD)
  | 0, _, a, b => minusLeaf a b
  | k+1, fi, a, b =>
    match seqE ((List.range (Sc.size (k+1))).map fun i =>
        minusRec Sa Sb Sc k (some i)
          (cofactorE Sa (k+1) fi a i) (cofactorE Sb (k+1) fi b i)) with
    | .ok cs => .ok (mkNodeEV Sc (k+1) fi cs)
    | .error s => .error s

/-- the pairs of accumulated terminal values visited by the recursion from position `k`
    (`sz` = the sizes of the result forest) -/
def leafPairsE (Sa Sb : Shape) (sz : Nat → Nat) :
    Nat → Option Nat → (Int × EDD) → (Int × EDD) → List (Option Int × Option Int)
  | 0, _, a, b => [(leafValE a, leafValE b)]
  | k+1, fi, a, b =>
    (List.range (sz (k+1))).flatMap fun i =>
      leafPairsE Sa Sb sz k (some i)
        (cofactorE Sa (k+1) fi a i) (cofactorE Sb (k+1) fi b i)

theorem minusRec_zero (Sa Sb Sc : Shape) (fi : Option Nat) (a b : Int × EDD) :
    minusRec Sa Sb Sc 0 fi a b = minusLeaf a b := by
  rw [minusRec]

theorem minusRec_succ (Sa Sb Sc : Shape) (k : Nat) (fi : Option Nat) (a b : Int × EDD) :
    minusRec Sa Sb Sc (k+1) fi a b =
      match seqE ((List.range (Sc.size (k+1))).map fun i =>
          minusRec Sa Sb Sc k (some i)
            (cofactorE Sa (k+1) fi a i) (cofactorE Sb (k+1) fi b i)) with
      | .ok cs => .ok (mkNodeEV Sc (k+1) fi cs)
      | .error s => .error s := by
  rw [minusRec]

theorem minusLeaf_ok (a b r : Int × EDD) (h : minusLeaf a b = .ok r) :
    r = ofOpt (minusO (leafValE a) (leafValE b)) := by
  unfold minusLeaf at h
  cases hb : leafValE b with
  | none => rw [hb] at h; cases h
  | some q =>
    rw [hb] at h
    simp only [Except.ok.injEq] at h
    rw [← h]; rfl

theorem minusLeaf_error_iff (a b : Int × EDD) (s : String) :
    minusLeaf a b = .error s ↔ leafValE b = none ∧ s = "SUBTRACT_INFINITY" := by
  unfold minusLeaf
  cases hb : leafValE b with
  | none =>
    simp only [Except.error.injEq, true_and]
    exact ⟨fun h => h.symm, fun h => h.symm⟩
  | some q => simp

/-- a successful `minusRec` is `applyE2 minusO` -/
theorem minusRec_ok (Sa Sb Sc : Shape) :
    ∀ (k : Nat) (fi : Option Nat) (a b r : Int × EDD),
      minusRec Sa Sb Sc k fi a b = .ok r → r = applyE2 Sa Sb Sc minusO k fi a b := by
  intro k
  induction k with
  | zero =>
    intro fi a b r h
    rw [minusRec_zero] at h
    rw [applyE2_zero]; exact minusLeaf_ok a b r h
  | succ k ih =>
    intro fi a b r h
    rw [minusRec_succ] at h
    rw [applyE2_succ]
    split at h
    · rename_i cs hcs
      simp only [Except.ok.injEq] at h
      rw [← h, seqE_map_ok _ _ _ (fun i _ r hr => ih (some i) _ _ r hr) cs hcs]
    · cases h

/-- the only error is `SUBTRACT_INFINITY` -/
theorem minusRec_error_msg (Sa Sb Sc : Shape) :
    ∀ (k : Nat) (fi : Option Nat) (a b : Int × EDD) (s : String),
      minusRec Sa Sb Sc k fi a b = .error s → s = "SUBTRACT_INFINITY" := by
  intro k
  induction k with
  | zero =>
    intro fi a b s h
    rw [minusRec_zero] at h
    exact ((minusLeaf_error_iff a b s).mp h).2
  | succ k ih =>
    intro fi a b s h
    rw [minusRec_succ] at h
    split at h
    · cases h
    · rename_i s' hs'
      simp only [Except.error.injEq] at h
      subst h
      obtain ⟨i, _, hi⟩ := List.mem_map.mp (seqE_error_mem _ _ hs')
      exact ih (some i) _ _ _ hi

/-- `minusRec` fails iff some visited terminal pair has an infinite subtrahend. -/
theorem minusRec_error_iff (Sa Sb Sc : Shape) :
    ∀ (k : Nat) (fi : Option Nat) (a b : Int × EDD),
      minusRec Sa Sb Sc k fi a b = .error "SUBTRACT_INFINITY" ↔
        ∃ p, p ∈ leafPairsE Sa Sb Sc.size k fi a b ∧ p.2 = none := by
  intro k
  induction k with
  | zero =>
    intro fi a b
    rw [minusRec_zero, minusLeaf_error_iff, leafPairsE]
    simp
  | succ k ih =>
    intro fi a b
    rw [minusRec_succ, leafPairsE]
    constructor
    · intro h
      split at h
      · cases h
      · rename_i s' hs'
        simp only [Except.error.injEq] at h
        subst h
        obtain ⟨i, hi, hei⟩ := List.mem_map.mp (seqE_error_mem _ _ hs')
        obtain ⟨p, hp, hp2⟩ := (ih (some i) _ _).mp hei
        exact ⟨p, List.mem_flatMap.mpr ⟨i, hi, hp⟩, hp2⟩
    · rintro ⟨p, hp, hp2⟩
      obtain ⟨i, hi, hpi⟩ := List.mem_flatMap.mp hp
      have hei := (ih (some i) _ _).mpr ⟨p, hpi, hp2⟩
      obtain ⟨s', hs'⟩ := seqE_error_of_mem _ _
        (List.mem_map.mpr ⟨i, hi, hei⟩ :
          (Except.error "SUBTRACT_INFINITY" : Except String (Int × EDD)) ∈
            (List.range (Sc.size (k+1))).map fun i =>
              minusRec Sa Sb Sc k (some i)
                (cofactorE Sa (k+1) fi a i) (cofactorE Sb (k+1) fi b i))
      have hmsg : s' = "SUBTRACT_INFINITY" := by
        obtain ⟨j, _, hj⟩ := List.mem_map.mp (seqE_error_mem _ _ hs')
        exact minusRec_error_msg Sa Sb Sc k (some j) _ _ _ hj
      rw [hs', hmsg]

/-- The visited terminal pairs are exactly the pairs of operand values on the valid
    assignments (that respect the arriving index). -/
theorem mem_leafPairsE_iff (Sa Sb Sc : Shape) (hSc : Sc.WF) :
    ∀ (k : Nat) (fi : Option Nat) (a b : Int × EDD) (p : Option Int × Option Int),
      k ≤ Sc.top →
      (∀ j, fi = some j → j < Sc.size (k+1)) →
      (Sa.mode k = .ident → fi ≠ none) → (Sb.mode k = .ident → fi ≠ none) →
      (p ∈ leafPairsE Sa Sb Sc.size k fi a b ↔
        ∃ x, Assign.Valid Sc x ∧ (∀ j, fi = some j → x (k+1) = j) ∧
          p = (evalEdge Sa k a x, evalEdge Sb k b x)) := by
  intro k
  induction k with
  | zero =>
    intro fi a b p _ hfi _ _
    rw [leafPairsE, List.mem_singleton]
    constructor
    · intro hp
      obtain ⟨x, hx, hf, _⟩ :=
        DD.exists_fix Sc 1 fi hfi (fun _ => 0) (Assign.valid_const_zero hSc)
      exact ⟨x, hx, hf, by rw [evalEdge_zero_eq_leafValE, evalEdge_zero_eq_leafValE]; exact hp⟩
    · rintro ⟨x, _, _, hp⟩
      rw [evalEdge_zero_eq_leafValE, evalEdge_zero_eq_leafValE] at hp
      exact hp
  | succ k ih =>
    intro fi a b p hk hfi ha hb
    have hside : ∀ (S : Shape), (S.mode (k+1) = .ident → fi ≠ none) → ∀ x : Assign,
        (∀ j, fi = some j → x (k+2) = j) → S.mode (k+1) = .ident → fi = some (x (k+2)) := by
      intro S hS x hf hm
      cases hfi' : fi with
      | none => exact absurd hfi' (hS hm)
      | some j => rw [hf j hfi']
    rw [leafPairsE, List.mem_flatMap]
    constructor
    · rintro ⟨i, hi, hp⟩
      rw [List.mem_range] at hi
      obtain ⟨x, hx, hxi, hpx⟩ := (ih (some i) _ _ p (by omega)
        (fun j h => by cases h; exact hi) (fun _ h => by cases h) (fun _ h => by cases h)).mp hp
      have hxi' : x (k+1) = i := hxi i rfl
      obtain ⟨x', hx', hf', hsame⟩ := DD.exists_fix Sc (k+2) fi hfi x hx
      have hk1 : x' (k+1) = i := by rw [hsame (k+1) (by omega)]; exact hxi'
      refine ⟨x', hx', hf', ?_⟩
      rw [cofactorE_eval Sa k fi a x' (hside Sa ha x' hf'),
        cofactorE_eval Sb k fi b x' (hside Sb hb x' hf'), hk1, hpx]
      congr 1
      · apply evalEdge_congr
        · intro q hq; exact (hsame q (by omega)).symm
        · intro _; exact (hsame (k+1) (by omega)).symm
      · apply evalEdge_congr
        · intro q hq; exact (hsame q (by omega)).symm
        · intro _; exact (hsame (k+1) (by omega)).symm
    · rintro ⟨x, hx, hf, hp⟩
      have hxk : x (k+1) < Sc.size (k+1) := hx (k+1) (by omega) hk
      refine ⟨x (k+1), List.mem_range.mpr hxk, ?_⟩
      apply (ih (some (x (k+1))) _ _ p (by omega)
        (fun j h => by cases h; exact hxk) (fun _ h => by cases h) (fun _ h => by cases h)).mpr
      refine ⟨x, hx, (fun j h => by cases h; rfl), ?_⟩
      rw [hp, cofactorE_eval Sa k fi a x (hside Sa ha x hf),
        cofactorE_eval Sb k fi b x (hside Sb hb x hf)]

theorem minusRec_ok_or_error (Sa Sb Sc : Shape) (k : Nat) (fi : Option Nat) (a b : Int × EDD) :
    (∃ r, minusRec Sa Sb Sc k fi a b = .ok r) ∨
    minusRec Sa Sb Sc k fi a b = .error "SUBTRACT_INFINITY" := by
  cases h : minusRec Sa Sb Sc k fi a b with
  | ok r => left; exact ⟨r, rfl⟩
  | error s => right; rw [minusRec_error_msg Sa Sb Sc k fi a b s h]

/-- EV+ `MINUS` on whole forest edges -/
def minusE (Sa Sb Sc : Shape) (a b : Int × EDD) : Except String (Int × EDD) :=
  minusRec Sa Sb Sc Sc.top none a b

/-! ## MT ↔ EV+ copies on trees -/

/-- copy of a multi-terminal integer tree into an EV+ forest (`copy_MT` with an EV+ target):
    the terminal value `v` becomes the FINITE value `v` (also the transparent 0) -/
def copyMTtoEV (Sa Sc : Shape) (za : Int) : Nat → Option Nat → DD Int → Int × EDD
  | 0, _, a => (DD.leafVal za a, .omega)
  | k+1, fi, a =>
    mkNodeEV Sc (k+1) fi
      ((List.range (Sc.size (k+1))).map fun i =>
        copyMTtoEV Sa Sc za k (some i) (DD.cofactor Sa za (k+1) fi a i))

/-- copy of an EV+ edge into a multi-terminal integer forest (`copy_EV<EdgeOp_plus>`, the
    push-down copy): a finite value `v` becomes the terminal `v`; `+∞` becomes the chosen
    value `infv` (the source has no case for it) -/
def copyEVtoMT (Sa Sc : Shape) (zc infv : Int) : Nat → Option Nat → (Int × EDD) → DD Int
  | 0, _, a => .leaf ((leafValE a).getD infv)
  | k+1, fi, a =>
    DD.mkNode Sc zc (k+1) fi
      ((List.range (Sc.size (k+1))).map fun i =>
        copyEVtoMT Sa Sc zc infv k (some i) (cofactorE Sa (k+1) fi a i))

theorem copyMTtoEV_succ (Sa Sc : Shape) (za : Int) (k : Nat) (fi : Option Nat) (a : DD Int) :
    copyMTtoEV Sa Sc za (k+1) fi a =
      mkNodeEV Sc (k+1) fi
        ((List.range (Sc.size (k+1))).map fun i =>
          copyMTtoEV Sa Sc za k (some i) (DD.cofactor Sa za (k+1) fi a i)) := by
  rw [copyMTtoEV]

theorem copyEVtoMT_succ (Sa Sc : Shape) (zc infv : Int) (k : Nat) (fi : Option Nat)
    (a : Int × EDD) :
    copyEVtoMT Sa Sc zc infv (k+1) fi a =
      DD.mkNode Sc zc (k+1) fi
        ((List.range (Sc.size (k+1))).map fun i =>
          copyEVtoMT Sa Sc zc infv k (some i) (cofactorE Sa (k+1) fi a i)) := by
  rw [copyEVtoMT]

theorem copyMTtoEV_Below (Sa Sc : Shape) (za : Int) :
    ∀ (k : Nat) (fi : Option Nat) (a : DD Int), Below k (copyMTtoEV Sa Sc za k fi a).2 := by
  intro k
  induction k with
  | zero => intro fi a; exact Below_omega 0
  | succ k ih =>
    intro fi a
    rw [copyMTtoEV_succ]
    apply mkNodeEV_Below
    intro e he
    obtain ⟨i, _, rfl⟩ := List.mem_map.mp he
    exact ih _ _

theorem copyEVtoMT_Below (Sa Sc : Shape) (zc infv : Int) :
    ∀ (k : Nat) (fi : Option Nat) (a : Int × EDD),
      DD.Below k (copyEVtoMT Sa Sc zc infv k fi a) := by
  intro k
  induction k with
  | zero => intro fi a; exact DD.Below_leaf 0 _
  | succ k ih =>
    intro fi a
    rw [copyEVtoMT_succ]
    apply DD.mkNode_Below
    intro c hc
    obtain ⟨i, _, rfl⟩ := List.mem_map.mp hc
    exact ih _ _

/-- the EV+ copy of a multi-terminal tree denotes the same (finite) values -/
theorem copyMTtoEV_eval (Sa Sc : Shape) (za : Int) :
    ∀ (k : Nat) (fi : Option Nat) (a : DD Int) (x : Assign),
      k ≤ Sc.top → Assign.Valid Sc x →
      (Sa.mode k = .ident → fi = some (x (k+1))) →
      (Sc.mode k = .ident → fi = some (x (k+1))) →
      evalEdge Sc k (copyMTtoEV Sa Sc za k fi a) x = some (DD.eval Sa za k a x) := by
  intro k
  induction k with
  | zero =>
    intro fi a x _ _ _ _
    rw [DD.eval_zero_eq_leafVal]
    simp [copyMTtoEV, evalEdge, eval]
  | succ k ih =>
    intro fi a x hk hx ha hc
    have hxk : x (k+1) < Sc.size (k+1) := hx (k+1) (by omega) hk
    rw [copyMTtoEV_succ,
      mkNodeEV_eval_child Sc k fi _ x hk (DD.length_map_range _ _) hx
        (fun e h => by
          obtain ⟨i, _, rfl⟩ := List.mem_map.mp h
          exact copyMTtoEV_Below Sa Sc za k _ _) hc,
      DD.getD_map_range _ _ _ hxk,
      ih (some (x (k+1))) _ x (by omega) hx (fun _ => rfl) (fun _ => rfl),
      ← DD.cofactor_eval Sa za k fi a x ha]

/-- the multi-terminal copy of an EV+ edge denotes the same values, `+∞ ↦ infv` -/
theorem copyEVtoMT_eval (Sa Sc : Shape) (zc infv : Int) :
    ∀ (k : Nat) (fi : Option Nat) (a : Int × EDD) (x : Assign),
      k ≤ Sc.top → Assign.Valid Sc x →
      (Sa.mode k = .ident → fi = some (x (k+1))) →
      (Sc.mode k = .ident → fi = some (x (k+1))) →
      DD.eval Sc zc k (copyEVtoMT Sa Sc zc infv k fi a) x = (evalEdge Sa k a x).getD infv := by
  intro k
  induction k with
  | zero =>
    intro fi a x _ _ _ _
    rw [evalEdge_zero_eq_leafValE]
    simp [copyEVtoMT, DD.eval]
  | succ k ih =>
    intro fi a x hk hx ha hc
    have hxk : x (k+1) < Sc.size (k+1) := hx (k+1) (by omega) hk
    rw [copyEVtoMT_succ,
      DD.mkNode_eval Sc zc k fi _ x hk (DD.length_map_range _ _) hx
        (fun c h => by
          obtain ⟨i, _, rfl⟩ := List.mem_map.mp h
          exact copyEVtoMT_Below Sa Sc zc infv k _ _) hc,
      DD.getD_map_range _ _ _ hxk,
      ih (some (x (k+1))) _ x (by omega) hx (fun _ => rfl) (fun _ => rfl),
      ← cofactorE_eval Sa k fi a x ha]

theorem copyMTtoEV_red (Sa Sc : Shape) (za : Int) (hSc : Sc.WF) :
    ∀ (k : Nat) (fi : Option Nat) (a : DD Int),
      (fi = none → Sc.mode k ≠ .ident) →
      RedEdge Sc k fi (copyMTtoEV Sa Sc za k fi a) = true := by
  intro k
  induction k with
  | zero => intro fi a _; rfl
  | succ k ih =>
    intro fi a hfi
    rw [copyMTtoEV_succ]
    apply mkNodeEV_red Sc hSc k fi _ (DD.length_map_range _ _) _ hfi
    intro i hi
    rw [DD.length_map_range] at hi
    rw [DD.getD_map_range _ _ _ hi]
    exact ih (some i) _ (fun h => by cases h)

theorem copyEVtoMT_red (Sa Sc : Shape) (zc infv : Int) (hSc : Sc.WF) :
    ∀ (k : Nat) (fi : Option Nat) (a : Int × EDD),
      (fi = none → Sc.mode k ≠ .ident) →
      DD.Red Sc zc k fi (copyEVtoMT Sa Sc zc infv k fi a) = true := by
  intro k
  induction k with
  | zero => intro fi a _; rfl
  | succ k ih =>
    intro fi a hfi
    rw [copyEVtoMT_succ]
    apply DD.mkNode_red Sc zc hSc k fi _ (DD.length_map_range _ _) _ hfi
    intro i hi
    rw [DD.length_map_range] at hi
    rw [DD.getD_map_range _ _ _ hi]
    exact ih (some i) _ (fun h => by cases h)


end EDD

/-! ## Non-vacuity: concrete shapes and operands -/

namespace EVApplyExamples
open EDD CanonExamples ApplyExamples

/-! (a) fully reduced, three positions of sizes 2, 3, 2 (`CanonExamples.SA`) -/

def xE : EDD := .node 1 [(0, .omega), (2, .omega)]
def yE : EDD := .node 1 [(3, .omega), (0, .omega)]
/-- an ∞ entry -/
def zE : EDD := .node 1 [(0, .omega), (0, .inf)]
/-- `xE` is shared; child 1 skips position 2; an ∞ entry at position 2; root value 1 -/
def aE : Int × EDD := (1, .node 3 [(0, .node 2 [(0, xE), (1, yE), (0, .inf)]), (2, xE)])
/-- negative root value; child 1 is the terminal: skips positions 2 and 1 -/
def bE : Int × EDD := (-2, .node 3 [(0, .node 2 [(1, yE), (0, zE), (0, xE)]), (4, .omega)])
/-- a finite-everywhere subtrahend -/
def cE : Int × EDD := (1, .node 3 [(0, .node 2 [(0, xE), (1, yE), (0, yE)]), (2, xE)])

/-- `aE + bE`, written out -/
def plusAB : Int × EDD :=
  (2, .node 3 [(0, .node 2 [(0, .node 1 [(1, .omega), (0, .omega)]), (1, zE), (0, .inf)]),
               (3, xE)])
/-- `min aE bE`, written out -/
def minAB : Int × EDD :=
  (-2, .node 3 [(0, .node 2 [(1, .node 1 [(2, .omega), (0, .omega)]),
                             (0, .node 1 [(0, .omega), (4, .omega)]),
                             (0, xE)]),
                (4, .omega)])
/-- `max aE bE`, written out -/
def maxAB : Int × EDD :=
  (2, .node 3 [(0, .node 2 [(0, .node 1 [(0, .omega), (1, .omega)]), (3, zE), (0, .inf)]),
               (1, xE)])
/-- `bE - cE`, written out -/
def minusBC : Int × EDD :=
  (-7, .node 3 [(0, .node 2 [(3, .node 1 [(5, .omega), (0, .omega)]),
                             (0, zE),
                             (1, .node 1 [(0, .omega), (5, .omega)])]),
                (4, .node 1 [(2, .omega), (0, .omega)])])

/-! (b) identity-reduced relation (`CanonExamples.SB`: top 4, sizes 2; positions 4, 2 `red`,
    positions 3, 1 `ident`); `ApplyExamples.SF`: the same variables, fully reduced -/

/-- the identity relation with value 2: skips every position, also the `ident` ones
    (value `+∞` off the diagonals) -/
def aI : Int × EDD := (2, .omega)
/-- `x₂ = 0 → x₂' = 1` (value 4), `x₂ = 1 → x₂' = 1` (value 1: child 1 skips the `ident`
    position 3), `x₁' = x₁` (the terminal skips the `ident` position 1) -/
def bI : Int × EDD := (1, .node 4 [(3, .node 3 [(0, .inf), (0, .omega)]), (0, .omega)])
/-- the identity on variable 1, spelled out in a fully reduced EV+ forest -/
def i1E : EDD := .node 2 [(0, .node 1 [(0, .omega), (0, .inf)]), (0, .node 1 [(0, .inf), (0, .omega)])]

end EVApplyExamples

namespace EDD

/-! ## Property theorems -/

/-- (evaluation) For EVERY scalar function `f` on values with `+∞` and every three forests over
    the same variables — whatever their reduction rules — `applyE2 f` evaluates, at every valid
    assignment, to `f` of the operands' values. -/
theorem applyE2_eval_top (Sa Sb Sc : Shape) (f : Option Int → Option Int → Option Int)
    (hSa : Sa.WF) (hSb : Sb.WF) (hSc : Sc.WF) (hac : DD.SameVars Sa Sc) (hbc : DD.SameVars Sb Sc)
    (a b : Int × EDD) (x : Assign) (hx : Assign.Valid Sc x) :
    evalEdge Sc Sc.top (applyE2 Sa Sb Sc f Sc.top none a b) x
      = f (evalEdge Sa Sa.top a x) (evalEdge Sb Sb.top b x) := by
  rw [hac.top, hbc.top]
  exact applyE2_eval Sa Sb Sc f Sc.top none a b x (Nat.le_refl _) hx
    (fun h => absurd h (hSa.top_not_ident (by rw [hac.top]; exact Nat.le_refl _)))
    (fun h => absurd h (hSb.top_not_ident (by rw [hbc.top]; exact Nat.le_refl _)))
    (fun h => absurd h (hSc.top_not_ident (Nat.le_refl _)))

/-- (normal form) The result of `applyE2` is a reduced edge of the RESULT forest: normalised
    edge values (minimum pulled up to the root edge, `+∞` entries with value 0) and the
    forest's reduction rule. -/
theorem applyE2_red_top (Sa Sb Sc : Shape) (f : Option Int → Option Int → Option Int)
    (hSc : Sc.WF) (a b : Int × EDD) :
    RedEdge Sc Sc.top none (applyE2 Sa Sb Sc f Sc.top none a b) = true :=
  applyE2_red Sa Sb Sc f hSc Sc.top none a b (fun _ => hSc.top_not_ident (Nat.le_refl _))

/-- (uniqueness) Whatever traversal the code uses (`arith_compat` combining edge values on the
    way back, `arith_factor`/`arith_pushdn` pushing them down): a reduced edge of the result
    forest that denotes the pointwise function IS the model's result (by `EDD.canon`). -/
theorem applyE2_unique (Sa Sb Sc : Shape) (f : Option Int → Option Int → Option Int)
    (hSa : Sa.WF) (hSb : Sb.WF) (hSc : Sc.WF) (hac : DD.SameVars Sa Sc) (hbc : DD.SameVars Sb Sc)
    (a b r : Int × EDD)
    (hr : RedEdge Sc Sc.top none r = true)
    (hd : ∀ x, Assign.Valid Sc x →
      evalEdge Sc Sc.top r x = f (evalEdge Sa Sa.top a x) (evalEdge Sb Sb.top b x)) :
    r = applyE2 Sa Sb Sc f Sc.top none a b := by
  apply (canon Sc hSc r _ hr (applyE2_red_top Sa Sb Sc f hSc a b)).mp
  intro x hx
  rw [hd x hx, applyE2_eval_top Sa Sb Sc f hSa hSb hSc hac hbc a b x hx]

section Instances
variable {Sa Sb Sc : Shape}

/-- EV+ `PLUS` is pointwise `+`, `+∞` absorbing. -/
theorem evplus_plus_eval (hSa : Sa.WF) (hSb : Sb.WF) (hSc : Sc.WF) (hac : DD.SameVars Sa Sc)
    (hbc : DD.SameVars Sb Sc) (a b : Int × EDD) (x : Assign) (hx : Assign.Valid Sc x) :
    evalEdge Sc Sc.top (plusE Sa Sb Sc a b) x
      = plusO (evalEdge Sa Sa.top a x) (evalEdge Sb Sb.top b x) :=
  applyE2_eval_top Sa Sb Sc plusO hSa hSb hSc hac hbc a b x hx

/-- EV+ `MINIMUM` is pointwise `min`, `+∞` neutral. -/
theorem evplus_min_eval (hSa : Sa.WF) (hSb : Sb.WF) (hSc : Sc.WF) (hac : DD.SameVars Sa Sc)
    (hbc : DD.SameVars Sb Sc) (a b : Int × EDD) (x : Assign) (hx : Assign.Valid Sc x) :
    evalEdge Sc Sc.top (minE Sa Sb Sc a b) x
      = minO (evalEdge Sa Sa.top a x) (evalEdge Sb Sb.top b x) :=
  applyE2_eval_top Sa Sb Sc minO hSa hSb hSc hac hbc a b x hx

/-- EV+ `MAXIMUM` is pointwise `max`, `+∞` the top. -/
theorem evplus_max_eval (hSa : Sa.WF) (hSb : Sb.WF) (hSc : Sc.WF) (hac : DD.SameVars Sa Sc)
    (hbc : DD.SameVars Sb Sc) (a b : Int × EDD) (x : Assign) (hx : Assign.Valid Sc x) :
    evalEdge Sc Sc.top (maxE Sa Sb Sc a b) x
      = maxO (evalEdge Sa Sa.top a x) (evalEdge Sb Sb.top b x) :=
  applyE2_eval_top Sa Sb Sc maxO hSa hSb hSc hac hbc a b x hx

/-- the results of `PLUS`, `MINIMUM`, `MAXIMUM` are reduced edges of the result forest -/
theorem evplus_plus_red (hSc : Sc.WF) (a b : Int × EDD) :
    RedEdge Sc Sc.top none (plusE Sa Sb Sc a b) = true :=
  applyE2_red_top Sa Sb Sc plusO hSc a b

theorem evplus_min_red (hSc : Sc.WF) (a b : Int × EDD) :
    RedEdge Sc Sc.top none (minE Sa Sb Sc a b) = true :=
  applyE2_red_top Sa Sb Sc minO hSc a b

theorem evplus_max_red (hSc : Sc.WF) (a b : Int × EDD) :
    RedEdge Sc Sc.top none (maxE Sa Sb Sc a b) = true :=
  applyE2_red_top Sa Sb Sc maxO hSc a b

end Instances

section ExamplesA
open EVApplyExamples CanonExamples

/-! instances (a): operands are reduced edges; results written out and reduced -/
example : RedEdge SA 3 none aE = true := by decide
example : RedEdge SA 3 none bE = true := by decide
/-- `xE + yE` under `x₃ = 0, x₂ = 0`: values `{1+2, 3-1}`, the minimum 2 is pulled up to the
    root; `yE + zE` keeps the ∞ entry; an ∞ child stays ∞ -/
example : plusE SA SA SA aE bE = plusAB := by decide
example : RedEdge SA 3 none plusAB = true := by decide
/-- `min`: the ∞ entries of `aE` (child 2 of position 2) and of `zE` disappear -/
example : minE SA SA SA aE bE = minAB := by decide
example : RedEdge SA 3 none minAB = true := by decide
example : maxE SA SA SA aE bE = maxAB := by decide
example : RedEdge SA 3 none maxAB = true := by decide
/-- an un-normalised operand (root value spread differently) gives the same result -/
example : plusE SA SA SA (0, .node 3 [(1, .node 2 [(0, xE), (1, yE), (5, .inf)]), (3, xE)]) bE
    = plusAB := by decide
/-- values: `x = (x₁, x₂, x₃) = (1, 1, 0)`: `aE = 1+0+1+0 = 2`, `bE = ∞` -/
example : evalEdge SA 3 aE (fun p => if p = 3 then 0 else 1) = some 2 := by decide
example : evalEdge SA 3 bE (fun p => if p = 3 then 0 else 1) = none := by decide
example : evalEdge SA 3 plusAB (fun p => if p = 3 then 0 else 1) = none := by decide
example : evalEdge SA 3 minAB (fun p => if p = 3 then 0 else 1) = some 2 := by decide

/-- the general theorem applies to the written-out result -/
example (x : Assign) (hx : Assign.Valid SA x) :
    evalEdge SA 3 minAB x = minO (evalEdge SA 3 aE x) (evalEdge SA 3 bE x) := by
  have h := evplus_min_eval SA_WF SA_WF SA_WF ⟨rfl, fun _ => rfl⟩ ⟨rfl, fun _ => rfl⟩ aE bE x hx
  have e : minE SA SA SA aE bE = minAB := by decide
  rw [e] at h
  exact h

end ExamplesA

section ExamplesB
open EVApplyExamples CanonExamples ApplyExamples

/-! instances (b): identity-reduced operands; `aI` skips the `ident` positions 3 and 1,
    `bI` skips the `ident` position 3 below index 1 and the `ident` position 1 -/
example : RedEdge SB 4 none aI = true := by decide
example : RedEdge SB 4 none bI = true := by decide
/-- `+`: finite only where both are: `x₂ = x₂' = 1`, `x₁' = x₁`; below index 1 of position 4
    the 1-singleton at the `ident` position 3 is eliminated again -/
example : plusE SB SB SB aI bI = (3, .node 4 [(0, .inf), (0, .omega)]) := by decide
example : RedEdge SB 4 none (3, .node 4 [(0, .inf), (0, .omega)]) = true := by decide
/-- `min`: the identity expansion of `aI` at position 3 (`[2, ∞]` below index 0) meets the
    stored node `[∞, 4]` of `bI` -/
example : minE SB SB SB aI bI =
    (1, .node 4 [(1, .node 3 [(0, .omega), (2, .omega)]), (0, .omega)]) := by decide
example : RedEdge SB 4 none
    (1, .node 4 [(1, .node 3 [(0, .omega), (2, .omega)]), (0, .omega)]) = true := by decide
/-- same operands, fully reduced result: every identity is spelled out -/
example : minE SB SB SF aI bI =
    (1, .node 4 [(1, .node 3 [(0, i1E), (2, i1E)]), (0, .node 3 [(0, .inf), (0, i1E)])]) := by
  decide
example : RedEdge SF 4 none
    (1, .node 4 [(1, .node 3 [(0, i1E), (2, i1E)]), (0, .node 3 [(0, .inf), (0, i1E)])])
    = true := by decide

end ExamplesB

section Minus
variable {Sa Sb Sc : Shape}

/-- A successful EV+ `MINUS` is pointwise `-` (`+∞ - q = +∞`). -/
theorem evplus_minus_eval (hSa : Sa.WF) (hSb : Sb.WF) (hSc : Sc.WF) (hac : DD.SameVars Sa Sc)
    (hbc : DD.SameVars Sb Sc) (a b r : Int × EDD)
    (h : minusE Sa Sb Sc a b = .ok r) (x : Assign) (hx : Assign.Valid Sc x) :
    evalEdge Sc Sc.top r x = minusO (evalEdge Sa Sa.top a x) (evalEdge Sb Sb.top b x) := by
  rw [minusRec_ok Sa Sb Sc Sc.top none a b r h]
  exact applyE2_eval_top Sa Sb Sc minusO hSa hSb hSc hac hbc a b x hx

/-- A successful EV+ `MINUS` returns a reduced edge of the result forest. -/
theorem evplus_minus_red (hSc : Sc.WF) (a b r : Int × EDD)
    (h : minusE Sa Sb Sc a b = .ok r) : RedEdge Sc Sc.top none r = true := by
  rw [minusRec_ok Sa Sb Sc Sc.top none a b r h]
  exact applyE2_red_top Sa Sb Sc minusO hSc a b

/-- EV+ `MINUS` fails, with `SUBTRACT_INFINITY`, iff some visited terminal pair has an
    infinite subtrahend; there is no other failure. -/
theorem evplus_minus_error_iff (a b : Int × EDD) :
    (minusE Sa Sb Sc a b = .error "SUBTRACT_INFINITY" ↔
      ∃ p, p ∈ leafPairsE Sa Sb Sc.size Sc.top none a b ∧ p.2 = none) ∧
    (∀ s, minusE Sa Sb Sc a b = .error s → s = "SUBTRACT_INFINITY") :=
  ⟨minusRec_error_iff Sa Sb Sc Sc.top none a b, minusRec_error_msg Sa Sb Sc Sc.top none a b⟩

/-- In terms of the denotation: EV+ `MINUS` fails iff the subtrahend is `+∞` on some valid
    assignment (in an identity-reduced forest this includes every off-diagonal assignment of a
    skipped primed level). -/
theorem evplus_minus_error_iff_denot (hSa : Sa.WF) (hSb : Sb.WF) (hSc : Sc.WF)
    (hac : DD.SameVars Sa Sc) (hbc : DD.SameVars Sb Sc) (a b : Int × EDD) :
    minusE Sa Sb Sc a b = .error "SUBTRACT_INFINITY" ↔
      ∃ x, Assign.Valid Sc x ∧ evalEdge Sb Sb.top b x = none := by
  unfold minusE
  rw [minusRec_error_iff, hbc.top]
  have hmem := fun p => mem_leafPairsE_iff Sa Sb Sc hSc Sc.top none a b p (Nat.le_refl _)
    (fun j h => by cases h)
    (fun h => absurd h (hSa.top_not_ident (by rw [hac.top]; exact Nat.le_refl _)))
    (fun h => absurd h (hSb.top_not_ident (by rw [hbc.top]; exact Nat.le_refl _)))
  constructor
  · rintro ⟨p, hp, hp2⟩
    obtain ⟨x, hx, _, hpx⟩ := (hmem p).mp hp
    refine ⟨x, hx, ?_⟩
    rw [hpx] at hp2; exact hp2
  · rintro ⟨x, hx, hb⟩
    exact ⟨_, (hmem _).mpr ⟨x, hx, (fun j h => by cases h), rfl⟩, hb⟩

/-- EV+ `MINUS` succeeds iff the subtrahend is finite on every valid assignment. -/
theorem evplus_minus_ok_iff_denot (hSa : Sa.WF) (hSb : Sb.WF) (hSc : Sc.WF)
    (hac : DD.SameVars Sa Sc) (hbc : DD.SameVars Sb Sc) (a b : Int × EDD) :
    (∃ r, minusE Sa Sb Sc a b = .ok r) ↔
      ∀ x, Assign.Valid Sc x → evalEdge Sb Sb.top b x ≠ none := by
  have hiff := evplus_minus_error_iff_denot hSa hSb hSc hac hbc a b
  constructor
  · rintro ⟨r, hr⟩ x hx hb
    have := hiff.mpr ⟨x, hx, hb⟩
    rw [hr] at this; cases this
  · intro hall
    rcases minusRec_ok_or_error Sa Sb Sc Sc.top none a b with h | h
    · exact h
    · obtain ⟨x, hx, hb⟩ := hiff.mp h
      exact absurd hb (hall x hx)

end Minus

section ExamplesMinus
open EVApplyExamples CanonExamples ApplyExamples

/-- finite subtrahend: succeeds; the ∞ entry of the minuend stays -/
example : minusE SA SA SA bE cE = .ok minusBC := by decide
example : RedEdge SA 3 none minusBC = true := by decide
/-- `bE` is ∞ at `(x₃, x₂, x₁) = (0, 1, 1)`: a visited pair with an infinite subtrahend -/
example : minusE SA SA SA aE bE = .error "SUBTRACT_INFINITY" := by decide
example : (some 2, none) ∈ leafPairsE SA SA SA.size 3 none aE bE := by decide
/-- `∞ - ∞` is an error too (no `x - x = 0` shortcut in the model) -/
example : minusE SA SA SA aE aE = .error "SUBTRACT_INFINITY" := by decide
/-- identity-reduced subtrahend: ∞ off the diagonal of the skipped primed levels -/
example : minusE SB SB SB bI aI = .error "SUBTRACT_INFINITY" := by decide

end ExamplesMinus

section CopyTop
variable {Sa Sc : Shape}

/-- MT → EV+ copy (`conv` pair MT-integer → EV+): the copy evaluates to the FINITE value of
    the source at every valid assignment (the multi-terminal 0 becomes the EV+ value 0,
    not `+∞`), whatever the reduction rules of the two forests. -/
theorem copyMTtoEV_eval_top (za : Int) (hSa : Sa.WF) (hSc : Sc.WF) (hac : DD.SameVars Sa Sc)
    (a : DD Int) (x : Assign) (hx : Assign.Valid Sc x) :
    evalEdge Sc Sc.top (copyMTtoEV Sa Sc za Sc.top none a) x
      = some (DD.eval Sa za Sa.top a x) := by
  rw [hac.top]
  exact copyMTtoEV_eval Sa Sc za Sc.top none a x (Nat.le_refl _) hx
    (fun h => absurd h (hSa.top_not_ident (by rw [hac.top]; exact Nat.le_refl _)))
    (fun h => absurd h (hSc.top_not_ident (Nat.le_refl _)))

/-- EV+ → MT copy (`conv` pair EV+ → MT-integer): the copy evaluates to the source value,
    `+∞ ↦ infv` (the value the implementation happens to produce for `+∞`; a parameter). -/
theorem copyEVtoMT_eval_top (zc infv : Int) (hSa : Sa.WF) (hSc : Sc.WF)
    (hac : DD.SameVars Sa Sc) (a : Int × EDD) (x : Assign) (hx : Assign.Valid Sc x) :
    DD.eval Sc zc Sc.top (copyEVtoMT Sa Sc zc infv Sc.top none a) x
      = (evalEdge Sa Sa.top a x).getD infv := by
  rw [hac.top]
  exact copyEVtoMT_eval Sa Sc zc infv Sc.top none a x (Nat.le_refl _) hx
    (fun h => absurd h (hSa.top_not_ident (by rw [hac.top]; exact Nat.le_refl _)))
    (fun h => absurd h (hSc.top_not_ident (Nat.le_refl _)))

/-- the copies are in the reduced form of the TARGET forest -/
theorem copyMTtoEV_red_top (za : Int) (hSc : Sc.WF) (a : DD Int) :
    RedEdge Sc Sc.top none (copyMTtoEV Sa Sc za Sc.top none a) = true :=
  copyMTtoEV_red Sa Sc za hSc Sc.top none a (fun _ => hSc.top_not_ident (Nat.le_refl _))

theorem copyEVtoMT_red_top (zc infv : Int) (hSc : Sc.WF) (a : Int × EDD) :
    DD.Red Sc zc Sc.top none (copyEVtoMT Sa Sc zc infv Sc.top none a) = true :=
  copyEVtoMT_red Sa Sc zc infv hSc Sc.top none a (fun _ => hSc.top_not_ident (Nat.le_refl _))

/-- a reduced EV+ edge with the (finite) values of the MT source IS the model's copy -/
theorem copyMTtoEV_unique (za : Int) (hSa : Sa.WF) (hSc : Sc.WF) (hac : DD.SameVars Sa Sc)
    (a : DD Int) (r : Int × EDD) (hr : RedEdge Sc Sc.top none r = true)
    (hd : ∀ x, Assign.Valid Sc x → evalEdge Sc Sc.top r x = some (DD.eval Sa za Sa.top a x)) :
    r = copyMTtoEV Sa Sc za Sc.top none a := by
  apply (canon Sc hSc r _ hr (copyMTtoEV_red_top za hSc a)).mp
  intro x hx
  rw [hd x hx, copyMTtoEV_eval_top za hSa hSc hac a x hx]

/-- a reduced MT tree with the values of the EV+ source (`+∞ ↦ infv`) IS the model's copy -/
theorem copyEVtoMT_unique (zc infv : Int) (hSa : Sa.WF) (hSc : Sc.WF) (hac : DD.SameVars Sa Sc)
    (a : Int × EDD) (r : DD Int) (hr : DD.Red Sc zc Sc.top none r = true)
    (hd : ∀ x, Assign.Valid Sc x →
      DD.eval Sc zc Sc.top r x = (evalEdge Sa Sa.top a x).getD infv) :
    r = copyEVtoMT Sa Sc zc infv Sc.top none a := by
  apply (DD.canon Sc zc hSc r _ hr (copyEVtoMT_red_top zc infv hSc a)).mp
  intro x hx
  rw [hd x hx, copyEVtoMT_eval_top zc infv hSa hSc hac a x hx]

/-- MT → EV+ → MT (back into the source forest) gives the reduced tree back, whatever `infv`:
    the EV+ copy of a multi-terminal function is finite everywhere. -/
theorem copy_roundtrip (za infv : Int) (hSa : Sa.WF) (hSc : Sc.WF) (hac : DD.SameVars Sa Sc)
    (hca : DD.SameVars Sc Sa) (a : DD Int) (hr : DD.Red Sa za Sa.top none a = true) :
    copyEVtoMT Sc Sa za infv Sa.top none (copyMTtoEV Sa Sc za Sc.top none a) = a := by
  apply (DD.canon Sa za hSa _ a (copyEVtoMT_red_top za infv hSa _) hr).mp
  intro x hx
  have hx' : Assign.Valid Sc x := by
    intro p h1 h2
    rw [← hac.size p]; exact hx p h1 (by rw [hac.top]; exact h2)
  rw [copyEVtoMT_eval_top za infv hSc hSa hca _ x hx,
    copyMTtoEV_eval_top za hSa hSc hac a x hx']
  rfl

end CopyTop

section ExamplesCopy
open EVApplyExamples CanonExamples ApplyExamples

/-- EV+ → MT: values accumulated along the paths; `+∞ ↦ -1` here -/
example : copyEVtoMT SA SA 0 (-1) 3 none aE =
    .node 3 [.node 2 [.node 1 [.leaf 1, .leaf 3], .node 1 [.leaf 5, .leaf 2], .leaf (-1)],
             .node 1 [.leaf 3, .leaf 5]] := by decide
/-- MT → EV+: the minimum -4 is pulled up; the MT 0 is the finite 0 (edge value 4) -/
example : copyMTtoEV SA SA 0 3 none
      (.node 3 [.node 2 [.node 1 [.leaf 1, .leaf 3], .leaf 0, .leaf (-4)], .leaf 7]) =
    (-4, .node 3 [(0, .node 2 [(5, xE), (4, .omega), (0, .omega)]), (11, .omega)]) := by decide
/-- identity-reduced EV+ relation into a fully reduced MT forest: the identities are spelled
    out, `+∞ ↦ -1` off the diagonals -/
example : copyEVtoMT SB SF 0 (-1) 4 none bI =
    .node 4 [.node 3 [.leaf (-1), .node 2 [.node 1 [.leaf 4, .leaf (-1)],
                                           .node 1 [.leaf (-1), .leaf 4]]],
             .node 3 [.leaf (-1), .node 2 [.node 1 [.leaf 1, .leaf (-1)],
                                           .node 1 [.leaf (-1), .leaf 1]]]] := by decide
/-- identity-reduced into identity-reduced, `+∞ ↦ 0` (the MT transparent value) keeps the shape -/
example : copyEVtoMT SB SB 0 0 4 none bI =
    .node 4 [.node 3 [.leaf 0, .leaf 4], .leaf 1] := by decide

end ExamplesCopy

end EDD

#print axioms EDD.cofactorE_eval
#print axioms EDD.applyE2_eval
#print axioms EDD.applyE2_red
#print axioms EDD.applyE2_eval_top
#print axioms EDD.applyE2_red_top
#print axioms EDD.applyE2_unique
#print axioms EDD.evplus_plus_eval
#print axioms EDD.evplus_min_eval
#print axioms EDD.evplus_max_eval
#print axioms EDD.evplus_minus_eval
#print axioms EDD.evplus_minus_red
#print axioms EDD.evplus_minus_error_iff
#print axioms EDD.evplus_minus_error_iff_denot
#print axioms EDD.evplus_minus_ok_iff_denot
#print axioms EDD.copyMTtoEV_eval_top
#print axioms EDD.copyEVtoMT_eval_top
#print axioms EDD.copyMTtoEV_unique
#print axioms EDD.copyEVtoMT_unique
#print axioms EDD.copy_roundtrip
/- Output (Lean 4.33.0):
'Meddly.EDD.cofactorE_eval' depends on axioms: [propext, Quot.sound]
'Meddly.EDD.applyE2_eval' depends on axioms: [propext, Classical.choice, Quot.sound]
'Meddly.EDD.applyE2_red' depends on axioms: [propext, Classical.choice, Quot.sound]
'Meddly.EDD.applyE2_eval_top' depends on axioms: [propext, Classical.choice, Quot.sound]
'Meddly.EDD.applyE2_red_top' depends on axioms: [propext, Classical.choice, Quot.sound]
'Meddly.EDD.applyE2_unique' depends on axioms: [propext, Classical.choice, Quot.sound]
'Meddly.EDD.evplus_plus_eval' depends on axioms: [propext, Classical.choice, Quot.sound]
'Meddly.EDD.evplus_min_eval' depends on axioms: [propext, Classical.choice, Quot.sound]
'Meddly.EDD.evplus_max_eval' depends on axioms: [propext, Classical.choice, Quot.sound]
'Meddly.EDD.evplus_minus_eval' depends on axioms: [propext, Classical.choice, Quot.sound]
'Meddly.EDD.evplus_minus_red' depends on axioms: [propext, Classical.choice, Quot.sound]
'Meddly.EDD.evplus_minus_error_iff' depends on axioms: [propext, Quot.sound]
'Meddly.EDD.evplus_minus_error_iff_denot' depends on axioms: [propext, Quot.sound]
'Meddly.EDD.evplus_minus_ok_iff_denot' depends on axioms: [propext, Quot.sound]
'Meddly.EDD.copyMTtoEV_eval_top' depends on axioms: [propext, Classical.choice, Quot.sound]
'Meddly.EDD.copyEVtoMT_eval_top' depends on axioms: [propext, Classical.choice, Quot.sound]
'Meddly.EDD.copyMTtoEV_unique' depends on axioms: [propext, Classical.choice, Quot.sound]
'Meddly.EDD.copyEVtoMT_unique' depends on axioms: [propext, Classical.choice, Quot.sound]
'Meddly.EDD.copy_roundtrip' depends on axioms: [propext, Classical.choice, Quot.sound]
-/

end Meddly
