/-
  C16 — misuse is rejected with the documented error and leaves all functions intact.
  This file: vocabulary, the decision table (`precheck`), the documented requirements (`compatible`), the
  unenforced requirements (`lax`) and the evaluation of the whole finite table in the kernel.  The
  property theorems are at the end of `MeddlyModel/Ops/Errors.lean`, which imports this file; the split
  only keeps the ≈ 67 600-row kernel evaluation (minutes of CPU, once) out of the edit-compile cycle of
  everything else.

  `precheck` is transcribed from `/repo/src/operations/*.cc` in the ORDER in which the code performs its
  tests (so the reported code is the code of the first failing test).  `compatible` is an independent,
  declarative statement of each operation's documented requirements (the `_setup(...)` doc strings of
  the factories and the comment block on image/reachability operations in `ops_builtin.h`).
-/
import MeddlyModel.Core.Dump

namespace Meddly
namespace Errors

/-! ## Vocabulary -/

inductive ErrCode where
  | DOMAIN_MISMATCH | TYPE_MISMATCH | NOT_IMPLEMENTED | INVALID_OPERATION | FOREST_MISMATCH
  | VALUE_OVERFLOW | DIVIDE_BY_ZERO | SUBTRACT_INFINITY | INFINITY_DIV_INFINITY | INVALID_ITERATOR
  | INVALID_VARIABLE | INVALID_ASSIGNMENT | INVALID_ARGUMENT | INVALID_LEVEL
  deriving DecidableEq, Repr, Inhabited

def ErrCode.name : ErrCode → String
  | .DOMAIN_MISMATCH => "DOMAIN_MISMATCH" | .TYPE_MISMATCH => "TYPE_MISMATCH"
  | .NOT_IMPLEMENTED => "NOT_IMPLEMENTED" | .INVALID_OPERATION => "INVALID_OPERATION"
  | .FOREST_MISMATCH => "FOREST_MISMATCH" | .VALUE_OVERFLOW => "VALUE_OVERFLOW"
  | .DIVIDE_BY_ZERO => "DIVIDE_BY_ZERO" | .SUBTRACT_INFINITY => "SUBTRACT_INFINITY"
  | .INFINITY_DIV_INFINITY => "INFINITY_DIV_INFINITY" | .INVALID_ITERATOR => "INVALID_ITERATOR"
  | .INVALID_VARIABLE => "INVALID_VARIABLE" | .INVALID_ASSIGNMENT => "INVALID_ASSIGNMENT"
  | .INVALID_ARGUMENT => "INVALID_ARGUMENT" | .INVALID_LEVEL => "INVALID_LEVEL"

inductive Range where | bool | int | real
  deriving DecidableEq, Repr, Inhabited
inductive Lab where | mt | evp | idx | evt
  deriving DecidableEq, Repr, Inhabited
inductive Rule where | fully | quasi | ident
  deriving DecidableEq, Repr, Inhabited

/-- A forest kind as `forest::create` sees it. -/
structure ForestKind where
  rel : Bool
  range : Range
  lab : Lab
  rule : Rule
  deriving DecidableEq, Repr, Inhabited

/-- the combinations `forest::create` (forest.cc) accepts; identity reduction needs a relation -/
def ForestKind.legal (k : ForestKind) : Bool :=
  (match k.lab with
   | .mt => true
   | .evp => k.range == .int
   | .idx => k.range == .int && !k.rel
   | .evt => k.range == .real && k.rel) &&
  (k.rule != .ident || k.rel)

/-- What the constructors can see of a forest: the reduction rule only through `isFullyReduced()`. -/
structure AKind where
  rel : Bool
  range : Range
  lab : Lab
  fully : Bool
  deriving DecidableEq, Repr, Inhabited

def ForestKind.abs (k : ForestKind) : AKind := ⟨k.rel, k.range, k.lab, k.rule == .fully⟩

/-- How the forests of a call are spread over domains, as far as any constructor can tell: all in one
    domain; only the FIRST operand elsewhere (second operand and result share a domain); any other split.
    Only the traditional reachability factories distinguish the last two (they build the image operation
    over (result, relation, result) before the first operand is looked at). -/
inductive Doms where | same | firstOnly | split
  deriving DecidableEq, Repr, Inhabited

/-- all forests of the call share one `domain` object -/
def Doms.allSame : Doms → Bool
  | .same => true
  | _ => false

/-- the second operand and the result share one `domain` object -/
def Doms.bcSame : Doms → Bool
  | .split => false
  | _ => true

def Doms.ofTok : String → Option Doms
  | "1" => some .same
  | "a" => some .firstOnly
  | "0" => some .split
  | _ => none

def AKind.legal (k : AKind) : Bool :=
  match k.lab with
  | .mt => true
  | .evp => k.range == .int
  | .idx => k.range == .int && !k.rel
  | .evt => k.range == .real && k.rel

/-- The catalogue (`builtin_init` in ops_builtin.cc).  Unary operations with a scalar result are
    split by the C++ type of the result. -/
inductive OpKind where
  | UNION | INTERSECTION | DIFFERENCE | CROSS
  | PLUS | MINUS | MULTIPLY | DIVIDE | MODULO | MAXIMUM | MINIMUM | DIST_MIN
  | EQUAL | NOT_EQUAL | LESS_THAN | LESS_THAN_EQUAL | GREATER_THAN | GREATER_THAN_EQUAL
  | PRE_IMAGE | POST_IMAGE | VM_MULTIPLY | MV_MULTIPLY
  | REACHABLE_SATUR_FWD | REACHABLE_SATUR_BWD
  | REACHABLE_TRAD_FS_FWD | REACHABLE_TRAD_FS_BWD
  | REACHABLE_TRAD_NOFS_FWD | REACHABLE_TRAD_NOFS_BWD
  | COPY | COMPLEMENT | CONVERT_TO_INDEX_SET | DIST_INC | CYCLE
  | CARDINALITY_INT | CARDINALITY_REAL | MAX_RANGE_INT | MAX_RANGE_REAL | MIN_RANGE_INT | MIN_RANGE_REAL
  deriving DecidableEq, Repr, Inhabited

def OpKind.all : List OpKind :=
  [.UNION, .INTERSECTION, .DIFFERENCE, .CROSS, .PLUS, .MINUS, .MULTIPLY, .DIVIDE, .MODULO, .MAXIMUM,
   .MINIMUM, .DIST_MIN, .EQUAL, .NOT_EQUAL, .LESS_THAN, .LESS_THAN_EQUAL, .GREATER_THAN,
   .GREATER_THAN_EQUAL, .PRE_IMAGE, .POST_IMAGE, .VM_MULTIPLY, .MV_MULTIPLY, .REACHABLE_SATUR_FWD,
   .REACHABLE_SATUR_BWD, .REACHABLE_TRAD_FS_FWD, .REACHABLE_TRAD_FS_BWD, .REACHABLE_TRAD_NOFS_FWD,
   .REACHABLE_TRAD_NOFS_BWD, .COPY, .COMPLEMENT, .CONVERT_TO_INDEX_SET, .DIST_INC, .CYCLE,
   .CARDINALITY_INT, .CARDINALITY_REAL, .MAX_RANGE_INT, .MAX_RANGE_REAL, .MIN_RANGE_INT, .MIN_RANGE_REAL]

def OpKind.name : OpKind → String
  | .UNION => "UNION" | .INTERSECTION => "INTERSECTION" | .DIFFERENCE => "DIFFERENCE" | .CROSS => "CROSS"
  | .PLUS => "PLUS" | .MINUS => "MINUS" | .MULTIPLY => "MULTIPLY" | .DIVIDE => "DIVIDE" | .MODULO => "MODULO"
  | .MAXIMUM => "MAXIMUM" | .MINIMUM => "MINIMUM" | .DIST_MIN => "DIST_MIN"
  | .EQUAL => "EQUAL" | .NOT_EQUAL => "NOT_EQUAL" | .LESS_THAN => "LESS_THAN"
  | .LESS_THAN_EQUAL => "LESS_THAN_EQUAL" | .GREATER_THAN => "GREATER_THAN"
  | .GREATER_THAN_EQUAL => "GREATER_THAN_EQUAL"
  | .PRE_IMAGE => "PRE_IMAGE" | .POST_IMAGE => "POST_IMAGE" | .VM_MULTIPLY => "VM_MULTIPLY"
  | .MV_MULTIPLY => "MV_MULTIPLY"
  | .REACHABLE_SATUR_FWD => "REACHABLE_SATUR_FWD" | .REACHABLE_SATUR_BWD => "REACHABLE_SATUR_BWD"
  | .REACHABLE_TRAD_FS_FWD => "REACHABLE_TRAD_FS_FWD" | .REACHABLE_TRAD_FS_BWD => "REACHABLE_TRAD_FS_BWD"
  | .REACHABLE_TRAD_NOFS_FWD => "REACHABLE_TRAD_NOFS_FWD" | .REACHABLE_TRAD_NOFS_BWD => "REACHABLE_TRAD_NOFS_BWD"
  | .COPY => "COPY" | .COMPLEMENT => "COMPLEMENT" | .CONVERT_TO_INDEX_SET => "CONVERT_TO_INDEX_SET"
  | .DIST_INC => "DIST_INC" | .CYCLE => "CYCLE"
  | .CARDINALITY_INT => "CARDINALITY_INT" | .CARDINALITY_REAL => "CARDINALITY_REAL"
  | .MAX_RANGE_INT => "MAX_RANGE_INT" | .MAX_RANGE_REAL => "MAX_RANGE_REAL"
  | .MIN_RANGE_INT => "MIN_RANGE_INT" | .MIN_RANGE_REAL => "MIN_RANGE_REAL"

def OpKind.ofName (s : String) : Option OpKind := OpKind.all.find? (fun o => o.name == s)

/-- how many forests an operation involves: 3 (binary), 2 (unary with DD result), 1 (unary, scalar result) -/
def OpKind.forests : OpKind → Nat
  | .COPY | .COMPLEMENT | .CONVERT_TO_INDEX_SET | .DIST_INC | .CYCLE => 2
  | .CARDINALITY_INT | .CARDINALITY_REAL | .MAX_RANGE_INT | .MAX_RANGE_REAL | .MIN_RANGE_INT | .MIN_RANGE_REAL => 1
  | _ => 3

def OpKind.isReach : OpKind → Bool
  | .REACHABLE_SATUR_FWD | .REACHABLE_SATUR_BWD | .REACHABLE_TRAD_FS_FWD | .REACHABLE_TRAD_FS_BWD
  | .REACHABLE_TRAD_NOFS_FWD | .REACHABLE_TRAD_NOFS_BWD => true
  | _ => false

def OpKind.isSatur : OpKind → Bool
  | .REACHABLE_SATUR_FWD | .REACHABLE_SATUR_BWD => true
  | _ => false

/-! ## Part 1a: the decision table, in the order of the code -/

/-- first failing test of a list of tests performed in sequence -/
def firstOf : List (Option ErrCode) → Option ErrCode
  | [] => none
  | some e :: _ => some e
  | none :: rest => firstOf rest

def failIf (c : Bool) (e : ErrCode) : Option ErrCode := if c then some e else none

/-- `checkDomains` (oper_binary.h / oper_unary.h) -/
def chkDomains (sameDom : Bool) : Option ErrCode := failIf (!sameDom) .DOMAIN_MISMATCH
/-- `checkAllRelations(file, line)`: both operands must agree with the result -/
def chkAllRel (a b c : AKind) : Option ErrCode := failIf (a.rel != c.rel || b.rel != c.rel) .TYPE_MISMATCH
/-- `checkAllRelations(file, line, r)` / `checkRelations(file, line, ra, rb, rc)` -/
def chkRels (a b c : AKind) (ra rb rc : Bool) : Option ErrCode :=
  failIf (a.rel != ra || b.rel != rb || c.rel != rc) .TYPE_MISMATCH
/-- `checkLabelings(file, line, la, lb, lc)` -/
def chkLabs (a b c : AKind) (la lb lc : Lab) : Option ErrCode :=
  failIf (a.lab != la || b.lab != lb || c.lab != lc) .TYPE_MISMATCH
/-- `checkAllRanges(file, line, r)` -/
def chkRanges (a b c : AKind) (r : Range) : Option ErrCode :=
  failIf (a.range != r || b.range != r || c.range != r) .TYPE_MISMATCH

/-- union_mt / inter_mt / diffr_mt constructors -/
def preSetOp (a b c : AKind) (sd : Bool) : Option ErrCode :=
  firstOf [chkDomains sd, chkAllRel a b c, chkLabs a b c .mt .mt .mt]

/-- arith_compat / arith_factor / arith_pushdn constructors (arith_templ.h) -/
def preArithCtor (a b c : AKind) (sd : Bool) : Option ErrCode :=
  firstOf [chkDomains sd, chkRels a b c c.rel c.rel c.rel, chkLabs a b c c.lab c.lab c.lab,
           chkRanges a b c c.range]

/-- PLUS / MINUS / MULTIPLY / DIVIDE / MAXIMUM / MINIMUM factories: MT, EV+, EV* result forests have an
    implementation, anything else (index sets) makes the factory return null -/
def preArith (a b c : AKind) (sd : Bool) : Option ErrCode :=
  match c.lab with
  | .mt | .evp | .evt => preArithCtor a b c sd
  | .idx => some .NOT_IMPLEMENTED

/-- MODULO factory (arith_mod.cc) -/
def preModulo (a b c : AKind) (sd : Bool) : Option ErrCode :=
  match c.lab with
  | .mt => if a.range == .real || b.range == .real then some .NOT_IMPLEMENTED else preArithCtor a b c sd
  | .evp => preArithCtor a b c sd
  | _ => some .NOT_IMPLEMENTED

/-- DIST_MIN factory (arith_distmin.cc) -/
def preDistMin (a b c : AKind) (sd : Bool) : Option ErrCode :=
  match c.lab with
  | .mt => preArithCtor a b c sd
  | _ => some .NOT_IMPLEMENTED

/-- the six comparison factories (compare.cc): dispatch on the FIRST operand's labeling -/
def preCompare (a b c : AKind) (sd : Bool) : Option ErrCode :=
  match a.lab with
  | .mt =>
    firstOf [chkDomains sd, chkRels a b c c.rel c.rel c.rel, chkLabs a b c .mt .mt .mt,
             failIf (a.range != b.range) .TYPE_MISMATCH]
  | _ =>
    firstOf [chkDomains sd, chkRels a b c c.rel c.rel c.rel,
             failIf (a.range != b.range) .TYPE_MISMATCH,
             failIf (a.lab != b.lab) .TYPE_MISMATCH,
             failIf (c.lab != .mt) .TYPE_MISMATCH]

/-- result of building an operation through a factory that may return null -/
inductive Built where
  | ok | null | threw (e : ErrCode)
  deriving DecidableEq, Repr

def Built.ofCheck : Option ErrCode → Built
  | none => .ok
  | some e => .threw e

/-- `prepost_set_mtrel` constructor; `vec`,`mat`: the operands in the role of vector and matrix -/
def prePrepostCtor (vec mat c : AKind) (sd : Bool) : Option ErrCode :=
  firstOf [chkDomains sd, chkRels vec mat c false true false, chkLabs vec mat c c.lab .mt c.lab,
           failIf (vec.range != c.range) .TYPE_MISMATCH]

/-- `_IMAGE_factory::build_new` (prepost_sets.cc), also the shape of `reachset_satur_factory` -/
def buildImage (a b c : AKind) (sd : Bool) : Built :=
  match a.lab with
  | .mt =>
    match c.range with
    | .bool => .ofCheck (prePrepostCtor a b c sd)
    | .int => if c.fully then .ofCheck (prePrepostCtor a b c sd) else .null
    | .real => .null
  | .evp => .ofCheck (prePrepostCtor a b c sd)
  | _ => .null

def Built.toPre : Built → Option ErrCode
  | .ok => none
  | .null => some .NOT_IMPLEMENTED          -- `if (!bop) throw error(NOT_IMPLEMENTED)` in `apply`
  | .threw e => some e

/-- VM_MULTIPLY / MV_MULTIPLY factories: all three forests must be multi-terminal (tested first, since /repo
    fix 41a8b5e), then the result range is examined -/
def preVecMat (vec mat c : AKind) (sd : Bool) : Option ErrCode :=
  if vec.lab != .mt || mat.lab != .mt || c.lab != .mt then some .TYPE_MISMATCH
  else match c.range with
  | .bool => some .TYPE_MISMATCH
  | _ => prePrepostCtor vec mat c sd

/-- `reachset_frontier` / `reachset_no_frontier` (reach_trad.cc, since the repair of finding F2): the factory
    builds the image operation over (result, relation, result) — the loops apply it to edges of the result
    forest — then the accumulate / difference operations over the result forest (they cannot fail once the
    image operation exists), then the constructor repeats the image constructor's tests with the FIRST
    operand and builds COPY(first operand, result) (which cannot fail after these tests).
    `sbc`: second operand and result share a domain; `sd`: all three do. -/
def viaImage (a b c : AKind) (sd sbc : Bool) : Option ErrCode :=
  firstOf [(buildImage c b c sbc).toPre, prePrepostCtor a b c sd]

/-- REACHABLE_TRAD_FS factory (reach_trad.cc) -/
def preTradFS (a b c : AKind) (sd sbc : Bool) : Option ErrCode :=
  if a.lab == .mt && c.range == .bool then viaImage a b c sd sbc else some .NOT_IMPLEMENTED

/-- REACHABLE_TRAD_NOFS factory: dispatch on the RESULT forest; a null image or accumulate operation makes
    the factory return null (since the repair of finding F1; it used to be dereferenced) -/
def preTradNoFS (a b c : AKind) (sd sbc : Bool) : Option ErrCode :=
  match c.lab with
  | .mt => (match c.range with
            | .bool | .int => viaImage a b c sd sbc
            | .real => some .NOT_IMPLEMENTED)
  | .evp => if c.range == .int then viaImage a b c sd sbc else some .NOT_IMPLEMENTED
  | _ => some .NOT_IMPLEMENTED

/-- COPY factory and the four copy constructors (copy.cc): the set/relation test of the factory precedes
    every constructor, hence precedes the domain test -/
def preCopy (a c : AKind) (sd : Bool) : Option ErrCode :=
  firstOf [failIf (a.rel != c.rel) .TYPE_MISMATCH, chkDomains sd]

def precheckA (op : OpKind) (a b c : AKind) (dp : Doms) : Option ErrCode :=
  let sd := dp.allSame
  match op with
  | .UNION | .INTERSECTION | .DIFFERENCE => preSetOp a b c sd
  | .CROSS =>
    firstOf [chkDomains sd, chkRanges a b c .bool, chkLabs a b c .mt .mt .mt, chkRels a b c false false true]
  | .PLUS | .MINUS | .MULTIPLY | .DIVIDE | .MAXIMUM | .MINIMUM => preArith a b c sd
  | .MODULO => preModulo a b c sd
  | .DIST_MIN => preDistMin a b c sd
  | .EQUAL | .NOT_EQUAL | .LESS_THAN | .LESS_THAN_EQUAL | .GREATER_THAN | .GREATER_THAN_EQUAL =>
    preCompare a b c sd
  | .PRE_IMAGE | .POST_IMAGE | .REACHABLE_SATUR_FWD | .REACHABLE_SATUR_BWD => (buildImage a b c sd).toPre
  | .VM_MULTIPLY => preVecMat a b c sd
  | .MV_MULTIPLY => preVecMat b a c sd
  | .REACHABLE_TRAD_FS_FWD | .REACHABLE_TRAD_FS_BWD => preTradFS a b c sd dp.bcSame
  | .REACHABLE_TRAD_NOFS_FWD | .REACHABLE_TRAD_NOFS_BWD => preTradNoFS a b c sd dp.bcSame
  | .COPY => preCopy a c sd
  | .COMPLEMENT =>
    firstOf [chkDomains sd, failIf (a.rel != c.rel) .TYPE_MISMATCH,
             failIf (a.range != .bool || c.range != .bool) .TYPE_MISMATCH,
             failIf (a.lab != .mt || c.lab != .mt) .TYPE_MISMATCH]
  | .CONVERT_TO_INDEX_SET =>
    firstOf [chkDomains sd, failIf (a.rel || c.rel) .TYPE_MISMATCH,
             failIf (a.range != .bool || c.range != .int) .TYPE_MISMATCH,
             failIf (a.lab != .mt || c.lab != .idx) .TYPE_MISMATCH]
  | .DIST_INC =>
    firstOf [chkDomains sd, failIf (a.rel != c.rel) .TYPE_MISMATCH,
             failIf (a.range != .int || c.range != .int) .TYPE_MISMATCH,
             failIf (a.lab != .mt || c.lab != .mt) .TYPE_MISMATCH]
  | .CYCLE =>
    if a.lab == .evp then
      firstOf [chkDomains sd, failIf (c.lab != .evp) .TYPE_MISMATCH, failIf (!a.rel || c.rel) .TYPE_MISMATCH]
    else some .NOT_IMPLEMENTED
  | .CARDINALITY_INT | .CARDINALITY_REAL => none
  | .MAX_RANGE_INT | .MIN_RANGE_INT =>
    if a.lab != .mt then some .NOT_IMPLEMENTED else failIf (a.range != .int) .TYPE_MISMATCH
  | .MAX_RANGE_REAL | .MIN_RANGE_REAL =>
    if a.lab != .mt then some .NOT_IMPLEMENTED else failIf (a.range != .real) .TYPE_MISMATCH

/-- The decision table on forest kinds.  `dp`: how the forests involved are spread over `domain` objects. -/
def precheck (op : OpKind) (ka kb kc : ForestKind) (dp : Doms) : Option ErrCode :=
  precheckA op ka.abs kb.abs kc.abs dp

/-! ## Part 1b: the documented requirements, declaratively -/

def isNumeric (r : Range) : Bool := r == .int || r == .real

/-- all three forests have the same set/relation status, range type and labeling -/
def sameType (a b c : AKind) : Bool :=
  a.rel == c.rel && b.rel == c.rel && a.range == c.range && b.range == c.range &&
  a.lab == c.lab && b.lab == c.lab

/-- image-like operations (PRE/POST_IMAGE doc string): a set/vector, a Boolean MT relation, the result a
    set with the range and labeling of the first operand; MT or EV+; Boolean or integer; an MT integer
    (distance) result must be fully reduced -/
def imageReq (a b c : AKind) : Bool :=
  !a.rel && b.rel && !c.rel && b.lab == .mt && b.range == .bool &&
  a.range == c.range && a.lab == c.lab && (a.lab == .mt || a.lab == .evp) &&
  (c.range == .bool || c.range == .int) &&
  (!(c.lab == .mt && c.range == .int) || c.fully)

set_option linter.unusedVariables false

/-- `sac`: the first operand and the result live in the SAME forest object (only the reachability
    operations document such a requirement). -/
def compatibleA : OpKind → AKind → AKind → AKind → Bool → Bool → Bool
  -- "all forests must be over the same domain. Forests must be multi-terminal." (+ one shape)
  | .UNION, a, b, c, sd, sac | .INTERSECTION, a, b, c, sd, sac | .DIFFERENCE, a, b, c, sd, sac =>
    sd && a.rel == c.rel && b.rel == c.rel && a.lab == .mt && b.lab == .mt && c.lab == .mt
  -- "Cross product of sets (boolean functions). The result is a relation."
  | .CROSS, a, b, c, sd, sac =>
    sd && !a.rel && !b.rel && c.rel && a.lab == .mt && b.lab == .mt && c.lab == .mt &&
    a.range == .bool && b.range == .bool && c.range == .bool
  -- "Forest ranges must be integer or real. Forests should be all MT, EV+, or EV*, over the same domain."
  | .PLUS, a, b, c, sd, sac | .MINUS, a, b, c, sd, sac | .MULTIPLY, a, b, c, sd, sac | .DIVIDE, a, b, c, sd, sac
  | .MAXIMUM, a, b, c, sd, sac | .MINIMUM, a, b, c, sd, sac =>
    sd && sameType a b c && isNumeric c.range && (c.lab == .mt || c.lab == .evp || c.lab == .evt)
  -- "Forest ranges must be integer."
  | .MODULO, a, b, c, sd, sac => sd && sameType a b c && c.range == .int && (c.lab == .mt || c.lab == .evp)
  -- "Forest ranges must be integer or real. Forests must be multi-terminal"
  | .DIST_MIN, a, b, c, sd, sac => sd && sameType a b c && isNumeric c.range && c.lab == .mt
  -- "Input forests should both be MT, EV+, or EV*. The output forest should be MT."
  | .EQUAL, a, b, c, sd, sac | .NOT_EQUAL, a, b, c, sd, sac | .LESS_THAN, a, b, c, sd, sac | .LESS_THAN_EQUAL, a, b, c, sd, sac
  | .GREATER_THAN, a, b, c, sd, sac | .GREATER_THAN_EQUAL, a, b, c, sd, sac =>
    sd && a.rel == c.rel && b.rel == c.rel && a.lab == b.lab && a.range == b.range &&
    (a.lab == .mt || a.lab == .evp || a.lab == .evt) && c.lab == .mt
  | .PRE_IMAGE, a, b, c, sd, sac | .POST_IMAGE, a, b, c, sd, sac => sd && imageReq a b c
  -- ops_builtin.h: "The result is a set-of-states that must be stored in the same forest as the first
  -- operand."  In the table one kind is one forest object, so "same forest" is "same kind".
  | .REACHABLE_SATUR_FWD, a, b, c, sd, sac | .REACHABLE_SATUR_BWD, a, b, c, sd, sac
  | .REACHABLE_TRAD_NOFS_FWD, a, b, c, sd, sac | .REACHABLE_TRAD_NOFS_BWD, a, b, c, sd, sac =>
    sd && imageReq a b c && sac
  -- frontier variant: needs set difference, hence Boolean MT only
  | .REACHABLE_TRAD_FS_FWD, a, b, c, sd, sac | .REACHABLE_TRAD_FS_BWD, a, b, c, sd, sac =>
    sd && imageReq a b c && sac && c.lab == .mt && c.range == .bool
  -- "The first operand is a vector (MDD), the second operand is a matrix (MxD), and the result is a vector
  -- (MDD). All forests must multi-terminal and over the same domain."  (numeric: the values are multiplied)
  | .VM_MULTIPLY, a, b, c, sd, sac =>
    sd && !a.rel && b.rel && !c.rel && a.lab == .mt && b.lab == .mt && c.lab == .mt &&
    a.range == c.range && b.range == c.range && isNumeric c.range
  | .MV_MULTIPLY, a, b, c, sd, sac =>
    sd && a.rel && !b.rel && !c.rel && a.lab == .mt && b.lab == .mt && c.lab == .mt &&
    a.range == c.range && b.range == c.range && isNumeric c.range
  -- "must have the same domain, and must both be sets or both be relations. The function ranges may be different."
  | .COPY, a, _, c, sd, sac => sd && a.rel == c.rel
  -- "Complement, for functions with boolean range"
  | .COMPLEMENT, a, _, c, sd, sac =>
    sd && a.rel == c.rel && a.range == .bool && c.range == .bool && a.lab == .mt && c.lab == .mt
  -- "Converts sets (boolean functions) ... into an indexed set ... in another (EV+MDD) forest"
  | .CONVERT_TO_INDEX_SET, a, _, c, sd, sac =>
    sd && !a.rel && !c.rel && a.range == .bool && a.lab == .mt && c.range == .int && c.lab == .idx
  -- "encoded as a multi-terminal MDD/MXD ... same domain ... integer range"
  | .DIST_INC, a, _, c, sd, sac =>
    sd && a.rel == c.rel && a.range == .int && c.range == .int && a.lab == .mt && c.lab == .mt
  -- "The input forest should be an EV+MxD (relation) ..., and the output should be an EV+MDD (set)."
  | .CYCLE, a, _, c, sd, sac => sd && a.rel && !c.rel && a.lab == .evp && c.lab == .evp
  -- "The result is allowed to be type long, double, or mpz_t"
  | .CARDINALITY_INT, _, _, _, _, sac | .CARDINALITY_REAL, _, _, _, _, sac => true
  -- "The result type should match the input forest range type." (multi-terminal: maxmin_range.cc)
  | .MAX_RANGE_INT, a, _, _, _, sac | .MIN_RANGE_INT, a, _, _, _, sac => a.lab == .mt && a.range == .int
  | .MAX_RANGE_REAL, a, _, _, _, sac | .MIN_RANGE_REAL, a, _, _, _, sac => a.lab == .mt && a.range == .real

/-- The documented requirements on forest kinds.  In the table one kind is one forest object, so for the
    reachability operations "same forest" is "same kind". -/
def compatible (op : OpKind) (ka kb kc : ForestKind) (sameDom : Bool) : Prop :=
  compatibleA op ka.abs kb.abs kc.abs sameDom (ka == kc) = true

instance (op : OpKind) (ka kb kc : ForestKind) (sd : Bool) : Decidable (compatible op ka kb kc sd) := by
  unfold compatible; exact inferInstance

/-! ### documented requirements the code does not enforce

`laxA` describes, declaratively and operation by operation, the calls that violate a documented
requirement and are nevertheless ACCEPTED by the constructors (no error is raised).  `lax_exact` shows
that this description is exact.  Each class is listed in NOTES.md.  Every accepted row — lax or not — is
computed by the harness; none of them crashes the library any more (findings F2 and F4 are repaired). -/

/-- everything the constructors of arithmetic operations require, except "integer or real" -/
def boolArith (a b c : AKind) (sd : Bool) : Bool := sd && sameType a b c && c.range == .bool && c.lab == .mt

def laxA : OpKind → AKind → AKind → AKind → Bool → Bool → Bool
  -- L1: arithmetic on Boolean multi-terminal forests ("Forest ranges must be integer or real")
  | .PLUS, a, b, c, sd, sac | .MINUS, a, b, c, sd, sac | .MULTIPLY, a, b, c, sd, sac | .DIVIDE, a, b, c, sd, sac
  | .MAXIMUM, a, b, c, sd, sac | .MINIMUM, a, b, c, sd, sac | .MODULO, a, b, c, sd, sac | .DIST_MIN, a, b, c, sd, sac =>
    boolArith a b c sd
  -- L2: comparison of two index sets (documented: MT, EV+ or EV*)
  | .EQUAL, a, b, c, sd, sac | .NOT_EQUAL, a, b, c, sd, sac | .LESS_THAN, a, b, c, sd, sac | .LESS_THAN_EQUAL, a, b, c, sd, sac
  | .GREATER_THAN, a, b, c, sd, sac | .GREATER_THAN_EQUAL, a, b, c, sd, sac =>
    sd && a.lab == .idx && b.lab == .idx && c.lab == .mt && !c.rel
  -- L3: the relation of an image operation is not required to have Boolean range
  | .PRE_IMAGE, a, b, c, sd, sac | .POST_IMAGE, a, b, c, sd, sac =>
    sd && imageReq a { b with range := .bool } c && b.range != .bool
  -- L3 + L4: reachability with the result in another forest than the first operand (ops_builtin.h demands the
  -- same forest; the code copies the initial set into the result forest and works there)
  | .REACHABLE_SATUR_FWD, a, b, c, sd, sac | .REACHABLE_SATUR_BWD, a, b, c, sd, sac
  | .REACHABLE_TRAD_NOFS_FWD, a, b, c, sd, sac | .REACHABLE_TRAD_NOFS_BWD, a, b, c, sd, sac =>
    sd && imageReq a { b with range := .bool } c && (b.range != .bool || !sac)
  | .REACHABLE_TRAD_FS_FWD, a, b, c, sd, sac | .REACHABLE_TRAD_FS_BWD, a, b, c, sd, sac =>
    sd && imageReq a { b with range := .bool } c && c.lab == .mt && c.range == .bool &&
    (b.range != .bool || !sac)
  -- L5: the vector-matrix product compares the vector's range with the result's but never looks at the
  -- range of the MATRIX (the labelings are all tested since /repo fix 41a8b5e)
  | .VM_MULTIPLY, a, b, c, sd, sac =>
    sd && !a.rel && b.rel && !c.rel && a.lab == .mt && b.lab == .mt && c.lab == .mt && a.range == c.range &&
    isNumeric c.range && b.range != c.range
  | .MV_MULTIPLY, a, b, c, sd, sac =>
    sd && a.rel && !b.rel && !c.rel && a.lab == .mt && b.lab == .mt && c.lab == .mt && b.range == c.range &&
    isNumeric c.range && a.range != c.range
  | _, _, _, _, _, _ => false

/-- documented requirement violated, call accepted all the same (see `laxA`) -/
def lax (op : OpKind) (ka kb kc : ForestKind) (sameDom : Bool) : Bool :=
  laxA op ka.abs kb.abs kc.abs sameDom (ka == kc)

/-! ### the finite table -/

/-- the facts checked on every row (`p` = precheck, `cp` = compatible, `lx` = lax, `ct` = compatible if the
    domains were the same, `two` = the operation involves at least two forests, `sd` = one domain):
    g1  exactness of `lax`: lax ⇔ incompatible and accepted   (hence: accepted and not lax ⇒ compatible;
        incompatible and not lax ⇒ rejected)
    g2  completeness: every documented-compatible call is accepted
    g4  DOMAIN_MISMATCH is only reported when the domains differ
    g5  a call whose ONLY defect is the domain is reported as DOMAIN_MISMATCH
    g6  the constructors raise no other code than DOMAIN_MISMATCH / TYPE_MISMATCH / NOT_IMPLEMENTED
    (g3, "a constructor crashes only in REACHABLE_TRAD_NOFS", is gone with finding F1: no outcome of the
    table is a crash any more.) -/
def goodCore (p : Option ErrCode) (cp lx ct two sd : Bool) : Bool :=
  match p with
  | none => (lx == !cp) && !(two && !sd && ct)
  | some .DOMAIN_MISMATCH => !lx && !cp && !sd
  | some .TYPE_MISMATCH | some .NOT_IMPLEMENTED => !lx && !cp && !(two && !sd && ct)
  | some _ => false

def goodA (op : OpKind) (a b c : AKind) (dp : Doms) (sac : Bool) : Bool :=
  goodCore (precheckA op a b c dp) (compatibleA op a b c dp.allSame sac) (laxA op a b c dp.allSame sac)
    (compatibleA op a b c true sac) (decide (2 ≤ op.forests)) dp.allSame

def allDoms : List Doms := [.same, .firstOnly, .split]

def allBool : List Bool := [false, true]

/-- the 10 legal (set/relation, range, labeling) combinations, reduction rule left out -/
def allBK : List AKind :=
  [⟨false, .bool, .mt, false⟩, ⟨false, .int, .mt, false⟩, ⟨false, .real, .mt, false⟩,
   ⟨false, .int, .evp, false⟩, ⟨false, .int, .idx, false⟩,
   ⟨true, .bool, .mt, false⟩, ⟨true, .int, .mt, false⟩, ⟨true, .real, .mt, false⟩,
   ⟨true, .int, .evp, false⟩, ⟨true, .real, .evt, false⟩]

/-- the same with the flag "fully reduced" -/
def allCK : List AKind :=
  [⟨false, .bool, .mt, false⟩, ⟨false, .int, .mt, false⟩, ⟨false, .real, .mt, false⟩,
   ⟨false, .int, .evp, false⟩, ⟨false, .int, .idx, false⟩,
   ⟨true, .bool, .mt, false⟩, ⟨true, .int, .mt, false⟩, ⟨true, .real, .mt, false⟩,
   ⟨true, .int, .evp, false⟩, ⟨true, .real, .evt, false⟩,
   ⟨false, .bool, .mt, true⟩, ⟨false, .int, .mt, true⟩, ⟨false, .real, .mt, true⟩,
   ⟨false, .int, .evp, true⟩, ⟨false, .int, .idx, true⟩,
   ⟨true, .bool, .mt, true⟩, ⟨true, .int, .mt, true⟩, ⟨true, .real, .mt, true⟩,
   ⟨true, .int, .evp, true⟩, ⟨true, .real, .evt, true⟩]

def AKind.nf (k : AKind) : AKind := ⟨k.rel, k.range, k.lab, false⟩

/-- does a constructor of the operation ever call `isFullyReduced()` on the result forest? -/
def OpKind.usesFully : OpKind → Bool
  | .PRE_IMAGE | .POST_IMAGE => true
  | op => op.isReach

/-- Operations that share one constructor / factory shape share one table: the representative. -/
def OpKind.rep : OpKind → OpKind
  | .UNION | .INTERSECTION | .DIFFERENCE => .UNION
  | .PLUS | .MINUS | .MULTIPLY | .DIVIDE | .MAXIMUM | .MINIMUM => .PLUS
  | .EQUAL | .NOT_EQUAL | .LESS_THAN | .LESS_THAN_EQUAL | .GREATER_THAN | .GREATER_THAN_EQUAL => .EQUAL
  | .PRE_IMAGE | .POST_IMAGE => .PRE_IMAGE
  | .REACHABLE_SATUR_FWD | .REACHABLE_SATUR_BWD => .REACHABLE_SATUR_FWD
  | .REACHABLE_TRAD_FS_FWD | .REACHABLE_TRAD_FS_BWD => .REACHABLE_TRAD_FS_FWD
  | .REACHABLE_TRAD_NOFS_FWD | .REACHABLE_TRAD_NOFS_BWD => .REACHABLE_TRAD_NOFS_FWD
  | .CARDINALITY_INT | .CARDINALITY_REAL => .CARDINALITY_INT
  | .MAX_RANGE_INT | .MIN_RANGE_INT => .MAX_RANGE_INT
  | .MAX_RANGE_REAL | .MIN_RANGE_REAL => .MAX_RANGE_REAL
  | op => op

def bk0 : AKind := ⟨false, .bool, .mt, false⟩

/-- the parts of a row an operation can depend on (everything else is normalised away) -/
def nb (op : OpKind) (b : AKind) : AKind := if op.forests ≤ 2 then bk0 else b.nf
def nc (op : OpKind) (c : AKind) : AKind :=
  if op.forests ≤ 1 then bk0 else if op.usesFully then c else c.nf
def ns (op : OpKind) (sac : Bool) : Bool := if op.isReach then sac else false

def bL (op : OpKind) : List AKind := if op.forests ≤ 2 then [bk0] else allBK
def cL (op : OpKind) : List AKind := if op.forests ≤ 1 then [bk0] else if op.usesFully then allCK else allBK
def sL (op : OpKind) : List Bool := if op.isReach then allBool else [false]

/-- the whole table of one (representative) operation: first operand over the 10 kinds, second operand
    over the 10 kinds (binary operations), result over the 10 kinds or the 20 kinds with the "fully reduced"
    flag (operations that look at it), the three spreads over domains, result in the first operand's forest
    or not (reachability) -/
def famGood (op : OpKind) : Bool :=
  allBK.all fun a => (bL op).all fun b => (cL op).all fun c => allDoms.all fun dp => (sL op).all fun sac =>
    goodA op a b c dp sac

/-- a row depends only on its normalised parts, and only on the representative of the operation -/
theorem goodA_norm (op : OpKind) (a b c : AKind) (dp : Doms) (sac : Bool) :
    goodA op a b c dp sac = goodA op.rep a.nf (nb op.rep b) (nc op.rep c) dp (ns op.rep sac) := by
  cases op <;> rfl

theorem nf_mem_allBK (k : AKind) (h : k.legal = true) : k.nf ∈ allBK := by
  rcases k with ⟨r, g, l, f⟩
  cases r <;> cases g <;> cases l <;>
    first | (exfalso; simpa [AKind.legal] using h) | simp [AKind.nf, allBK]

theorem mem_allCK (k : AKind) (h : k.legal = true) : k ∈ allCK := by
  rcases k with ⟨r, g, l, f⟩
  cases r <;> cases g <;> cases l <;> cases f <;>
    first | (exfalso; simpa [AKind.legal] using h) | simp [allCK]

theorem nb_mem (op : OpKind) (b : AKind) (h : b.legal = true) : nb op b ∈ bL op := by
  unfold nb bL; split
  · exact List.mem_singleton.2 rfl
  · exact nf_mem_allBK b h

theorem nc_mem (op : OpKind) (c : AKind) (h : c.legal = true) : nc op c ∈ cL op := by
  unfold nc cL; split
  · exact List.mem_singleton.2 rfl
  · split
    · exact mem_allCK c h
    · exact nf_mem_allBK c h

theorem ns_mem (op : OpKind) (sac : Bool) : ns op sac ∈ sL op := by
  unfold ns sL; split
  · cases sac <;> decide
  · exact List.mem_singleton.2 rfl

theorem famGood_spec {op : OpKind} (h : famGood op = true) {a b c : AKind} {dp : Doms} {sac : Bool}
    (ha : a ∈ allBK) (hb : b ∈ bL op) (hc : c ∈ cL op) (hs : sac ∈ sL op) : goodA op a b c dp sac = true := by
  unfold famGood at h
  have h1 := List.all_eq_true.1 h a ha
  have h2 := List.all_eq_true.1 h1 b hb
  have h3 := List.all_eq_true.1 h2 c hc
  have h4 := List.all_eq_true.1 h3 dp (by cases dp <;> decide)
  exact List.all_eq_true.1 h4 sac hs

/-! The table itself, decided by evaluation in the kernel, one chunk per representative operation
    (≈ 67 600 rows in all). -/
theorem famGood_UNION : famGood .UNION = true := by decide +kernel
theorem famGood_CROSS : famGood .CROSS = true := by decide +kernel
theorem famGood_PLUS : famGood .PLUS = true := by decide +kernel
theorem famGood_MODULO : famGood .MODULO = true := by decide +kernel
theorem famGood_DIST_MIN : famGood .DIST_MIN = true := by decide +kernel
theorem famGood_EQUAL : famGood .EQUAL = true := by decide +kernel
theorem famGood_PRE_IMAGE : famGood .PRE_IMAGE = true := by decide +kernel
theorem famGood_VM : famGood .VM_MULTIPLY = true := by decide +kernel
theorem famGood_MV : famGood .MV_MULTIPLY = true := by decide +kernel
theorem famGood_SATUR : famGood .REACHABLE_SATUR_FWD = true := by decide +kernel
theorem famGood_TRAD_FS : famGood .REACHABLE_TRAD_FS_FWD = true := by decide +kernel
theorem famGood_TRAD_NOFS : famGood .REACHABLE_TRAD_NOFS_FWD = true := by decide +kernel
theorem famGood_COPY : famGood .COPY = true := by decide +kernel
theorem famGood_COMPLEMENT : famGood .COMPLEMENT = true := by decide +kernel
theorem famGood_INDEX : famGood .CONVERT_TO_INDEX_SET = true := by decide +kernel
theorem famGood_DIST_INC : famGood .DIST_INC = true := by decide +kernel
theorem famGood_CYCLE : famGood .CYCLE = true := by decide +kernel
theorem famGood_CARD : famGood .CARDINALITY_INT = true := by decide +kernel
theorem famGood_RANGE_INT : famGood .MAX_RANGE_INT = true := by decide +kernel
theorem famGood_RANGE_REAL : famGood .MAX_RANGE_REAL = true := by decide +kernel

theorem famGood_rep : (op : OpKind) → famGood op.rep = true
  | .UNION | .INTERSECTION | .DIFFERENCE => famGood_UNION
  | .CROSS => famGood_CROSS
  | .PLUS | .MINUS | .MULTIPLY | .DIVIDE | .MAXIMUM | .MINIMUM => famGood_PLUS
  | .MODULO => famGood_MODULO
  | .DIST_MIN => famGood_DIST_MIN
  | .EQUAL | .NOT_EQUAL | .LESS_THAN | .LESS_THAN_EQUAL | .GREATER_THAN | .GREATER_THAN_EQUAL => famGood_EQUAL
  | .PRE_IMAGE | .POST_IMAGE => famGood_PRE_IMAGE
  | .VM_MULTIPLY => famGood_VM
  | .MV_MULTIPLY => famGood_MV
  | .REACHABLE_SATUR_FWD | .REACHABLE_SATUR_BWD => famGood_SATUR
  | .REACHABLE_TRAD_FS_FWD | .REACHABLE_TRAD_FS_BWD => famGood_TRAD_FS
  | .REACHABLE_TRAD_NOFS_FWD | .REACHABLE_TRAD_NOFS_BWD => famGood_TRAD_NOFS
  | .COPY => famGood_COPY
  | .COMPLEMENT => famGood_COMPLEMENT
  | .CONVERT_TO_INDEX_SET => famGood_INDEX
  | .DIST_INC => famGood_DIST_INC
  | .CYCLE => famGood_CYCLE
  | .CARDINALITY_INT | .CARDINALITY_REAL => famGood_CARD
  | .MAX_RANGE_INT | .MIN_RANGE_INT => famGood_RANGE_INT
  | .MAX_RANGE_REAL | .MIN_RANGE_REAL => famGood_RANGE_REAL

/-- every row over legal kinds is good -/
theorem goodA_all (op : OpKind) (a b c : AKind) (ha : a.legal = true) (hb : b.legal = true)
    (hc : c.legal = true) (dp : Doms) (sac : Bool) : goodA op a b c dp sac = true := by
  rw [goodA_norm]
  exact famGood_spec (famGood_rep op) (nf_mem_allBK a ha) (nb_mem _ b hb) (nc_mem _ c hc) (ns_mem _ sac)

theorem abs_legal {k : ForestKind} (h : k.legal = true) : k.abs.legal = true := by
  rcases k with ⟨r, g, l, u⟩
  simp only [ForestKind.legal, Bool.and_eq_true] at h
  exact h.1

end Errors
end Meddly
