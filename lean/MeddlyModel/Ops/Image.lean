/-
  C09 — one-step image and vector–matrix products.

  Part 1 (`Img`): the relational definition of post- and pre-image on predicates
  over a `List`-enumerated finite state space, with the algebra the reachability
  proofs (C08) need: monotone in the set and in the relation, distributes over
  unions of sets and of relations, empty set / empty relation, pre = post of
  the converse.

  Part 2 (`DD`): a tree-level model `imageG` of `prepost_set_mtrel::_compute`
  (operations/prepost_sets.cc) that covers all four instantiations of the
  template:
        accumulate `add`   combine `mul`                unreachable `u`
    mt_prepost    ∨          a ∧ r                         false
    mt_vectXmatr  +          a * r                         0
    mt_distance   DIST_MIN   r ∧ a ≥ 0 → a+1 | -1          -1
    ev_prepost    min        r ∧ a < ∞ → a+1 | ∞           ∞
  The set/vector operand lives in a set forest `Ss` (fully or quasi reduced), the
  relation/matrix in a relation forest `Sr` of ANY rule (fully / quasi /
  identity reduced: a skipped unprimed position 2k is expanded as redundant, a
  skipped primed position 2k-1 as redundant or as identity — `DD.cofactor`, the
  tree-level `rel_node::outgoing`), the result is rebuilt bottom-up through
  `mkNode` (`createReducedNode`) in the result forest `Sc`.  Per variable k the
  model takes, for every result index, the `add`-accumulation over the index of
  the operand of the recursive image of the operand's cofactor with the
  (unprimed, primed) cofactor of the relation — the loop nest of `_compute`
  (`FORWD`: C[j] += A[i]·B[i][j];  backward: C[i] += B[i][j]·A[j]).

  Main theorem `imageG_eval`: the denotation of the result at `y` is the
  `add`-fold, in lexicographic order, over all operand states `x` of
  `mul (A x) (R (x,y))` (`relFold`).  Instances:
    `imageDD_eval`  (boolean):  y ∈ result ⇔ ∃ x ∈ S, R(x,y)   [post] / R(y,x) [pre]
    `vmDD_eval`     (integer):  result y = Σ_x v x * M(x,y)      [VM]   / Σ_x M(y,x) * v x [MV]
    `distDD_eval`   (MT integer distances): 1 + min over the neighbours, or negative.
  `imageG_red` + `DD.canon` give `imageDD_unique`: ANY reduced tree in the result
  forest with that denotation is the tree computed by the model (this is how the
  level-skipping shortcuts and the compute table of the C++ code are covered: they
  cannot change a canonical result).
-/
import MeddlyModel.Ops.Apply
import MeddlyModel.Ops.ApplyProofs

namespace Meddly

set_option linter.unusedSectionVars false
set_option linter.unusedVariables false

/-! ## Part 1: the relational definition on finite state spaces -/

namespace Img
variable {σ : Type}

/-- post-image: states with an incoming edge from a member of `S` -/
def post (univ : List σ) (S : σ → Bool) (R : σ → σ → Bool) : σ → Bool :=
  fun y => univ.any (fun x => S x && R x y)

/-- pre-image: states with an outgoing edge to a member of `S` -/
def pre (univ : List σ) (S : σ → Bool) (R : σ → σ → Bool) : σ → Bool :=
  fun x => univ.any (fun y => R x y && S y)

def union (S T : σ → Bool) : σ → Bool := fun x => S x || T x
def empty : σ → Bool := fun _ => false
def unionR (R Q : σ → σ → Bool) : σ → σ → Bool := fun x y => R x y || Q x y
def emptyR : σ → σ → Bool := fun _ _ => false
def converse (R : σ → σ → Bool) : σ → σ → Bool := fun x y => R y x

theorem post_iff (univ : List σ) (S : σ → Bool) (R : σ → σ → Bool) (y : σ) :
    post univ S R y = true ↔ ∃ x, x ∈ univ ∧ S x = true ∧ R x y = true := by
  unfold post
  rw [List.any_eq_true]
  constructor
  · rintro ⟨x, hx, h⟩
    rw [Bool.and_eq_true] at h
    exact ⟨x, hx, h.1, h.2⟩
  · rintro ⟨x, hx, h1, h2⟩
    exact ⟨x, hx, by rw [h1, h2]; rfl⟩

theorem pre_eq_post_converse (univ : List σ) (S : σ → Bool) (R : σ → σ → Bool) :
    pre univ S R = post univ S (converse R) := by
  funext x
  unfold pre post converse
  congr 1
  funext y
  exact Bool.and_comm _ _

theorem pre_iff (univ : List σ) (S : σ → Bool) (R : σ → σ → Bool) (x : σ) :
    pre univ S R x = true ↔ ∃ y, y ∈ univ ∧ S y = true ∧ R x y = true := by
  rw [pre_eq_post_converse, post_iff]; rfl

/-- monotone in the set (only members of the state space matter) -/
theorem post_mono (univ : List σ) (S T : σ → Bool) (R : σ → σ → Bool)
    (h : ∀ x, x ∈ univ → S x = true → T x = true) (y : σ) :
    post univ S R y = true → post univ T R y = true := by
  rw [post_iff, post_iff]
  rintro ⟨x, hx, h1, h2⟩
  exact ⟨x, hx, h x hx h1, h2⟩

/-- monotone in the relation -/
theorem post_mono_rel (univ : List σ) (S : σ → Bool) (R Q : σ → σ → Bool)
    (h : ∀ x y, x ∈ univ → R x y = true → Q x y = true) (y : σ) :
    post univ S R y = true → post univ S Q y = true := by
  rw [post_iff, post_iff]
  rintro ⟨x, hx, h1, h2⟩
  exact ⟨x, hx, h1, h x y hx h2⟩

theorem any_or {β : Type} (l : List β) (f g : β → Bool) :
    l.any (fun x => f x || g x) = (l.any f || l.any g) := by
  induction l with
  | nil => rfl
  | cons a l ih =>
    simp only [List.any_cons, ih]
    cases f a <;> cases g a <;> cases l.any f <;> cases l.any g <;> rfl

/-- distributes over union of sets -/
theorem post_union (univ : List σ) (S T : σ → Bool) (R : σ → σ → Bool) :
    post univ (union S T) R = union (post univ S R) (post univ T R) := by
  funext y
  unfold post union
  rw [← any_or]
  congr 1
  funext x
  cases S x <;> cases T x <;> cases R x y <;> rfl

/-- distributes over union of relations -/
theorem post_unionR (univ : List σ) (S : σ → Bool) (R Q : σ → σ → Bool) :
    post univ S (unionR R Q) = union (post univ S R) (post univ S Q) := by
  funext y
  unfold post union unionR
  rw [← any_or]
  congr 1
  funext x
  cases S x <;> cases Q x y <;> cases R x y <;> rfl

theorem any_false {β : Type} (l : List β) : l.any (fun _ => false) = false := by
  induction l with
  | nil => rfl
  | cons a l ih => simp only [List.any_cons, ih]; rfl

theorem post_empty (univ : List σ) (R : σ → σ → Bool) : post univ empty R = empty := by
  funext y
  unfold post empty
  exact any_false univ

theorem post_emptyR (univ : List σ) (S : σ → Bool) : post univ S emptyR = empty := by
  funext y
  unfold post empty emptyR
  have : (fun x => S x && false) = fun _ => false := by funext x; exact Bool.and_false _
  rw [this]
  exact any_false univ

theorem pre_mono (univ : List σ) (S T : σ → Bool) (R : σ → σ → Bool)
    (h : ∀ x, x ∈ univ → S x = true → T x = true) (y : σ) :
    pre univ S R y = true → pre univ T R y = true := by
  rw [pre_eq_post_converse, pre_eq_post_converse]; exact post_mono univ S T _ h y

theorem pre_union (univ : List σ) (S T : σ → Bool) (R : σ → σ → Bool) :
    pre univ (union S T) R = union (pre univ S R) (pre univ T R) := by
  rw [pre_eq_post_converse, pre_eq_post_converse, pre_eq_post_converse]; exact post_union univ S T _

theorem pre_unionR (univ : List σ) (S : σ → Bool) (R Q : σ → σ → Bool) :
    pre univ S (unionR R Q) = union (pre univ S R) (pre univ S Q) := by
  rw [pre_eq_post_converse, pre_eq_post_converse, pre_eq_post_converse]
  exact post_unionR univ S (converse R) (converse Q)

theorem pre_empty (univ : List σ) (R : σ → σ → Bool) : pre univ empty R = empty := by
  rw [pre_eq_post_converse]; exact post_empty univ _

theorem pre_emptyR (univ : List σ) (S : σ → Bool) : pre univ S emptyR = empty := by
  rw [pre_eq_post_converse]; exact post_emptyR univ S

/-- a set closed under `post` absorbs the image of every subset (the step of the least-fixed-point
    argument of C08) -/
theorem post_closed (univ : List σ) (S I : σ → Bool) (R : σ → σ → Bool)
    (hS : ∀ x, x ∈ univ → S x = true → I x = true)
    (hI : ∀ y, post univ I R y = true → I y = true) (y : σ) :
    post univ S R y = true → I y = true :=
  fun h => hI y (post_mono univ S I R hS y h)

end Img

/-! ## Part 2: the tree-level model -/

namespace DD
variable {α β γ : Type} [DecidableEq α] [DecidableEq β] [DecidableEq γ]

/-- The `add`-accumulation of a list of result trees, starting from "unreachable"
    (`setAllUnreachable` followed by the `addToCi` calls for one result index). -/
def accum (Sc : Shape) (zc : γ) (add : γ → γ → γ) (u : γ) (k : Nat) (l : List (DD γ)) : DD γ :=
  l.foldl (fun acc d => apply2 Sc Sc Sc zc zc zc add k none acc d) (.leaf u)

/-- `prepost_set_mtrel::_compute` on trees, read from variable `k` downwards.
    `fwd = true`: post-image / vector–matrix; `fwd = false`: pre-image / matrix–vector.
    Position `2k` of the relation is the unprimed, position `2k-1` the primed level of variable `k`. -/
def imageG (Ss Sr Sc : Shape) (za : α) (zb : β) (zc : γ) (add : γ → γ → γ) (mul : α → β → γ) (u : γ)
    (fwd : Bool) : Nat → DD α → DD β → DD γ
  | 0, a, b => .leaf (mul (leafVal za a) (leafVal zb b))
  | k+1, a, b =>
    mkNode Sc zc (k+1) none
      ((List.range (Sc.size (k+1))).map fun res =>
        accum Sc zc add u k
          ((List.range (Ss.size (k+1))).map fun opd =>
            imageG Ss Sr Sc za zb zc add mul u fwd k
              (cofactor Ss za (k+1) none a opd)
              (cofactor Sr zb (2*k+1) (some (if fwd then opd else res))
                (cofactor Sr zb (2*k+2) none b (if fwd then opd else res))
                (if fwd then res else opd))))

/-- pairing of a "from" assignment `x` (unprimed, even positions) and a "to" assignment `y`
    (primed, odd positions) into an assignment of the relation forest -/
def pairA (x y : Assign) : Assign := fun q => if q % 2 = 0 then x (q / 2) else y ((q + 1) / 2)

/-- `fwd`: the operand state is the source of the edge; otherwise its target -/
def pairD (fwd : Bool) (opd res : Assign) : Assign := if fwd then pairA opd res else pairA res opd

/-- The specification: `add`-fold, in lexicographic order (variable `k` outermost), of `g` over
    all assignments of the variables `k..1`; the variables above `k` are taken from `x`. -/
def relFold (add : γ → γ → γ) (u : γ) (size : Nat → Nat) : Nat → (Assign → γ) → Assign → γ
  | 0, g, x => g x
  | k+1, g, x =>
    (List.range (size (k+1))).foldl
      (fun acc i => add acc (relFold add u size k g (Assign.upd x (k+1) i))) u

/-- Hypotheses on the three forests: set forests have no identity-reduced positions, the
    unprimed positions of the relation forest are not identity-reduced, same variables. -/
structure ImgShapes (Ss Sr Sc : Shape) : Prop where
  set_noident : ∀ p, Ss.mode p ≠ .ident
  res_noident : ∀ p, Sc.mode p ≠ .ident
  rel_even : ∀ p, Sr.mode (2*p) ≠ .ident
  top_s : Ss.top = Sc.top
  top_r : Sr.top = 2 * Sc.top
  size_s : ∀ p, Ss.size p = Sc.size p

/-! ### small facts -/

theorem pairA_even (x y : Assign) (p : Nat) : pairA x y (2*p) = x p := by
  unfold pairA
  have h1 : (2*p) % 2 = 0 := by omega
  have h2 : (2*p) / 2 = p := by omega
  rw [if_pos h1, h2]

theorem pairA_odd (x y : Assign) (p : Nat) : pairA x y (2*p+1) = y (p+1) := by
  unfold pairA
  have h1 : ¬ ((2*p+1) % 2 = 0) := by omega
  have h2 : (2*p+1+1) / 2 = p+1 := by omega
  rw [if_neg h1, h2]

theorem pairD_even (fwd : Bool) (x y : Assign) (p : Nat) :
    pairD fwd x y (2*p) = if fwd then x p else y p := by
  cases fwd with
  | true => exact pairA_even x y p
  | false => exact pairA_even y x p

theorem pairD_odd (fwd : Bool) (x y : Assign) (p : Nat) :
    pairD fwd x y (2*p+1) = if fwd then y (p+1) else x (p+1) := by
  cases fwd with
  | true => exact pairA_odd x y p
  | false => exact pairA_odd y x p

theorem foldl_ext_mem {δ ε : Type} (l : List ε) (f g : δ → ε → δ) (a : δ)
    (h : ∀ acc i, i ∈ l → f acc i = g acc i) : l.foldl f a = l.foldl g a := by
  induction l generalizing a with
  | nil => rfl
  | cons i l ih =>
    simp only [List.foldl_cons]
    rw [h a i (List.mem_cons_self ..)]
    exact ih _ (fun acc j hj => h acc j (List.mem_cons_of_mem _ hj))

theorem upd_self (x : Assign) (p : Nat) : Assign.upd x p (x p) = x := by
  funext q
  unfold Assign.upd
  split
  · next h => rw [h]
  · rfl

/-- a leaf below positions that are not identity-reduced denotes its value -/
theorem eval_leaf_noident (S : Shape) (zero v : α) (h : ∀ p, S.mode p ≠ .ident) :
    ∀ (k : Nat) (x : Assign), eval S zero k (.leaf v) x = v := by
  intro k
  induction k with
  | zero => intro x; rfl
  | succ k ih =>
    intro x
    rw [eval_succ_skip S zero k x (d := .leaf v) rfl]
    have : ¬ (S.mode (k+1) = .ident ∧ x (k+1) ≠ x (k+2)) := fun hh => h (k+1) hh.1
    rw [if_neg this]
    exact ih x

/-! ### `accum` -/

theorem accum_fold_Below_WFTree (Sc : Shape) (zc : γ) (add : γ → γ → γ) (k : Nat) (l : List (DD γ)) :
    ∀ acc : DD γ, Below k acc → WFTree acc →
      Below k (l.foldl (fun acc d => apply2 Sc Sc Sc zc zc zc add k none acc d) acc) ∧
      WFTree (l.foldl (fun acc d => apply2 Sc Sc Sc zc zc zc add k none acc d) acc) := by
  induction l with
  | nil => intro acc hb hw; exact ⟨hb, hw⟩
  | cons d l ih =>
    intro acc _ _
    simp only [List.foldl_cons]
    have := apply2_Below_WFTree Sc Sc Sc zc zc zc add k none acc d
    exact ih _ this.1 this.2

theorem accum_Below_WFTree (Sc : Shape) (zc : γ) (add : γ → γ → γ) (u : γ) (k : Nat) (l : List (DD γ)) :
    Below k (accum Sc zc add u k l) ∧ WFTree (accum Sc zc add u k l) :=
  accum_fold_Below_WFTree Sc zc add k l (.leaf u) (Below_leaf _ _) (WFTree.leaf _)

theorem accum_fold_eval (Sc : Shape) (zc : γ) (add : γ → γ → γ) (k : Nat) (hk : k ≤ Sc.top)
    (hni : ∀ p, Sc.mode p ≠ .ident) (y : Assign) (hy : Assign.Valid Sc y) (l : List (DD γ)) :
    ∀ acc : DD γ,
      eval Sc zc k (l.foldl (fun acc d => apply2 Sc Sc Sc zc zc zc add k none acc d) acc) y
        = l.foldl (fun v d => add v (eval Sc zc k d y)) (eval Sc zc k acc y) := by
  induction l with
  | nil => intro acc; rfl
  | cons d l ih =>
    intro acc
    simp only [List.foldl_cons]
    rw [ih, apply2_eval Sc Sc Sc zc zc zc add k none acc d y hk hy
      (fun h => absurd h (hni k)) (fun h => absurd h (hni k)) (fun h => absurd h (hni k))]

/-- the accumulated tree denotes the `add`-fold of the denotations, starting from `u` -/
theorem accum_eval (Sc : Shape) (zc : γ) (add : γ → γ → γ) (u : γ) (k : Nat) (hk : k ≤ Sc.top)
    (hni : ∀ p, Sc.mode p ≠ .ident) (y : Assign) (hy : Assign.Valid Sc y) (l : List (DD γ)) :
    eval Sc zc k (accum Sc zc add u k l) y = l.foldl (fun v d => add v (eval Sc zc k d y)) u := by
  unfold accum
  rw [accum_fold_eval Sc zc add k hk hni y hy l, eval_leaf_noident Sc zc u hni]

theorem accum_red (Sc : Shape) (zc : γ) (add : γ → γ → γ) (u : γ) (hSc : Sc.WF) (k : Nat)
    (hni : ∀ p, Sc.mode p ≠ .ident) (l : List (DD γ)) (hl : l ≠ []) (fi : Option Nat) :
    Red Sc zc k fi (accum Sc zc add u k l) = true := by
  unfold accum
  rw [Red_fi_irrel Sc zc k fi none _ (hni k)]
  have hlast : ∀ (l : List (DD γ)) (acc : DD γ), l ≠ [] →
      Red Sc zc k none (l.foldl (fun acc d => apply2 Sc Sc Sc zc zc zc add k none acc d) acc) = true := by
    intro l
    induction l with
    | nil => intro _ h; exact absurd rfl h
    | cons d l ih =>
      intro acc _
      simp only [List.foldl_cons]
      cases l with
      | nil => exact apply2_red Sc Sc Sc zc zc zc add hSc k none acc d (fun _ => hni k)
      | cons e l => exact ih _ (by intro h; cases h)
  exact hlast l _ hl

/-! ### `relFold` -/

theorem relFold_congr (add : γ → γ → γ) (u : γ) (size : Nat → Nat) :
    ∀ (k : Nat) (g1 g2 : Assign → γ) (x1 : Assign),
      (∀ x, (∀ p, k < p → x p = x1 p) → g1 x = g2 x) →
      relFold add u size k g1 x1 = relFold add u size k g2 x1 := by
  intro k
  induction k with
  | zero => intro g1 g2 x1 h; exact h x1 (fun _ _ => rfl)
  | succ k ih =>
    intro g1 g2 x1 h
    unfold relFold
    apply foldl_ext_mem
    intro acc i _
    rw [ih g1 g2 (Assign.upd x1 (k+1) i)]
    intro x hx
    apply h x
    intro p hp
    rw [hx p (by omega), Assign.upd_other x1 i (by omega)]

/-! ### `imageG` -/

section image
variable (Ss Sr Sc : Shape) (za : α) (zb : β) (zc : γ) (add : γ → γ → γ) (mul : α → β → γ) (u : γ)
  (fwd : Bool)

theorem imageG_zero (a : DD α) (b : DD β) :
    imageG Ss Sr Sc za zb zc add mul u fwd 0 a b = .leaf (mul (leafVal za a) (leafVal zb b)) := by
  rw [imageG]

theorem imageG_succ (k : Nat) (a : DD α) (b : DD β) :
    imageG Ss Sr Sc za zb zc add mul u fwd (k+1) a b =
      mkNode Sc zc (k+1) none
        ((List.range (Sc.size (k+1))).map fun res =>
          accum Sc zc add u k
            ((List.range (Ss.size (k+1))).map fun opd =>
              imageG Ss Sr Sc za zb zc add mul u fwd k
                (cofactor Ss za (k+1) none a opd)
                (cofactor Sr zb (2*k+1) (some (if fwd then opd else res))
                  (cofactor Sr zb (2*k+2) none b (if fwd then opd else res))
                  (if fwd then res else opd)))) := by
  rw [imageG]

/-- the result is well shaped and below its position -/
theorem imageG_Below_WFTree (k : Nat) (a : DD α) (b : DD β) :
    Below k (imageG Ss Sr Sc za zb zc add mul u fwd k a b) ∧
    WFTree (imageG Ss Sr Sc za zb zc add mul u fwd k a b) := by
  cases k with
  | zero => rw [imageG_zero]; exact ⟨Below_leaf _ _, WFTree.leaf _⟩
  | succ k =>
    rw [imageG_succ]
    have hc : ∀ c, c ∈ ((List.range (Sc.size (k+1))).map fun res =>
          accum Sc zc add u k
            ((List.range (Ss.size (k+1))).map fun opd =>
              imageG Ss Sr Sc za zb zc add mul u fwd k
                (cofactor Ss za (k+1) none a opd)
                (cofactor Sr zb (2*k+1) (some (if fwd then opd else res))
                  (cofactor Sr zb (2*k+2) none b (if fwd then opd else res))
                  (if fwd then res else opd)))) → Below k c ∧ WFTree c := by
      intro c hc
      obtain ⟨i, _, rfl⟩ := List.mem_map.mp hc
      exact accum_Below_WFTree Sc zc add u k _
    exact ⟨mkNode_Below Sc zc k none _ (fun c h => (hc c h).1),
      mkNode_WFTree Sc zc k none _ (fun c h => (hc c h).1) (fun c h => (hc c h).2)⟩

/-- two cofactor steps of the relation: unprimed position `2k+2`, then primed position `2k+1` -/
theorem rel_two_steps (hev : ∀ p, Sr.mode (2*p) ≠ .ident) (k : Nat) (b : DD β) (z : Assign) :
    eval Sr zb (2*(k+1)) b z
      = eval Sr zb (2*k)
          (cofactor Sr zb (2*k+1) (some (z (2*k+2))) (cofactor Sr zb (2*k+2) none b (z (2*k+2))) (z (2*k+1))) z := by
  have e : 2*(k+1) = (2*k+1)+1 := by omega
  rw [e, cofactor_eval Sr zb (2*k+1) none b z
        (fun h => absurd (by rw [← e] at h; exact h) (hev (k+1))),
      cofactor_eval Sr zb (2*k) (some (z (2*k+2))) _ z (fun _ => rfl)]

/-- MAIN THEOREM.  The denotation of `imageG` at a result assignment `y` is the `add`-fold over
    all operand assignments `x` (lexicographic order) of `mul (A x) (R (x,y))` — for every
    operand trees, every relation rule, forward and backward. -/
theorem imageG_eval (h : ImgShapes Ss Sr Sc) :
    ∀ (k : Nat) (a : DD α) (b : DD β) (y x0 : Assign), k ≤ Sc.top → Assign.Valid Sc y →
      eval Sc zc k (imageG Ss Sr Sc za zb zc add mul u fwd k a b) y
        = relFold add u Ss.size k
            (fun x => mul (eval Ss za k a x) (eval Sr zb (2*k) b (pairD fwd x y))) x0 := by
  intro k
  induction k with
  | zero =>
    intro a b y x0 _ _
    rw [imageG_zero, eval_zero_leaf]
    show _ = mul (eval Ss za 0 a x0) (eval Sr zb 0 b (pairD fwd x0 y))
    rw [eval_zero_eq_leafVal, eval_zero_eq_leafVal]
  | succ k ih =>
    intro a b y x0 hk hy
    have hyk : y (k+1) < Sc.size (k+1) := hy (k+1) (by omega) hk
    rw [imageG_succ,
      mkNode_eval_lt Sc zc k none _ y (length_map_range _ _) hyk
        (fun c hc => by
          obtain ⟨i, _, rfl⟩ := List.mem_map.mp hc
          exact (accum_Below_WFTree Sc zc add u k _).1)
        (fun hm => absurd hm (h.res_noident (k+1))),
      getD_map_range _ _ _ hyk,
      accum_eval Sc zc add u k (by omega) h.res_noident y hy, List.foldl_map]
    show _ = (List.range (Ss.size (k+1))).foldl _ u
    apply foldl_ext_mem
    intro acc opd _
    congr 1
    rw [ih _ _ y (Assign.upd x0 (k+1) opd) (by omega) hy]
    apply relFold_congr
    intro x hx
    have hxk : x (k+1) = opd := by
      rw [hx (k+1) (Nat.lt_succ_self k), Assign.upd_same]
    have ha : eval Ss za (k+1) a x = eval Ss za k (cofactor Ss za (k+1) none a opd) x := by
      rw [cofactor_eval Ss za k none a x (fun hm => absurd hm (h.set_noident (k+1))), hxk]
    have hz2 : pairD fwd x y (2*k+2) = if fwd then opd else y (k+1) := by
      have : 2*k+2 = 2*(k+1) := by omega
      rw [this, pairD_even, hxk]
    have hz1 : pairD fwd x y (2*k+1) = if fwd then y (k+1) else opd := by
      rw [pairD_odd, hxk]
    rw [ha, rel_two_steps Sr zb h.rel_even k b (pairD fwd x y), hz2, hz1]

/-- The result is in reduced form for the result forest. -/
theorem imageG_red (h : ImgShapes Ss Sr Sc) (hSc : Sc.WF) :
    ∀ (k : Nat) (a : DD α) (b : DD β), k ≤ Sc.top →
      Red Sc zc k none (imageG Ss Sr Sc za zb zc add mul u fwd k a b) = true := by
  intro k
  induction k with
  | zero => intro a b _; rw [imageG_zero]; rfl
  | succ k _ =>
    intro a b hk
    rw [imageG_succ]
    apply mkNode_red Sc zc hSc k none _ (length_map_range _ _) _ (fun _ => h.res_noident (k+1))
    intro i hi
    rw [length_map_range] at hi
    rw [getD_map_range _ _ _ hi]
    apply accum_red Sc zc add u hSc k h.res_noident
    intro hnil
    have hlen := congrArg List.length hnil
    rw [length_map_range] at hlen
    have := hSc.size_ge (k+1) (by omega) hk
    rw [← h.size_s] at this
    simp at hlen
    omega

end image

/-! ### boolean sets: pre- and post-image -/

/-- `mt_prepost`: accumulate with union, combine with conjunction, unreachable = false -/
def imageDD (Ss Sr Sc : Shape) (fwd : Bool) (a b : DD Bool) : DD Bool :=
  imageG Ss Sr Sc false false false (fun p q => p || q) (fun p q => p && q) false fwd Sc.top a b

theorem foldl_or_true {ε : Type} (l : List ε) (f : ε → Bool) :
    l.foldl (fun acc i => acc || f i) true = true := by
  induction l with
  | nil => rfl
  | cons a l ih => simp only [List.foldl_cons, Bool.true_or]; exact ih

theorem foldl_or_iff {ε : Type} (l : List ε) (f : ε → Bool) :
    l.foldl (fun acc i => acc || f i) false = true ↔ ∃ i, i ∈ l ∧ f i = true := by
  induction l with
  | nil => simp
  | cons a l ih =>
    simp only [List.foldl_cons, Bool.false_or]
    cases hfa : f a with
    | true =>
      rw [foldl_or_true]
      exact ⟨fun _ => ⟨a, List.mem_cons_self .., hfa⟩, fun _ => rfl⟩
    | false =>
      rw [ih]
      constructor
      · rintro ⟨i, hi, h⟩; exact ⟨i, List.mem_cons_of_mem _ hi, h⟩
      · rintro ⟨i, hi, h⟩
        rcases List.mem_cons.mp hi with rfl | hi
        · rw [hfa] at h; cases h
        · exact ⟨i, hi, h⟩

/-- a witness makes the ∨-fold true -/
theorem relFold_or_of_witness (size : Nat → Nat) :
    ∀ (k : Nat) (g : Assign → Bool) (x : Assign),
      (∀ p, 1 ≤ p → p ≤ k → x p < size p) → g x = true →
      relFold (fun p q => p || q) false size k g x = true := by
  intro k
  induction k with
  | zero => intro g x _ hg; exact hg
  | succ k ih =>
    intro g x hv hg
    unfold relFold
    rw [foldl_or_iff]
    refine ⟨x (k+1), List.mem_range.mpr (hv (k+1) (by omega) (Nat.le_refl _)), ?_⟩
    rw [upd_self]
    exact ih g x (fun p h1 h2 => hv p h1 (by omega)) hg

/-- a true ∨-fold has a witness that agrees with the start assignment above `k` -/
theorem relFold_or_witness (size : Nat → Nat) :
    ∀ (k : Nat) (g : Assign → Bool) (x0 : Assign),
      relFold (fun p q => p || q) false size k g x0 = true →
      ∃ x, (∀ p, k < p → x p = x0 p) ∧ (∀ p, 1 ≤ p → p ≤ k → x p < size p) ∧ g x = true := by
  intro k
  induction k with
  | zero =>
    intro g x0 hg
    exact ⟨x0, fun _ _ => rfl, fun p h1 h2 => by omega, hg⟩
  | succ k ih =>
    intro g x0 hg
    unfold relFold at hg
    rw [foldl_or_iff] at hg
    obtain ⟨i, hi, hgi⟩ := hg
    obtain ⟨x, hx1, hx2, hx3⟩ := ih g _ hgi
    refine ⟨x, ?_, ?_, hx3⟩
    · intro p hp
      rw [hx1 p (by omega), Assign.upd_other x0 i (by omega)]
    · intro p h1 h2
      by_cases hpk : p = k+1
      · subst hpk
        rw [hx1 (k+1) (Nat.lt_succ_self k), Assign.upd_same]
        exact List.mem_range.mp hi
      · exact hx2 p h1 (by omega)

/-! ### integer vectors and matrices -/

/-- `mt_vectXmatr<int>`: accumulate with `+`, combine with `*`, "unreachable" = 0 -/
def vmDD (Ss Sr Sc : Shape) (fwd : Bool) (v m : DD Int) : DD Int :=
  imageG Ss Sr Sc 0 0 0 (fun p q => p + q) (fun p q => p * q) 0 fwd Sc.top v m

/-- all assignments of the variables `k..1` (those above `k` and position 0 taken from `x`), in
    lexicographic order, variable `k` most significant -/
def allAssign (size : Nat → Nat) : Nat → Assign → List Assign
  | 0, x => [x]
  | k+1, x => (List.range (size (k+1))).flatMap fun i => allAssign size k (Assign.upd x (k+1) i)

def isum : List Int → Int
  | [] => 0
  | a :: l => a + isum l

theorem isum_append (l1 l2 : List Int) : isum (l1 ++ l2) = isum l1 + isum l2 := by
  induction l1 with
  | nil => simp [isum]
  | cons a l ih => simp only [List.cons_append, isum, ih]; omega

theorem foldl_add_isum {ε : Type} (l : List ε) (f : ε → Int) (a : Int) :
    l.foldl (fun acc i => acc + f i) a = a + isum (l.map f) := by
  induction l generalizing a with
  | nil => simp [isum]
  | cons i l ih => simp only [List.foldl_cons, List.map_cons, isum, ih]; omega

theorem isum_flatMap {ε : Type} (l : List ε) (F : ε → List Assign) (g : Assign → Int) :
    isum ((l.flatMap F).map g) = isum (l.map fun i => isum ((F i).map g)) := by
  induction l with
  | nil => rfl
  | cons i l ih =>
    simp only [List.flatMap_cons, List.map_append, List.map_cons, isum_append, isum, ih]

/-- the `+`-fold is the sum over the lexicographic enumeration -/
theorem relFold_add_eq_sum (size : Nat → Nat) :
    ∀ (k : Nat) (g : Assign → Int) (x0 : Assign),
      relFold (fun p q => p + q) 0 size k g x0 = isum ((allAssign size k x0).map g) := by
  intro k
  induction k with
  | zero => intro g x0; simp [relFold, allAssign, isum]
  | succ k ih =>
    intro g x0
    unfold relFold allAssign
    rw [foldl_add_isum, isum_flatMap, Int.zero_add]
    congr 1
    apply List.map_congr_left
    intro i _
    exact ih g _

/-- the enumeration contains exactly the assignments that are in range on `1..k` and agree with
    the start assignment elsewhere -/
theorem mem_allAssign (size : Nat → Nat) :
    ∀ (k : Nat) (x0 x : Assign),
      x ∈ allAssign size k x0 ↔
        (∀ p, (p = 0 ∨ k < p) → x p = x0 p) ∧ (∀ p, 1 ≤ p → p ≤ k → x p < size p) := by
  intro k
  induction k with
  | zero =>
    intro x0 x
    simp only [allAssign, List.mem_singleton]
    constructor
    · intro h; subst h; exact ⟨fun _ _ => rfl, fun p h1 h2 => by omega⟩
    · intro h; funext p; exact h.1 p (by omega)
  | succ k ih =>
    intro x0 x
    simp only [allAssign, List.mem_flatMap, List.mem_range]
    constructor
    · rintro ⟨i, hi, hx⟩
      obtain ⟨h1, h2⟩ := (ih _ x).mp hx
      refine ⟨?_, ?_⟩
      · intro p hp
        rw [h1 p (by omega), Assign.upd_other x0 i (by omega)]
      · intro p hp1 hp2
        by_cases hpk : p = k+1
        · subst hpk; rw [h1 (k+1) (Or.inr (Nat.lt_succ_self k)), Assign.upd_same]; exact hi
        · exact h2 p hp1 (by omega)
    · rintro ⟨h1, h2⟩
      refine ⟨x (k+1), h2 (k+1) (by omega) (Nat.le_refl _), (ih _ x).mpr ⟨?_, ?_⟩⟩
      · intro p hp
        by_cases hpk : p = k+1
        · subst hpk; rw [Assign.upd_same]
        · rw [Assign.upd_other x0 _ hpk]; exact h1 p (by omega)
      · intro p hp1 hp2; exact h2 p hp1 (by omega)

/-! ### MT integer distance functions (negative = unreachable) -/

/-- `DIST_MIN` (arith_distmin.cc): negatives are "infinity"; two negatives give the smaller one -/
def distMin (a b : Int) : Int :=
  if a < 0 then (if b < 0 then (if a ≤ b then a else b) else b)
  else if b < 0 then a else (if a ≤ b then a else b)

/-- terminal case of `mt_distance`: no edge or unreachable operand → -1, otherwise `DIST_INC` -/
def distStep (a : Int) (r : Bool) : Int := if r = true ∧ 0 ≤ a then a + 1 else -1

/-- `mt_distance`: accumulate with `DIST_MIN`, unreachable = -1 (the transparent value 0 of the
    forests is an ordinary distance) -/
def distDD (Ss Sr Sc : Shape) (fwd : Bool) (d : DD Int) (b : DD Bool) : DD Int :=
  imageG Ss Sr Sc 0 false 0 distMin distStep (-1) fwd Sc.top d b

theorem distMin_spec (a b : Int) :
    (distMin a b = a ∨ distMin a b = b) ∧
    (0 ≤ a → 0 ≤ distMin a b ∧ distMin a b ≤ a) ∧
    (0 ≤ b → 0 ≤ distMin a b ∧ distMin a b ≤ b) ∧
    (-1 ≤ a → -1 ≤ b → -1 ≤ distMin a b) := by
  unfold distMin
  split <;> split <;> (try split) <;> omega

theorem foldl_distMin_spec {ε : Type} (l : List ε) (f : ε → Int) :
    ∀ a : Int,
      (0 ≤ l.foldl (fun acc i => distMin acc (f i)) a →
        l.foldl (fun acc i => distMin acc (f i)) a = a ∨
        ∃ i, i ∈ l ∧ f i = l.foldl (fun acc i => distMin acc (f i)) a) ∧
      (0 ≤ a → 0 ≤ l.foldl (fun acc i => distMin acc (f i)) a ∧
        l.foldl (fun acc i => distMin acc (f i)) a ≤ a) ∧
      (∀ i, i ∈ l → 0 ≤ f i → 0 ≤ l.foldl (fun acc i => distMin acc (f i)) a ∧
        l.foldl (fun acc i => distMin acc (f i)) a ≤ f i) ∧
      (-1 ≤ a → (∀ i, i ∈ l → -1 ≤ f i) → -1 ≤ l.foldl (fun acc i => distMin acc (f i)) a) := by
  induction l with
  | nil =>
    intro a
    exact ⟨fun _ => Or.inl rfl, fun h => ⟨h, Int.le_refl _⟩, fun i hi _ => (nomatch hi), fun h _ => h⟩
  | cons j l ih =>
    intro a
    simp only [List.foldl_cons]
    obtain ⟨hc, ha, hb, hm⟩ := distMin_spec a (f j)
    obtain ⟨i1, i2, i3, i4⟩ := ih (distMin a (f j))
    refine ⟨?_, ?_, ?_, ?_⟩
    · intro h0
      rcases i1 h0 with e | ⟨i, hi, e⟩
      · rcases hc with c | c
        · left; rw [e, c]
        · right; exact ⟨j, List.mem_cons_self .., by rw [e, c]⟩
      · right; exact ⟨i, List.mem_cons_of_mem _ hi, e⟩
    · intro h0
      have := ha h0
      have := i2 this.1
      omega
    · intro i hi h0
      rcases List.mem_cons.mp hi with rfl | hi
      · have := hb h0
        have := i2 this.1
        omega
      · exact i3 i hi h0
    · intro h1 h2
      exact i4 (hm h1 (h2 j (List.mem_cons_self ..))) (fun i hi => h2 i (List.mem_cons_of_mem _ hi))

/-- a non-negative `DIST_MIN`-fold is attained -/
theorem relFold_dist_attained (size : Nat → Nat) :
    ∀ (k : Nat) (g : Assign → Int) (x0 : Assign),
      0 ≤ relFold distMin (-1) size k g x0 →
      ∃ x, (∀ p, k < p → x p = x0 p) ∧ (∀ p, 1 ≤ p → p ≤ k → x p < size p) ∧
           g x = relFold distMin (-1) size k g x0 := by
  intro k
  induction k with
  | zero => intro g x0 _; exact ⟨x0, fun _ _ => rfl, fun p h1 h2 => by omega, rfl⟩
  | succ k ih =>
    intro g x0 h0
    have hs := (foldl_distMin_spec (List.range (size (k+1)))
      (fun i => relFold distMin (-1) size k g (Assign.upd x0 (k+1) i)) (-1)).1
    have hr : relFold distMin (-1) size (k+1) g x0 =
        (List.range (size (k+1))).foldl
          (fun acc i => distMin acc (relFold distMin (-1) size k g (Assign.upd x0 (k+1) i))) (-1) := by
      rw [relFold]
    rw [hr] at h0 ⊢
    rcases hs h0 with e | ⟨i, hi, e⟩
    · rw [e] at h0; omega
    · have e' : relFold distMin (-1) size k g (Assign.upd x0 (k+1) i) = _ := e
      obtain ⟨x, hx1, hx2, hx3⟩ := ih g _ (by rw [e']; exact h0)
      refine ⟨x, ?_, ?_, by rw [hx3, e']⟩
      · intro p hp
        rw [hx1 p (by omega), Assign.upd_other x0 i (by omega)]
      · intro p h1 h2
        by_cases hpk : p = k+1
        · subst hpk
          rw [hx1 (k+1) (Nat.lt_succ_self k), Assign.upd_same]
          exact List.mem_range.mp hi
        · exact hx2 p h1 (by omega)

/-- the `DIST_MIN`-fold is a lower bound of every reachable candidate -/
theorem relFold_dist_le (size : Nat → Nat) :
    ∀ (k : Nat) (g : Assign → Int) (x : Assign),
      (∀ p, 1 ≤ p → p ≤ k → x p < size p) → 0 ≤ g x →
      0 ≤ relFold distMin (-1) size k g x ∧ relFold distMin (-1) size k g x ≤ g x := by
  intro k
  induction k with
  | zero => intro g x _ h0; exact ⟨h0, Int.le_refl _⟩
  | succ k ih =>
    intro g x hv h0
    have hs := (foldl_distMin_spec (List.range (size (k+1)))
      (fun i => relFold distMin (-1) size k g (Assign.upd x (k+1) i)) (-1)).2.2.1
      (x (k+1)) (List.mem_range.mpr (hv (k+1) (by omega) (Nat.le_refl _)))
    have hr : relFold distMin (-1) size (k+1) g x =
        (List.range (size (k+1))).foldl
          (fun acc i => distMin acc (relFold distMin (-1) size k g (Assign.upd x (k+1) i))) (-1) := by
      rw [relFold]
    rw [hr]
    have hi := ih g x (fun p h1 h2 => hv p h1 (by omega)) h0
    have hs' := hs (by show 0 ≤ relFold distMin (-1) size k g (Assign.upd x (k+1) (x (k+1)))
                       rw [upd_self]; exact hi.1)
    have e : relFold distMin (-1) size k g (Assign.upd x (k+1) (x (k+1))) = relFold distMin (-1) size k g x := by
      rw [upd_self]
    rw [e] at hs'
    omega

/-- the `DIST_MIN`-fold of values `≥ -1` is `≥ -1` -/
theorem relFold_dist_ge (size : Nat → Nat) :
    ∀ (k : Nat) (g : Assign → Int) (x0 : Assign), (∀ x, -1 ≤ g x) →
      -1 ≤ relFold distMin (-1) size k g x0 := by
  intro k
  induction k with
  | zero => intro g x0 h; exact h x0
  | succ k ih =>
    intro g x0 h
    have hs := (foldl_distMin_spec (List.range (size (k+1)))
      (fun i => relFold distMin (-1) size k g (Assign.upd x0 (k+1) i)) (-1)).2.2.2
    rw [relFold]
    exact hs (by omega) (fun i _ => ih g _ h)

end DD

namespace DD

/-! ### Concrete forests and trees (computed instances; used by the non-vacuity examples below) -/

namespace ImageExamples
open CanonExamples ApplyExamples

/-- fully reduced set forest, two variables of size 2 -/
def SetF : Shape where
  top := 2
  size := fun _ => 2
  mode := fun _ => .red

theorem SetF_WF : SetF.WF where
  size_ge := by intro p _ _; exact Nat.le_refl 2
  ident_below_red := by intro p h; cases h

/-- quasi reduced relation forest over the same two variables -/
def RelQ : Shape where
  top := 4
  size := fun _ => 2
  mode := fun _ => .none

theorem SB_even (p : Nat) : SB.mode (2*p) ≠ .ident := by
  intro hm
  have h' : (if 2*p = 3 ∨ 2*p = 1 then Mode.ident else Mode.red) = Mode.ident := hm
  have hp : ¬ (2*p = 3 ∨ 2*p = 1) := by omega
  rw [if_neg hp] at h'; cases h'

/-- set fully reduced, relation identity reduced, result fully reduced -/
theorem sh_FIF : ImgShapes SetF SB SetF :=
  ⟨fun _ h => (by cases h), fun _ h => (by cases h), SB_even, rfl, rfl, fun _ => rfl⟩
/-- set quasi reduced, relation identity reduced, result quasi reduced -/
theorem sh_QIQ : ImgShapes SC SB SC :=
  ⟨fun _ h => (by cases h), fun _ h => (by cases h), SB_even, rfl, rfl, fun _ => rfl⟩
/-- set fully reduced, relation fully reduced, result quasi reduced -/
theorem sh_FFQ : ImgShapes SetF SF SC :=
  ⟨fun _ h => (by cases h), fun _ h => (by cases h), fun _ h => (by cases h), rfl, rfl, fun _ => rfl⟩
/-- set quasi reduced, relation quasi reduced, result fully reduced -/
theorem sh_QQF : ImgShapes SC RelQ SetF :=
  ⟨fun _ h => (by cases h), fun _ h => (by cases h), fun _ h => (by cases h), rfl, rfl, fun _ => rfl⟩

/-- the set {x₂ = 0, x₁ = 1} -/
def s01 : DD Bool := .node 2 [.node 1 [.leaf false, .leaf true], .leaf false]
/-- the set {x₂ = 1, x₁ = 1} -/
def s11 : DD Bool := .node 2 [.leaf false, .node 1 [.leaf false, .leaf true]]
/-- the relation "flip x₂, keep x₁" in the identity-reduced forest: the terminals skip the
    unprimed position 2 (redundant) and the primed position 1 (identity) -/
def flip2 : DD Bool := .node 4 [.node 3 [.leaf false, .leaf true], .node 3 [.leaf true, .leaf false]]
/-- the identity relation in the identity-reduced forest: everything is skipped -/
def idRel : DD Bool := .leaf true
/-- "x₂ := 1 from anywhere, x₁ arbitrary → arbitrary" in the fully reduced forest: the unprimed
    position 4 and both positions of variable 1 are skipped as redundant -/
def set2 : DD Bool := .node 3 [.leaf false, .leaf true]

example : Red SB false 4 none flip2 = true := by decide
/-- post-image through an identity-skipped variable: {(0,1)} ↦ {(1,1)}; pre-image back -/
example : imageDD SetF SB SetF true s01 flip2 = s11 := by decide
example : imageDD SetF SB SetF false s11 flip2 = s01 := by decide
/-- the identity relation (a terminal) maps every set to itself, rebuilt in the result forest -/
example : imageDD SetF SB SetF true s01 idRel = s01 := by decide
example : imageDD SC SB SC true (.node 2 [.node 1 [.leaf false, .leaf true], .leaf false]) idRel
    = .node 2 [.node 1 [.leaf false, .leaf true], .leaf false] := by decide
/-- redundant expansion of a fully reduced relation; quasi-reduced result keeps the redundant node -/
example : imageDD SetF SF SC true s01 set2
    = .node 2 [.leaf false, .node 1 [.leaf true, .leaf true]] := by decide
/-- ... and the pre-image of {x₂ = 1} under it is everything: a chain of redundant nodes in the
    quasi-reduced result, a single terminal in the fully reduced one -/
example : imageDD SetF SF SC false s11 set2
    = .node 2 [.node 1 [.leaf true, .leaf true], .node 1 [.leaf true, .leaf true]] := by decide
example : imageDD SetF SF SetF false s11 set2 = .leaf true := by decide
/-- empty set, empty relation -/
example : imageDD SetF SB SetF true (.leaf false) flip2 = .leaf false := by decide
example : imageDD SetF SB SetF true s01 (.leaf false) = .leaf false := by decide

/-- vector (3, 5 | 0, 0) over (x₂, x₁), matrix "flip x₂ with weight 2, keep x₁" (identity reduced):
    v·M = (0, 0 | 6, 10),  M·v = (0, 0 | 6, 10) transposed roles -/
def vec : DD Int := .node 2 [.node 1 [.leaf 3, .leaf 5], .leaf 0]
def mat : DD Int := .node 4 [.node 3 [.leaf 0, .leaf 2], .node 3 [.leaf 2, .leaf 0]]
example : vmDD SetF SB SetF true vec mat = .node 2 [.leaf 0, .node 1 [.leaf 6, .leaf 10]] := by decide
example : vmDD SetF SB SetF false vec mat = .node 2 [.leaf 0, .node 1 [.leaf 6, .leaf 10]] := by decide
/-- a fully reduced all-ones matrix over variable 1 sums the entries: (3+5) everywhere below x₂' = 1 -/
example : vmDD SetF SF SetF true vec (.node 3 [.leaf 0, .leaf 1])
    = .node 2 [.leaf 0, .leaf 8] := by decide

/-- distances (x₂,x₁): (0,0) ↦ 4, (0,1) ↦ 0, x₂ = 1 unreachable; one step of `flip2` -/
def dist0 : DD Int := .node 2 [.node 1 [.leaf 4, .leaf 0], .leaf (-1)]
example : distDD SetF SB SetF true dist0 flip2 = .node 2 [.leaf (-1), .node 1 [.leaf 5, .leaf 1]] := by decide
/-- all-pairs step on x₁ (fully reduced relation, skipped): minimum 0+1 everywhere below x₂' = 1 -/
example : distDD SetF SF SetF true dist0 set2 = .node 2 [.leaf (-1), .leaf 1] := by decide

end ImageExamples

end DD

/-! ## Property theorems -/

namespace DD
open CanonExamples ApplyExamples ImageExamples

/-- C09 (sets).  For every set tree `a` (fully or quasi reduced forest), every relation tree `b`
    of ANY reduction rule and every result forest, the tree computed by the model of
    `prepost_set_mtrel<mt_prepost>` contains `y` iff some member `x` of the set has an edge
    `x → y` (`fwd`, POST_IMAGE) resp. `y → x` (`¬fwd`, PRE_IMAGE): the relational definition. -/
theorem imageDD_eval (Ss Sr Sc : Shape) (h : ImgShapes Ss Sr Sc) (fwd : Bool) (a b : DD Bool)
    (y : Assign) (hy : Assign.Valid Sc y) :
    eval Sc false Sc.top (imageDD Ss Sr Sc fwd a b) y = true ↔
      ∃ x, Assign.Valid Ss x ∧ eval Ss false Ss.top a x = true ∧
           eval Sr false Sr.top b (pairD fwd x y) = true := by
  unfold imageDD
  constructor
  · intro hh
    rw [imageG_eval Ss Sr Sc false false false _ _ false fwd h Sc.top a b y y (Nat.le_refl _) hy] at hh
    obtain ⟨x, _, hx2, hx3⟩ := relFold_or_witness Ss.size Sc.top _ y hh
    rw [Bool.and_eq_true] at hx3
    refine ⟨x, ?_, ?_, ?_⟩
    · intro p h1 h2; rw [h.top_s] at h2; exact hx2 p h1 h2
    · rw [h.top_s]; exact hx3.1
    · rw [h.top_r]; exact hx3.2
  · rintro ⟨x, hx1, hx2, hx3⟩
    rw [imageG_eval Ss Sr Sc false false false _ _ false fwd h Sc.top a b y x (Nat.le_refl _) hy]
    apply relFold_or_of_witness
    · intro p h1 h2; rw [← h.top_s] at h2; exact hx1 p h1 h2
    · rw [h.top_s] at hx2; rw [h.top_r] at hx3
      show (eval Ss false Sc.top a x && eval Sr false (2 * Sc.top) b (pairD fwd x y)) = true
      rw [hx2, hx3]; rfl

example (y : Assign) (hy : Assign.Valid SetF y) :   -- nobody but (0,1) is mapped to (1,1) by `flip2`
    eval SetF false 2 s11 y = true ↔
      ∃ x, Assign.Valid SetF x ∧ eval SetF false 2 s01 x = true ∧
           eval SB false 4 flip2 (pairD true x y) = true := by
  have h := imageDD_eval SetF SB SetF sh_FIF true s01 flip2 y hy
  have e : imageDD SetF SB SetF true s01 flip2 = s11 := by decide
  rw [e] at h
  exact h

/-- POST_IMAGE: `y` is in the result iff some `x ∈ S` has an edge `(x, y)` (unprimed `x`, primed `y`). -/
theorem post_eval (Ss Sr Sc : Shape) (h : ImgShapes Ss Sr Sc) (a b : DD Bool)
    (y : Assign) (hy : Assign.Valid Sc y) :
    eval Sc false Sc.top (imageDD Ss Sr Sc true a b) y = true ↔
      ∃ x, Assign.Valid Ss x ∧ eval Ss false Ss.top a x = true ∧
           eval Sr false Sr.top b (pairA x y) = true :=
  imageDD_eval Ss Sr Sc h true a b y hy

example (y : Assign) (hy : Assign.Valid SC y) :   -- quasi-reduced set and result, identity-reduced relation
    eval SC false 2 (.node 2 [.leaf false, .node 1 [.leaf false, .leaf true]]) y = true ↔
      ∃ x, Assign.Valid SC x ∧
           eval SC false 2 (.node 2 [.node 1 [.leaf false, .leaf true], .leaf false]) x = true ∧
           eval SB false 4 flip2 (pairA x y) = true := by
  have h := post_eval SC SB SC sh_QIQ (.node 2 [.node 1 [.leaf false, .leaf true], .leaf false]) flip2 y hy
  have e : imageDD SC SB SC true (.node 2 [.node 1 [.leaf false, .leaf true], .leaf false]) flip2
      = .node 2 [.leaf false, .node 1 [.leaf false, .leaf true]] := by decide
  rw [e] at h
  exact h

/-- PRE_IMAGE: `y` is in the result iff it has an edge `(y, x)` to some `x ∈ S`. -/
theorem pre_eval (Ss Sr Sc : Shape) (h : ImgShapes Ss Sr Sc) (a b : DD Bool)
    (y : Assign) (hy : Assign.Valid Sc y) :
    eval Sc false Sc.top (imageDD Ss Sr Sc false a b) y = true ↔
      ∃ x, Assign.Valid Ss x ∧ eval Ss false Ss.top a x = true ∧
           eval Sr false Sr.top b (pairA y x) = true :=
  imageDD_eval Ss Sr Sc h false a b y hy

example (y : Assign) (hy : Assign.Valid SC y) :   -- fully reduced operands, quasi-reduced result: "everything"
    eval SC false 2 (.node 2 [.node 1 [.leaf true, .leaf true], .node 1 [.leaf true, .leaf true]]) y = true ↔
      ∃ x, Assign.Valid SetF x ∧ eval SetF false 2 s11 x = true ∧
           eval SF false 4 set2 (pairA y x) = true := by
  have h := pre_eval SetF SF SC sh_FFQ s11 set2 y hy
  have e : imageDD SetF SF SC false s11 set2
      = .node 2 [.node 1 [.leaf true, .leaf true], .node 1 [.leaf true, .leaf true]] := by decide
  rw [e] at h
  exact h

/-- The image computed by the model is in reduced form for the result forest (it is a legal,
    canonical edge of that forest whatever the rules of the operand forests). -/
theorem imageDD_red (Ss Sr Sc : Shape) (h : ImgShapes Ss Sr Sc) (hSc : Sc.WF) (fwd : Bool)
    (a b : DD Bool) : Red Sc false Sc.top none (imageDD Ss Sr Sc fwd a b) = true :=
  imageG_red Ss Sr Sc false false false _ _ false fwd h hSc Sc.top a b (Nat.le_refl _)

example : Red SC false 2 none (imageDD SetF SF SC true s01 set2) = true :=
  imageDD_red SetF SF SC sh_FFQ SC_WF true s01 set2
example : Red SC false 2 none (.node 2 [.leaf false, .node 1 [.leaf true, .leaf true]]) = true := by decide

/-- Uniqueness: ANY reduced edge of the result forest that denotes the relational image is the
    tree of the model — shortcuts over skipped levels, the compute table and the order of the
    unions in the C++ code cannot produce anything else without breaking canonicity or the
    relational definition. -/
theorem imageDD_unique (Ss Sr Sc : Shape) (h : ImgShapes Ss Sr Sc) (hSc : Sc.WF) (fwd : Bool)
    (a b r : DD Bool) (hr : Red Sc false Sc.top none r = true)
    (hd : ∀ y, Assign.Valid Sc y →
      (eval Sc false Sc.top r y = true ↔
        ∃ x, Assign.Valid Ss x ∧ eval Ss false Ss.top a x = true ∧
             eval Sr false Sr.top b (pairD fwd x y) = true)) :
    r = imageDD Ss Sr Sc fwd a b := by
  apply (canon Sc false hSc r _ hr (imageDD_red Ss Sr Sc h hSc fwd a b)).mp
  intro y hy
  have h1 := hd y hy
  have h2 := imageDD_eval Ss Sr Sc h fwd a b y hy
  cases e1 : eval Sc false Sc.top r y <;> cases e2 : eval Sc false Sc.top (imageDD Ss Sr Sc fwd a b) y
  · rfl
  · exact absurd (h1.mpr (h2.mp e2)) (by rw [e1]; intro hc; cases hc)
  · exact absurd (h2.mpr (h1.mp e1)) (by rw [e2]; intro hc; cases hc)
  · rfl

example : (.node 2 [.leaf false, .node 1 [.leaf true, .leaf true]] : DD Bool)
    = imageDD SetF SF SC true s01 set2 := by decide
/-- a tree with the right denotation that is NOT reduced (skips a level in the quasi-reduced forest) is
    not the model's result: the hypothesis `Red` of `imageDD_unique` is necessary -/
example : (.node 2 [.leaf false, .leaf true] : DD Bool) ≠ imageDD SetF SF SC true s01 set2 := by decide

/-- Uniqueness for every instantiation (sets, vectors, distances): a reduced edge of the result
    forest whose value at every `y` is the specified fold is the tree computed by the model. -/
theorem imageG_unique {α β γ : Type} [DecidableEq α] [DecidableEq β] [DecidableEq γ]
    (Ss Sr Sc : Shape) (za : α) (zb : β) (zc : γ) (add : γ → γ → γ) (mul : α → β → γ) (u : γ)
    (fwd : Bool) (h : ImgShapes Ss Sr Sc) (hSc : Sc.WF) (a : DD α) (b : DD β) (r : DD γ)
    (hr : Red Sc zc Sc.top none r = true)
    (hd : ∀ y, Assign.Valid Sc y →
      eval Sc zc Sc.top r y = relFold add u Ss.size Sc.top
        (fun x => mul (eval Ss za Sc.top a x) (eval Sr zb (2 * Sc.top) b (pairD fwd x y))) y) :
    r = imageG Ss Sr Sc za zb zc add mul u fwd Sc.top a b := by
  apply (canon Sc zc hSc r _ hr
    (imageG_red Ss Sr Sc za zb zc add mul u fwd h hSc Sc.top a b (Nat.le_refl _))).mp
  intro y hy
  rw [hd y hy, imageG_eval Ss Sr Sc za zb zc add mul u fwd h Sc.top a b y y (Nat.le_refl _) hy]

example : (.node 2 [.leaf 0, .node 1 [.leaf 6, .leaf 10]] : DD Int)
    = imageG SetF SB SetF 0 0 0 (fun p q => p + q) (fun p q => p * q) 0 true SetF.top vec mat := by decide

/-- C09 (vector–matrix products).  The tree computed by the model of
    `prepost_set_mtrel<mt_vectXmatr<int>>` denotes, at `y`, the sum over the shared index `x`
    (nested sums, variable `K` outermost) of `v x * M (x,y)` (`fwd`, VM_MULTIPLY) resp.
    `M (y,x) * v x` (`¬fwd`, MV_MULTIPLY) — for every vector tree, every matrix tree of any
    reduction rule, every result forest. -/
theorem vmDD_eval (Ss Sr Sc : Shape) (h : ImgShapes Ss Sr Sc) (fwd : Bool) (v m : DD Int)
    (y x0 : Assign) (hy : Assign.Valid Sc y) :
    eval Sc 0 Sc.top (vmDD Ss Sr Sc fwd v m) y
      = relFold (fun p q => p + q) 0 Ss.size Ss.top
          (fun x => eval Ss 0 Ss.top v x * eval Sr 0 Sr.top m (pairD fwd x y)) x0 := by
  unfold vmDD
  rw [imageG_eval Ss Sr Sc 0 0 0 _ _ 0 fwd h Sc.top v m y x0 (Nat.le_refl _) hy, h.top_s, h.top_r]

example : eval SetF 0 2 (vmDD SetF SB SetF true vec mat) (fun _ => 1) = 10 := by decide
example : relFold (fun p q => p + q) 0 SetF.size 2
    (fun x => eval SetF 0 2 vec x * eval SB 0 4 mat (pairD true x (fun _ => 1))) (fun _ => 1) = 10 := by decide

/-- The same as a sum over the explicit lexicographic enumeration of the index assignments
    (`mem_allAssign`: exactly the assignments in range). -/
theorem vmDD_eval_sum (Ss Sr Sc : Shape) (h : ImgShapes Ss Sr Sc) (fwd : Bool) (v m : DD Int)
    (y x0 : Assign) (hy : Assign.Valid Sc y) :
    eval Sc 0 Sc.top (vmDD Ss Sr Sc fwd v m) y
      = isum ((allAssign Ss.size Ss.top x0).map
          (fun x => eval Ss 0 Ss.top v x * eval Sr 0 Sr.top m (pairD fwd x y))) := by
  rw [vmDD_eval Ss Sr Sc h fwd v m y x0 hy, relFold_add_eq_sum]

example : (allAssign SetF.size 2 (fun _ => 0)).length = 4 := by decide
example : isum ((allAssign SetF.size 2 (fun _ => 1)).map
    (fun x => eval SetF 0 2 vec x * eval SB 0 4 mat (pairD true x (fun _ => 1)))) = 10 := by decide

/-- C09 (MT integer distances).  With `r` the value of the model of
    `prepost_set_mtrel<mt_distance>` at `y`: `r` is a lower bound of `d x + 1` over all reachable
    (`d x ≥ 0`) neighbours `x`, it is attained whenever it is non-negative, and it is `-1` when
    there is no reachable neighbour: one plus the minimum operand distance, or unreachable. -/
theorem distDD_eval (Ss Sr Sc : Shape) (h : ImgShapes Ss Sr Sc) (fwd : Bool) (d : DD Int)
    (b : DD Bool) (y : Assign) (hy : Assign.Valid Sc y) :
    (∀ x, Assign.Valid Ss x → 0 ≤ eval Ss 0 Ss.top d x →
        eval Sr false Sr.top b (pairD fwd x y) = true →
        0 ≤ eval Sc 0 Sc.top (distDD Ss Sr Sc fwd d b) y ∧
        eval Sc 0 Sc.top (distDD Ss Sr Sc fwd d b) y ≤ eval Ss 0 Ss.top d x + 1) ∧
    (0 ≤ eval Sc 0 Sc.top (distDD Ss Sr Sc fwd d b) y →
        ∃ x, Assign.Valid Ss x ∧ 0 ≤ eval Ss 0 Ss.top d x ∧
          eval Sr false Sr.top b (pairD fwd x y) = true ∧
          eval Sc 0 Sc.top (distDD Ss Sr Sc fwd d b) y = eval Ss 0 Ss.top d x + 1) ∧
    (eval Sc 0 Sc.top (distDD Ss Sr Sc fwd d b) y < 0 →
        eval Sc 0 Sc.top (distDD Ss Sr Sc fwd d b) y = -1) := by
  unfold distDD
  have key := fun x0 => imageG_eval Ss Sr Sc (0:Int) false (0:Int) distMin distStep (-1) fwd h Sc.top d b y x0
    (Nat.le_refl _) hy
  refine ⟨?_, ?_, ?_⟩
  · intro x hx h0 hr
    rw [key x]
    have hg : distStep (eval Ss 0 Sc.top d x) (eval Sr false (2 * Sc.top) b (pairD fwd x y))
        = eval Ss 0 Ss.top d x + 1 := by
      rw [← h.top_r, ← h.top_s, hr]
      unfold distStep
      rw [if_pos ⟨rfl, h0⟩]
    have := relFold_dist_le Ss.size Sc.top
      (fun x => distStep (eval Ss 0 Sc.top d x) (eval Sr false (2 * Sc.top) b (pairD fwd x y))) x
      (fun p h1 h2 => hx p h1 (by rw [h.top_s]; exact h2))
      (by show 0 ≤ distStep _ _; rw [hg]; omega)
    rw [hg] at this
    exact this
  · intro h0
    rw [key y] at h0 ⊢
    obtain ⟨x, _, hx2, hx3⟩ := relFold_dist_attained Ss.size Sc.top _ y h0
    rw [← hx3] at h0 ⊢
    have hx3' : 0 ≤ distStep (eval Ss 0 Sc.top d x) (eval Sr false (2 * Sc.top) b (pairD fwd x y)) := h0
    unfold distStep at hx3' ⊢
    by_cases hc : eval Sr false (2 * Sc.top) b (pairD fwd x y) = true ∧ 0 ≤ eval Ss 0 Sc.top d x
    · rw [if_pos hc]
      refine ⟨x, fun p h1 h2 => hx2 p h1 (by rw [← h.top_s]; exact h2), ?_, ?_, ?_⟩
      · rw [h.top_s]; exact hc.2
      · rw [h.top_r]; exact hc.1
      · rw [h.top_s]
    · rw [if_neg hc] at hx3'; omega
  · intro hneg
    rw [key y] at hneg ⊢
    have := relFold_dist_ge Ss.size Sc.top
      (fun x => distStep (eval Ss 0 Sc.top d x) (eval Sr false (2 * Sc.top) b (pairD fwd x y))) y
      (by intro x; show -1 ≤ distStep _ _; unfold distStep; split <;> omega)
    omega


example : eval SetF 0 2 (distDD SetF SB SetF true dist0 flip2) (fun _ => 1) = 1 := by decide   -- 0 + 1 via (0,1)
example : eval SetF 0 2 (distDD SetF SB SetF true dist0 flip2) (fun _ => 0) = -1 := by decide  -- no reachable neighbour
example : eval SetF 0 2 (distDD SetF SF SetF true dist0 set2) (fun p => if p = 2 then 1 else 0) = 1 := by decide

end DD

#print axioms Img.post_union
#print axioms Img.post_mono
#print axioms Img.pre_eq_post_converse
#print axioms DD.imageG_eval
#print axioms DD.imageG_red
#print axioms DD.imageDD_eval
#print axioms DD.post_eval
#print axioms DD.pre_eval
#print axioms DD.imageDD_red
#print axioms DD.imageDD_unique
#print axioms DD.imageG_unique
#print axioms DD.vmDD_eval
#print axioms DD.vmDD_eval_sum
#print axioms DD.mem_allAssign
#print axioms DD.distDD_eval

/- Output (Lean 4.33.0):
'Meddly.Img.post_union' depends on axioms: [Quot.sound]
'Meddly.Img.post_mono' depends on axioms: [propext, Quot.sound]
'Meddly.Img.pre_eq_post_converse' depends on axioms: [Quot.sound]
'Meddly.DD.imageG_eval' depends on axioms: [propext, Classical.choice, Quot.sound]
'Meddly.DD.imageG_red' depends on axioms: [propext, Classical.choice, Quot.sound]
'Meddly.DD.imageDD_eval' depends on axioms: [propext, Classical.choice, Quot.sound]
'Meddly.DD.post_eval' depends on axioms: [propext, Classical.choice, Quot.sound]
'Meddly.DD.pre_eval' depends on axioms: [propext, Classical.choice, Quot.sound]
'Meddly.DD.imageDD_red' depends on axioms: [propext, Classical.choice, Quot.sound]
'Meddly.DD.imageDD_unique' depends on axioms: [propext, Classical.choice, Quot.sound]
'Meddly.DD.imageG_unique' depends on axioms: [propext, Classical.choice, Quot.sound]
'Meddly.DD.vmDD_eval' depends on axioms: [propext, Classical.choice, Quot.sound]
'Meddly.DD.vmDD_eval_sum' depends on axioms: [propext, Classical.choice, Quot.sound]
'Meddly.DD.mem_allAssign' depends on axioms: [propext, Quot.sound]
'Meddly.DD.distDD_eval' depends on axioms: [propext, Classical.choice, Quot.sound]
-/

end Meddly
