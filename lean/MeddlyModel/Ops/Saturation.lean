/-
  C08 / C20 — the decision-diagram recursion of SATURATION
  (`saturation_by_events_op::saturate`, `forwd_dfs_by_events_mt::saturateHelper` / `recFire`,
  src/operations/sat_pregen.cc; the same recursion is `saturate_1` / `recFire` of satur_sets.cc).

  This file holds the MODEL (executable definitions); `Ops/SaturationProofs.lean` holds the proofs:
  `saturate` terminates by its own stop test in a set that is closed under every event, and
  that set is exactly the least fixed point (`satur_eq_lfp`), as a reduced — hence canonical — tree
  (`saturate_red`, `satur_eq_bfs`).

  What is modelled

  * Sets are trees `DD Bool` over a shape `S` whose positions are all fully reduced
    (`S.mode p = .red`), transparent value `false`; a state is a valid assignment of positions
    `1..S.top`.  Results are built through `mkNode` (= `createReducedNode`) and level-wise unions
    (`unionAt` = `apply2 (||)`, the model of `mddUnion`).
  * The transition relation is given partitioned by top level, in the decomposed form
    `saturateHelper` reads it: `ev k i j` is the sub-relation (on positions `1..k-1`) of the
    events with top level `k` below the matrix entry `i → j` of position `k`; every position
    above `k` is left unchanged.
  * `recFire k n r`  — `recFire(mdd, mxd)`: first pass `nb[j] ∪= recFire(A[i], R[i][j])`,
    then `saturateHelper(nb)`, then `createReducedNode`.
  * `sweep` / `satLoop` — `saturateHelper`: the in-place update
    `nb[j] := nb[j] ∪ recFire(nb[i], R_k[i][j])`, repeated until a whole sweep over all index
    pairs changes no child (children are compared as trees, i.e. as node handles).
  * `saturate k n`  — children first (`nb[i] := saturate(A[i], k-1)`), then `saturateHelper`, then
    `createReducedNode`.

  MODELLING BOUNDARY (stated, not proved about the C++)

  * The relation is a SEMANTIC object: `Rel = Assign → Assign → Bool`, read at positions `1..k`
    through `relAt k` (so no "reads only these positions" side condition is needed), `sub` is
    the matrix entry.  In the library the relation is itself a node of an identity-reduced
    forest; its unpacking (`initRedundant` / `initIdentity`) is what `sub` abstracts.  Because an
    arbitrary function cannot be tested for emptiness, the shortcut `mxd == 0 → return 0` is not
    taken (firing an empty relation returns the empty set, `recFire_spec`); the shortcut
    `mdd == 0 → return 0` is.
  * `saturateHelper` drives its loop with a queue of the indexes whose child changed; here one
    round fires every pair `(i, j)` in order, in place, and the loop stops at the first round
    that changes nothing.  Both are chaotic iterations with the same stop condition (no child
    can change any more).  The fuel `numStates + 1` is never exhausted (`satLoop_stops`).
  * No compute tables (`saturate` / `recFire` entries): they are transparent caches of these
    functions as long as the relation does not change (finding F4 is about exactly that).
  * LEVELS ARE NEVER SKIPPED by the recursion of the model: `recFire k` is entered at every level
    `k, k-1, …, 0`; a tree that skips a position is expanded there (`cofactor` returns the tree
    itself for every index = `initRedundant`).  This is `recFire(int L, …)` of satur_sets.cc
    (`Clevel = L`, `nextL = downLevel(Clevel)`) and `saturate(mdd, k)` of sat_pregen.cc, which
    carry the level explicitly.  `forwd_dfs_by_events_mt::recFire` of sat_pregen.cc instead jumps
    to `rLevel = MAX(ABS(mxdLevel), mddLevel)` and runs `saturateHelper` only there: at a level
    that BOTH the set node and the relation node skip, the events of that level are not fired on
    the result.  The model describes the algorithm WITHOUT that jump; whether the jump loses
    states when the set forest is fully reduced is a question for the correspondence runs, not
    settled here (in satur_sets.cc the jump survives only as a commented-out alternative).
  * The shortcut "relation node is the identity terminal → return the set node" is legitimate
    only because every set node handed to `recFire` is already saturated; in the model the
    recursion is run and proved to return the same tree (`recFire_identity`).
  * `saturate` returns a terminal argument unchanged in the library; here the recursion is run on
    it and proved to return the same terminal (`saturate_terminal`).  At level 0 a (malformed)
    non-terminal argument is read as the empty set, as `eval` reads it.
-/
import MeddlyModel.Ops.ApplyProofs
import MeddlyModel.Ops.Pregen

namespace Meddly
namespace Satur
open DD

/-- a relation on assignments; meaningful at positions `1..k` through `relAt k` -/
abbrev Rel := Assign → Assign → Bool

def zeroA : Assign := fun _ => 0

/-- keep positions `1..k`, zero elsewhere -/
def trunc (k : Nat) (x : Assign) : Assign := fun p => if 1 ≤ p ∧ p ≤ k then x p else 0

/-- `r` read as a relation on positions `1..k` -/
def relAt (k : Nat) (r : Rel) (x y : Assign) : Bool := r (trunc k x) (trunc k y)

/-- matrix entry `i → j` of `r` at position `p` -/
def sub (r : Rel) (p i j : Nat) : Rel := fun x y => r (Assign.upd x p i) (Assign.upd y p j)

/-- the empty set -/
def bot : DD Bool := .leaf false

section Defs
variable (S : Shape) (ev : Nat → Nat → Nat → Rel)

/-- union of two sets read at position `k` (`mddUnion`) -/
def unionAt (k : Nat) (a b : DD Bool) : DD Bool :=
  apply2 S S S false false false (fun p q => p || q) k none a b

/-- all index pairs `(i, j)`, row by row -/
def pairs (n : Nat) : List (Nat × Nat) :=
  (List.range n).flatMap fun i => (List.range n).map fun j => (i, j)

/-- `nb[j] := nb[j] ∪ t` -/
def addTo (k : Nat) (cs : List (DD Bool)) (j : Nat) (t : DD Bool) : List (DD Bool) :=
  cs.set j (unionAt S k (cs.getD j bot) t)

/-- number of assignments of positions `1..k` -/
def numStates : Nat → Nat
  | 0 => 1
  | k+1 => S.size (k+1) * numStates k

/-- repeat `f` until it changes nothing (trees compared for equality), at most `fuel` times -/
def loop (f : List (DD Bool) → List (DD Bool)) : Nat → List (DD Bool) → List (DD Bool)
  | 0, cs => cs
  | n+1, cs => if f cs = cs then cs else loop f n (f cs)

/-- one round of `saturateHelper` at level `k+1`: for every `i`, `j`, in place,
    `nb[j] := nb[j] ∪ recFire(nb[i], R_{k+1}[i][j])` -/
def sweep (fire : DD Bool → Rel → DD Bool) (k : Nat) (cs : List (DD Bool)) : List (DD Bool) :=
  (pairs (S.size (k+1))).foldl
    (fun cs p => addTo S k cs p.2 (fire (cs.getD p.1 bot) (ev (k+1) p.1 p.2))) cs

/-- `saturateHelper` at level `k+1`: rounds until nothing changes -/
def satLoop (fire : DD Bool → Rel → DD Bool) (k : Nat) (cs : List (DD Bool)) : List (DD Bool) :=
  loop (sweep S ev fire k) (numStates S (k+1) + 1) cs

/-- first pass of `recFire` at level `k+1`: `nb[j] ∪= recFire(A[i], R[i][j])` from an empty `nb` -/
def firstPass (fire : DD Bool → Rel → DD Bool) (k : Nat) (n : DD Bool) (r : Rel) :
    List (DD Bool) :=
  (pairs (S.size (k+1))).foldl
    (fun cs p => addTo S k cs p.2
      (fire (cofactor S false (k+1) none n p.1) (sub r (k+1) p.1 p.2)))
    (List.replicate (S.size (k+1)) bot)

/-- `recFire(mdd, mxd)` at level `k`: the image of `n` under `r`, saturated at level `k` -/
def recFire : Nat → DD Bool → Rel → DD Bool
  | 0, n, r => .leaf (leafVal false n && r zeroA zeroA)
  | k+1, n, r =>
    if n = bot then bot else
    mkNode S false (k+1) none (satLoop S ev (recFire k) k (firstPass S (recFire k) k n r))

/-- `saturate(mdd, k)`: children first, then the fixed-point loop of level `k`, then reduce -/
def saturate : Nat → DD Bool → DD Bool
  | 0, n => .leaf (leafVal false n)
  | k+1, n => mkNode S false (k+1) none (satLoop S ev (recFire S ev k) k
      ((List.range (S.size (k+1))).map fun i => saturate k (cofactor S false (k+1) none n i)))

/-! ### Explicit states, for the comparison with the executable least fixed point
    `Pregen.reachFix` (states are tuples `List Nat`, index 0 = variable 1) -/

/-- all assignments of positions `1..k` (zero elsewhere) -/
def enum : Nat → List Assign
  | 0 => [zeroA]
  | k+1 => (List.range (S.size (k+1))).flatMap fun i => (enum k).map fun x => Assign.upd x (k+1) i

def ofList (l : List Nat) : Assign := fun p => if p = 0 then 0 else l.getD (p-1) 0

def toList (K : Nat) (x : Assign) : List Nat := (List.range K).map fun i => x (i+1)

/-- the state space as tuples -/
def dom : List (List Nat) := (enum S S.top).map (toList S.top)

/-- the whole transition relation on tuples: the union over `m < K` of the events with top level
    `m+1`, each lifted by the identity on the positions above `m+1` -/
def stepRel : Pregen.Rel (List Nat) := fun a b =>
  (List.range S.top).any fun m =>
    relAt m (ev (m+1) (ofList a (m+1)) (ofList b (m+1))) (ofList a) (ofList b) &&
    (List.range S.top).all fun p => decide (p ≤ m) || ofList a (p+1) == ofList b (p+1)

/-- the set of tuples denoted by a tree -/
def setOf (t : DD Bool) : Pregen.SSet (List Nat) := fun a => eval S false S.top t (ofList a)

end Defs

end Satur
end Meddly
