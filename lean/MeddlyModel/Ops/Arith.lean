/-
  Layer 2 for C05: element-wise arithmetic on decision-diagram trees.

  `applyE2 f` is `DD.apply2` for a *partial* scalar operation
  `f : α → β → Except ε γ` (division by zero, subtracting infinity …): the same
  position-by-position recursion (operands and result in forests with their own
  reduction rules, skipped positions expanded by `cofactor`, result rebuilt through
  `mkNode` = `forest::createReducedNode`), run in the `Except` monad: the first
  invalid leaf pair aborts the whole operation with its error code.

  This is the skeleton shared by `arith_compat / arith_factor / arith_pushdn`
  (arith_templ.h) and `compare_mt / compare_ev` (compare.cc) with the terminal
  shortcuts and the compute table removed; edge values are pushed down to the
  leaves (the tree model stores the function value in the leaf).

  What the model visits: every valid assignment (`applyE2_error_iff`): it raises
  exactly when the scalar operation is invalid at SOME assignment of the variables,
  including the off-diagonal assignments of identity-skipped positions, where both
  operands take their transparent value.  The library visits fewer pairs: a shortcut
  (`x op x`, absorbing / neutral terminal operand) answers for a whole sub-domain
  without looking at the other operand, so an invalid pair `(v, v)` (0/0, inf-inf) or
  `0 * inf` inside such a sub-domain is decided by the shortcut, not by the scalar
  rule (see NOTES.md, FINDINGS).  On every other input model and library agree.
-/
import MeddlyModel.Ops.Apply
import MeddlyModel.Ops.ApplyProofs
import MeddlyModel.Ops.Shortcuts
import MeddlyModel.Spec.Arith

namespace Meddly

set_option linter.unusedSectionVars false

namespace DD
variable {α β γ ε : Type} [DecidableEq α] [DecidableEq β] [DecidableEq γ]

/-- `List.mapM` in `Except`, written out (so that proofs do not depend on the
    library's implementation of `mapM`) -/
def mapE {γ' : Type} (g : Nat → Except ε γ') : List Nat → Except ε (List γ')
  | [] => .ok []
  | i :: is =>
    match g i with
    | .error e => .error e
    | .ok v =>
      match mapE g is with
      | .error e => .error e
      | .ok vs => .ok (v :: vs)

/-- binary element-wise apply of a partial operation, read from position `k` downwards -/
def applyE2 (Sa Sb Sc : Shape) (za : α) (zb : β) (zc : γ) (f : α → β → Except ε γ) :
    Nat → Option Nat → DD α → DD β → Except ε (DD γ)
  | 0, _, a, b =>
    match f (leafVal za a) (leafVal zb b) with
    | .ok v => .ok (.leaf v)
    | .error e => .error e
  | k+1, fi, a, b =>
    match mapE (fun i => applyE2 Sa Sb Sc za zb zc f k (some i)
                  (cofactor Sa za (k+1) fi a i) (cofactor Sb zb (k+1) fi b i))
               (List.range (Sc.size (k+1))) with
    | .ok cs => .ok (mkNode Sc zc (k+1) fi cs)
    | .error e => .error e

/-- the total operation that agrees with `f` wherever `f` is defined -/
def totalize (f : α → β → Except ε γ) (dflt : γ) (x : α) (y : β) : γ :=
  match f x y with
  | .ok v => v
  | .error _ => dflt

/-! ### `mapE` -/

theorem mapE_ok {γ' : Type} (g : Nat → Except ε γ') (g' : Nat → γ') :
    ∀ (l : List Nat) (vs : List γ'), mapE g l = .ok vs →
      (∀ i, i ∈ l → ∀ v, g i = .ok v → v = g' i) → vs = l.map g' := by
  intro l
  induction l with
  | nil => intro vs h _; simp only [mapE] at h; cases h; rfl
  | cons i is ih =>
    intro vs h hg
    simp only [mapE] at h
    cases hgi : g i with
    | error e => rw [hgi] at h; cases h
    | ok v =>
      rw [hgi] at h
      cases hr : mapE g is with
      | error e => rw [hr] at h; cases h
      | ok ws =>
        rw [hr] at h
        cases h
        rw [List.map_cons, hg i (List.mem_cons_self) v hgi,
          ih ws hr (fun j hj w hw => hg j (List.mem_cons_of_mem _ hj) w hw)]

/-- every element of a successful `mapE` is the successful result of its index -/
theorem mapE_ok_get {γ' : Type} (g : Nat → Except ε γ') (n : Nat) (vs : List γ')
    (h : mapE g (List.range n) = .ok vs) (dflt : γ') :
    vs.length = n ∧ ∀ i, i < n → g i = .ok (vs.getD i dflt) := by
  have gen : ∀ (l : List Nat) (ws : List γ'), mapE g l = .ok ws →
      ws.length = l.length ∧ ∀ j, j < l.length → g (l.getD j 0) = .ok (ws.getD j dflt) := by
    intro l
    induction l with
    | nil => intro ws h; simp only [mapE] at h; cases h; exact ⟨rfl, fun j hj => absurd hj (Nat.not_lt_zero j)⟩
    | cons i is ih =>
      intro ws h
      simp only [mapE] at h
      cases hgi : g i with
      | error e => rw [hgi] at h; cases h
      | ok v =>
        rw [hgi] at h
        cases hr : mapE g is with
        | error e => rw [hr] at h; cases h
        | ok us =>
          rw [hr] at h
          cases h
          obtain ⟨hl, hget⟩ := ih us hr
          refine ⟨by simp [hl], ?_⟩
          intro j hj
          cases j with
          | zero => simpa using hgi
          | succ j =>
            have hj' : j < is.length := by simpa using hj
            simpa using hget j hj'
  obtain ⟨hl, hget⟩ := gen (List.range n) vs h
  rw [List.length_range] at hl hget
  refine ⟨hl, ?_⟩
  intro i hi
  have := hget i hi
  rwa [List.getD_eq_getElem?_getD, List.getElem?_range hi] at this

/-- a failing `mapE` fails with the error of one of its indices -/
theorem mapE_error {γ' : Type} (g : Nat → Except ε γ') :
    ∀ (l : List Nat) (e : ε), mapE g l = .error e → ∃ i, i ∈ l ∧ g i = .error e := by
  intro l
  induction l with
  | nil => intro e h; simp only [mapE] at h; cases h
  | cons i is ih =>
    intro e h
    simp only [mapE] at h
    cases hgi : g i with
    | error e' =>
      rw [hgi] at h; cases h
      exact ⟨i, List.mem_cons_self, hgi⟩
    | ok v =>
      rw [hgi] at h
      cases hr : mapE g is with
      | error e' =>
        rw [hr] at h; cases h
        obtain ⟨j, hj, hgj⟩ := ih e hr
        exact ⟨j, List.mem_cons_of_mem _ hj, hgj⟩
      | ok ws => rw [hr] at h; cases h

/-! ### unfolding -/

theorem applyE2_zero (Sa Sb Sc : Shape) (za : α) (zb : β) (zc : γ) (f : α → β → Except ε γ)
    (fi : Option Nat) (a : DD α) (b : DD β) :
    applyE2 Sa Sb Sc za zb zc f 0 fi a b =
      (match f (leafVal za a) (leafVal zb b) with
       | .ok v => .ok (.leaf v)
       | .error e => .error e) := by
  rw [applyE2]

theorem applyE2_succ (Sa Sb Sc : Shape) (za : α) (zb : β) (zc : γ) (f : α → β → Except ε γ)
    (k : Nat) (fi : Option Nat) (a : DD α) (b : DD β) :
    applyE2 Sa Sb Sc za zb zc f (k+1) fi a b =
      (match mapE (fun i => applyE2 Sa Sb Sc za zb zc f k (some i)
                    (cofactor Sa za (k+1) fi a i) (cofactor Sb zb (k+1) fi b i))
                 (List.range (Sc.size (k+1))) with
       | .ok cs => .ok (mkNode Sc zc (k+1) fi cs)
       | .error e => .error e) := by
  rw [applyE2]

/-! ### a successful `applyE2` is `apply2` of the totalized operation -/

theorem applyE2_ok (Sa Sb Sc : Shape) (za : α) (zb : β) (zc : γ) (f : α → β → Except ε γ)
    (dflt : γ) :
    ∀ (k : Nat) (fi : Option Nat) (a : DD α) (b : DD β) (r : DD γ),
      applyE2 Sa Sb Sc za zb zc f k fi a b = .ok r →
      r = apply2 Sa Sb Sc za zb zc (totalize f dflt) k fi a b := by
  intro k
  induction k with
  | zero =>
    intro fi a b r h
    rw [applyE2_zero] at h
    rw [apply2_zero]
    cases hf : f (leafVal za a) (leafVal zb b) with
    | error e => rw [hf] at h; cases h
    | ok v =>
      rw [hf] at h; cases h
      simp only [totalize, hf]
  | succ k ih =>
    intro fi a b r h
    rw [applyE2_succ] at h
    rw [apply2_succ]
    cases hm : mapE (fun i => applyE2 Sa Sb Sc za zb zc f k (some i)
                    (cofactor Sa za (k+1) fi a i) (cofactor Sb zb (k+1) fi b i))
                 (List.range (Sc.size (k+1))) with
    | error e => rw [hm] at h; cases h
    | ok cs =>
      rw [hm] at h; cases h
      rw [mapE_ok _ (fun i => apply2 Sa Sb Sc za zb zc (totalize f dflt) k (some i)
            (cofactor Sa za (k+1) fi a i) (cofactor Sb zb (k+1) fi b i)) _ cs hm
          (fun i _ v hv => ih (some i) _ _ v hv)]

/-- A successful `applyE2 f` denotes the pointwise `f`, and `f` is defined at every
    assignment (same side conditions as `apply2_eval`). -/
theorem applyE2_eval (Sa Sb Sc : Shape) (za : α) (zb : β) (zc : γ) (f : α → β → Except ε γ) :
    ∀ (k : Nat) (fi : Option Nat) (a : DD α) (b : DD β) (r : DD γ) (x : Assign),
      applyE2 Sa Sb Sc za zb zc f k fi a b = .ok r →
      k ≤ Sc.top → Assign.Valid Sc x →
      (Sa.mode k = .ident → fi = some (x (k+1))) →
      (Sb.mode k = .ident → fi = some (x (k+1))) →
      (Sc.mode k = .ident → fi = some (x (k+1))) →
      f (eval Sa za k a x) (eval Sb zb k b x) = .ok (eval Sc zc k r x) := by
  intro k
  induction k with
  | zero =>
    intro fi a b r x h _ _ _ _ _
    rw [applyE2_zero] at h
    rw [eval_zero_eq_leafVal, eval_zero_eq_leafVal]
    cases hf : f (leafVal za a) (leafVal zb b) with
    | error e => rw [hf] at h; cases h
    | ok v => rw [hf] at h; cases h; rw [eval_zero_leaf]
  | succ k ih =>
    intro fi a b r x h hk hx ha hb hc
    have hxk : x (k+1) < Sc.size (k+1) := hx (k+1) (by omega) hk
    rw [applyE2_succ] at h
    cases hm : mapE (fun i => applyE2 Sa Sb Sc za zb zc f k (some i)
                    (cofactor Sa za (k+1) fi a i) (cofactor Sb zb (k+1) fi b i))
                 (List.range (Sc.size (k+1))) with
    | error e => rw [hm] at h; cases h
    | ok cs =>
      rw [hm] at h; cases h
      obtain ⟨hlen, hget⟩ := mapE_ok_get _ _ cs hm (.leaf zc)
      have hbelow : ∀ c, c ∈ cs → Below k c := by
        intro c hcm
        obtain ⟨j, hj, rfl⟩ := List.getElem_of_mem hcm
        have hj' : j < Sc.size (k+1) := by rw [← hlen]; exact hj
        have hgj := hget j hj'
        have hd : cs.getD j (.leaf zc) = cs[j] := by
          rw [List.getD_eq_getElem?_getD, List.getElem?_eq_getElem hj]; rfl
        rw [hd] at hgj
        rw [applyE2_ok Sa Sb Sc za zb zc f zc k (some j) _ _ _ hgj]
        exact (apply2_Below_WFTree Sa Sb Sc za zb zc _ k _ _ _).1
      rw [mkNode_eval Sc zc k fi cs x hk hlen hx hbelow hc,
        cofactor_eval Sa za k fi a x ha, cofactor_eval Sb zb k fi b x hb]
      exact ih (some (x (k+1))) _ _ _ x (hget (x (k+1)) hxk) (by omega) hx
        (fun _ => rfl) (fun _ => rfl) (fun _ => rfl)

/-- A failing `applyE2 f` fails with the error of `f` at some valid assignment that
    agrees with `y` above position `k`. -/
theorem applyE2_error (Sa Sb Sc : Shape) (za : α) (zb : β) (zc : γ) (f : α → β → Except ε γ) :
    ∀ (k : Nat) (fi : Option Nat) (a : DD α) (b : DD β) (e : ε) (y : Assign),
      applyE2 Sa Sb Sc za zb zc f k fi a b = .error e →
      k ≤ Sc.top → Assign.Valid Sc y →
      (Sa.mode k = .ident → fi = some (y (k+1))) →
      (Sb.mode k = .ident → fi = some (y (k+1))) →
      ∃ x, Assign.Valid Sc x ∧ (∀ p, k < p → x p = y p) ∧
        f (eval Sa za k a x) (eval Sb zb k b x) = .error e := by
  intro k
  induction k with
  | zero =>
    intro fi a b e y h _ hy _ _
    rw [applyE2_zero] at h
    refine ⟨y, hy, fun _ _ => rfl, ?_⟩
    rw [eval_zero_eq_leafVal, eval_zero_eq_leafVal]
    cases hf : f (leafVal za a) (leafVal zb b) with
    | error e' => rw [hf] at h; cases h; rfl
    | ok v => rw [hf] at h; cases h
  | succ k ih =>
    intro fi a b e y h hk hy ha hb
    rw [applyE2_succ] at h
    cases hm : mapE (fun i => applyE2 Sa Sb Sc za zb zc f k (some i)
                    (cofactor Sa za (k+1) fi a i) (cofactor Sb zb (k+1) fi b i))
                 (List.range (Sc.size (k+1))) with
    | ok cs => rw [hm] at h; cases h
    | error e' =>
      rw [hm] at h; cases h
      obtain ⟨i, hi, hgi⟩ := mapE_error _ _ _ hm
      have hi' : i < Sc.size (k+1) := List.mem_range.mp hi
      have hy' : Assign.Valid Sc (Assign.upd y (k+1) i) := hy.upd hi'
      have hyi : Assign.upd y (k+1) i (k+1) = i := Assign.upd_same y (k+1) i
      obtain ⟨x, hxv, hxa, hxf⟩ := ih (some i) _ _ e (Assign.upd y (k+1) i) hgi (by omega) hy'
        (fun _ => by rw [hyi]) (fun _ => by rw [hyi])
      have hx1 : x (k+1) = i := by rw [hxa (k+1) (Nat.lt_succ_self k), hyi]
      have hx2 : x (k+2) = y (k+2) := by
        rw [hxa (k+2) (by omega), Assign.upd_other y i (by omega)]
      refine ⟨x, hxv, ?_, ?_⟩
      · intro p hp
        rw [hxa p (by omega), Assign.upd_other y i (by omega)]
      · rw [cofactor_eval Sa za k fi a x (fun hmode => by rw [hx2]; exact ha hmode),
          cofactor_eval Sb zb k fi b x (fun hmode => by rw [hx2]; exact hb hmode), hx1]
        exact hxf

/-! ### whole forests -/

theorem applyE2_eval_top (Sa Sb Sc : Shape) (za : α) (zb : β) (zc : γ) (f : α → β → Except ε γ)
    (hSa : Sa.WF) (hSb : Sb.WF) (hSc : Sc.WF) (hac : SameVars Sa Sc) (hbc : SameVars Sb Sc)
    (a : DD α) (b : DD β) (r : DD γ)
    (h : applyE2 Sa Sb Sc za zb zc f Sc.top none a b = .ok r)
    (x : Assign) (hx : Assign.Valid Sc x) :
    f (eval Sa za Sa.top a x) (eval Sb zb Sb.top b x) = .ok (eval Sc zc Sc.top r x) := by
  rw [hac.top, hbc.top]
  exact applyE2_eval Sa Sb Sc za zb zc f Sc.top none a b r x h (Nat.le_refl _) hx
    (fun hm => absurd hm (hSa.top_not_ident (by rw [hac.top]; exact Nat.le_refl _)))
    (fun hm => absurd hm (hSb.top_not_ident (by rw [hbc.top]; exact Nat.le_refl _)))
    (fun hm => absurd hm (hSc.top_not_ident (Nat.le_refl _)))

theorem applyE2_error_top (Sa Sb Sc : Shape) (za : α) (zb : β) (zc : γ) (f : α → β → Except ε γ)
    (hSa : Sa.WF) (hSb : Sb.WF) (hSc : Sc.WF) (hac : SameVars Sa Sc) (hbc : SameVars Sb Sc)
    (a : DD α) (b : DD β) (e : ε)
    (h : applyE2 Sa Sb Sc za zb zc f Sc.top none a b = .error e) :
    ∃ x, Assign.Valid Sc x ∧ f (eval Sa za Sa.top a x) (eval Sb zb Sb.top b x) = .error e := by
  rw [hac.top, hbc.top]
  obtain ⟨x, hx, _, hf⟩ := applyE2_error Sa Sb Sc za zb zc f Sc.top none a b e (fun _ => 0) h
    (Nat.le_refl _) (Assign.valid_const_zero hSc)
    (fun hm => absurd hm (hSa.top_not_ident (by rw [hac.top]; exact Nat.le_refl _)))
    (fun hm => absurd hm (hSb.top_not_ident (by rw [hbc.top]; exact Nat.le_refl _)))
  exact ⟨x, hx, hf⟩

/-- The model raises iff the scalar operation is invalid at some valid assignment. -/
theorem applyE2_error_iff (Sa Sb Sc : Shape) (za : α) (zb : β) (zc : γ) (f : α → β → Except ε γ)
    (hSa : Sa.WF) (hSb : Sb.WF) (hSc : Sc.WF) (hac : SameVars Sa Sc) (hbc : SameVars Sb Sc)
    (a : DD α) (b : DD β) :
    (∃ e, applyE2 Sa Sb Sc za zb zc f Sc.top none a b = .error e) ↔
    (∃ x e, Assign.Valid Sc x ∧ f (eval Sa za Sa.top a x) (eval Sb zb Sb.top b x) = .error e) := by
  constructor
  · rintro ⟨e, h⟩
    obtain ⟨x, hx, hf⟩ := applyE2_error_top Sa Sb Sc za zb zc f hSa hSb hSc hac hbc a b e h
    exact ⟨x, e, hx, hf⟩
  · rintro ⟨x, e, hx, hf⟩
    cases h : applyE2 Sa Sb Sc za zb zc f Sc.top none a b with
    | error e' => exact ⟨e', rfl⟩
    | ok r =>
      have := applyE2_eval_top Sa Sb Sc za zb zc f hSa hSb hSc hac hbc a b r h x hx
      rw [hf] at this
      cases this

theorem applyE2_red_top (Sa Sb Sc : Shape) (za : α) (zb : β) (zc : γ) (f : α → β → Except ε γ)
    (hSc : Sc.WF) (a : DD α) (b : DD β) (r : DD γ)
    (h : applyE2 Sa Sb Sc za zb zc f Sc.top none a b = .ok r) :
    Red Sc zc Sc.top none r = true := by
  rw [applyE2_ok Sa Sb Sc za zb zc f zc Sc.top none a b r h]
  exact apply2_red_top Sa Sb Sc za zb zc _ hSc a b

/-- A successful result is *the* reduced tree of the pointwise function. -/
theorem applyE2_unique (Sa Sb Sc : Shape) (za : α) (zb : β) (zc : γ) (f : α → β → Except ε γ)
    (hSa : Sa.WF) (hSb : Sb.WF) (hSc : Sc.WF) (hac : SameVars Sa Sc) (hbc : SameVars Sb Sc)
    (a : DD α) (b : DD β) (r r' : DD γ)
    (h : applyE2 Sa Sb Sc za zb zc f Sc.top none a b = .ok r)
    (hr : Red Sc zc Sc.top none r' = true)
    (hd : ∀ x, Assign.Valid Sc x →
      f (eval Sa za Sa.top a x) (eval Sb zb Sb.top b x) = .ok (eval Sc zc Sc.top r' x)) :
    r' = r := by
  apply (canon Sc zc hSc r' r hr (applyE2_red_top Sa Sb Sc za zb zc f hSc a b r h)).mp
  intro x hx
  have h1 := hd x hx
  rw [applyE2_eval_top Sa Sb Sc za zb zc f hSa hSb hSc hac hbc a b r h x hx] at h1
  exact (Except.ok.inj h1).symm

/-! ### Soundness criterion for a shortcut answer

  A shortcut of the library returns some tree `r'` for the sub-problem `(k, fi, a, b)`
  without recursing.  The answer is right — i.e. it IS what the full recursion returns, and
  the full recursion does not raise — iff `r'` is reduced for the result forest and denotes
  the scalar operation at every assignment of the sub-domain. -/
theorem applyE2_answer (Sa Sb Sc : Shape) (za : α) (zb : β) (zc : γ) (f : α → β → Except ε γ)
    (hSc : Sc.WF) (k : Nat) (fi : Option Nat) (a : DD α) (b : DD β) (r' : DD γ)
    (hctx : Ctx Sa Sb Sc k fi)
    (hr : Red Sc zc k fi r' = true)
    (hd : ∀ x, Assign.Valid Sc x → Resp k fi x →
      f (eval Sa za k a x) (eval Sb zb k b x) = .ok (eval Sc zc k r' x)) :
    applyE2 Sa Sb Sc za zb zc f k fi a b = .ok r' := by
  have hy : ∃ y, Assign.Valid Sc y ∧ Resp k fi y := by
    cases fi with
    | none => exact ⟨fun _ => 0, Assign.valid_const_zero hSc, fun i h => by cases h⟩
    | some i =>
      refine ⟨Assign.upd (fun _ => 0) (k+1) i,
        (Assign.valid_const_zero hSc).upd (hctx.idx i rfl), ?_⟩
      intro j h
      cases h
      exact Assign.upd_same _ _ _
  obtain ⟨y, hyv, hyr⟩ := hy
  cases h : applyE2 Sa Sb Sc za zb zc f k fi a b with
  | error e =>
    obtain ⟨x, hxv, hxa, hxf⟩ := applyE2_error Sa Sb Sc za zb zc f k fi a b e y h hctx.le hyv
      (fi_of_mode hctx.na hyr) (fi_of_mode hctx.nb hyr)
    have hxr : Resp k fi x := by
      intro i hi
      rw [hxa (k+1) (Nat.lt_succ_self k)]
      exact hyr i hi
    rw [hd x hxv hxr] at hxf
    cases hxf
  | ok r =>
    have hrr : Red Sc zc k fi r = true := by
      rw [applyE2_ok Sa Sb Sc za zb zc f zc k fi a b r h]
      exact apply2_red Sa Sb Sc za zb zc _ hSc k fi a b hctx.nc
    have heq : r' = r := by
      apply canon_gen Sc zc hSc k hctx.le fi r' r hctx.idx hr hrr
      intro x hx hxr
      have h1 := hd x hx hxr
      have h2 := applyE2_eval Sa Sb Sc za zb zc f k fi a b r x h hctx.le hx
        (fi_of_mode hctx.na hxr) (fi_of_mode hctx.nb hxr) (fi_of_mode hctx.nc hxr)
      rw [h2] at h1
      exact (Except.ok.inj h1).symm
    rw [heq]

/-! ## Range queries on trees -/

/-- `fold op` over the values at all assignments below position `k`: every position is
    expanded (a skipped position contributes every index, an identity-skipped one the
    transparent value off the diagonal). -/
def rangeFold (S : Shape) (zero : α) (op : α → α → α) : Nat → Option Nat → DD α → α
  | 0, _, d => leafVal zero d
  | k+1, fi, d =>
    (List.range (S.size (k+1))).foldl
      (fun acc i => op acc (rangeFold S zero op k (some i) (cofactor S zero (k+1) fi d i)))
      (rangeFold S zero op k (some 0) (cofactor S zero (k+1) fi d 0))

theorem rangeFold_zero (S : Shape) (zero : α) (op : α → α → α) (fi : Option Nat) (d : DD α) :
    rangeFold S zero op 0 fi d = leafVal zero d := by
  rw [rangeFold]

theorem rangeFold_succ (S : Shape) (zero : α) (op : α → α → α) (k : Nat) (fi : Option Nat)
    (d : DD α) :
    rangeFold S zero op (k+1) fi d =
      (List.range (S.size (k+1))).foldl
        (fun acc i => op acc (rangeFold S zero op k (some i) (cofactor S zero (k+1) fi d i)))
        (rangeFold S zero op k (some 0) (cofactor S zero (k+1) fi d 0)) := by
  rw [rangeFold]

/-- `op` is a semilattice operation (max or min of a linear order is one) -/
structure SemiLat (op : α → α → α) : Prop where
  assoc : ∀ a b c, op (op a b) c = op a (op b c)
  comm : ∀ a b, op a b = op b a
  idem : ∀ a, op a a = a

/-- the fold absorbs its start value and every element it folded -/
theorem foldl_absorb {op : α → α → α} (h : SemiLat op) (g : Nat → α) :
    ∀ (l : List Nat) (a : α),
      op (l.foldl (fun acc i => op acc (g i)) a) a = l.foldl (fun acc i => op acc (g i)) a ∧
      ∀ j, j ∈ l → op (l.foldl (fun acc i => op acc (g i)) a) (g j)
        = l.foldl (fun acc i => op acc (g i)) a := by
  intro l
  induction l with
  | nil => intro a; exact ⟨h.idem a, fun j hj => by cases hj⟩
  | cons i is ih =>
    intro a
    rw [List.foldl_cons]
    obtain ⟨h1, h2⟩ := ih (op a (g i))
    refine ⟨?_, ?_⟩
    · -- op F a = F where F absorbs (op a (g i))
      have : op (op a (g i)) a = op a (g i) := by
        rw [h.comm (op a (g i)) a, ← h.assoc, h.idem]
      rw [← h1, h.assoc, this]
    · intro j hj
      rcases List.mem_cons.mp hj with rfl | hj'
      · have : op (op a (g j)) (g j) = op a (g j) := by rw [h.assoc, h.idem]
        rw [← h1, h.assoc, this]
      · exact h2 j hj'

/-- for a selective operation the fold is its start value or one of the folded elements -/
theorem foldl_sel {op : α → α → α} (hsel : ∀ a b, op a b = a ∨ op a b = b) (g : Nat → α) :
    ∀ (l : List Nat) (a : α),
      l.foldl (fun acc i => op acc (g i)) a = a ∨
      ∃ j, j ∈ l ∧ l.foldl (fun acc i => op acc (g i)) a = g j := by
  intro l
  induction l with
  | nil => intro a; left; rfl
  | cons i is ih =>
    intro a
    rw [List.foldl_cons]
    rcases ih (op a (g i)) with h1 | ⟨j, hj, h2⟩
    · rcases hsel a (g i) with h3 | h3
      · left; rw [h1, h3]
      · right; exact ⟨i, List.mem_cons_self, by rw [h1, h3]⟩
    · right; exact ⟨j, List.mem_cons_of_mem _ hj, h2⟩

/-- The range fold absorbs the value at every valid assignment (for `max`: it is an
    upper bound of the function, for `min` a lower bound). -/
theorem rangeFold_absorbs (S : Shape) (zero : α) {op : α → α → α} (h : SemiLat op) :
    ∀ (k : Nat) (fi : Option Nat) (d : DD α) (x : Assign),
      k ≤ S.top → Assign.Valid S x →
      (S.mode k = .ident → fi = some (x (k+1))) →
      op (rangeFold S zero op k fi d) (eval S zero k d x) = rangeFold S zero op k fi d := by
  intro k
  induction k with
  | zero =>
    intro fi d x _ _ _
    rw [rangeFold_zero, eval_zero_eq_leafVal, h.idem]
  | succ k ih =>
    intro fi d x hk hx hfi
    have hxk : x (k+1) < S.size (k+1) := hx (k+1) (by omega) hk
    rw [rangeFold_succ, cofactor_eval S zero k fi d x hfi]
    have hab := (foldl_absorb h
      (fun i => rangeFold S zero op k (some i) (cofactor S zero (k+1) fi d i))
      (List.range (S.size (k+1)))
      (rangeFold S zero op k (some 0) (cofactor S zero (k+1) fi d 0))).2 (x (k+1))
      (List.mem_range.mpr hxk)
    have hih := ih (some (x (k+1))) (cofactor S zero (k+1) fi d (x (k+1))) x (by omega) hx
      (fun _ => rfl)
    -- F = op F g ; op g e = g  ⟹  op F e = F
    rw [← hab, h.assoc, hih]

/-- For a selective operation the range fold is attained at a valid assignment. -/
theorem rangeFold_attained (S : Shape) (zero : α) (hS : S.WF) {op : α → α → α}
    (hsel : ∀ a b, op a b = a ∨ op a b = b) :
    ∀ (k : Nat) (fi : Option Nat) (d : DD α) (y : Assign),
      k ≤ S.top → Assign.Valid S y →
      (S.mode k = .ident → fi = some (y (k+1))) →
      ∃ x, Assign.Valid S x ∧ (∀ p, k < p → x p = y p) ∧
        eval S zero k d x = rangeFold S zero op k fi d := by
  intro k
  induction k with
  | zero =>
    intro fi d y _ hy _
    exact ⟨y, hy, fun _ _ => rfl, by rw [rangeFold_zero, eval_zero_eq_leafVal]⟩
  | succ k ih =>
    intro fi d y hk hy hfi
    have hsz : 0 < S.size (k+1) := by
      have := hS.size_ge (k+1) (by omega) hk
      omega
    -- the fold is the value of one child index j
    have hj : ∃ j, j < S.size (k+1) ∧
        rangeFold S zero op (k+1) fi d
          = rangeFold S zero op k (some j) (cofactor S zero (k+1) fi d j) := by
      rw [rangeFold_succ]
      rcases foldl_sel hsel
        (fun i => rangeFold S zero op k (some i) (cofactor S zero (k+1) fi d i))
        (List.range (S.size (k+1)))
        (rangeFold S zero op k (some 0) (cofactor S zero (k+1) fi d 0)) with h1 | ⟨j, hjm, h2⟩
      · exact ⟨0, hsz, h1⟩
      · exact ⟨j, List.mem_range.mp hjm, h2⟩
    obtain ⟨j, hjlt, hjeq⟩ := hj
    have hy' : Assign.Valid S (Assign.upd y (k+1) j) := hy.upd hjlt
    have hyj : Assign.upd y (k+1) j (k+1) = j := Assign.upd_same y (k+1) j
    obtain ⟨x, hxv, hxa, hxe⟩ := ih (some j) (cofactor S zero (k+1) fi d j)
      (Assign.upd y (k+1) j) (by omega) hy' (fun _ => by rw [hyj])
    have hx1 : x (k+1) = j := by rw [hxa (k+1) (Nat.lt_succ_self k), hyj]
    have hx2 : x (k+2) = y (k+2) := by
      rw [hxa (k+2) (by omega), Assign.upd_other y j (by omega)]
    refine ⟨x, hxv, ?_, ?_⟩
    · intro p hp
      rw [hxa p (by omega), Assign.upd_other y j (by omega)]
    · rw [cofactor_eval S zero k fi d x (fun hm => by rw [hx2]; exact hfi hm), hx1, hjeq]
      exact hxe

end DD

/-! ## The operations of C05 as instances -/

namespace Arith
open DD Spec.Arith

/-- `apply(OP, a, b, c)` on trees of function values: operands in forests of shapes
    `Sa`, `Sb` with transparent values `za`, `zb`, result in a forest of shape `Sc`
    with transparent value `zc` and range `rng`. -/
def arith (Sa Sb Sc : Shape) (za zb zc : Val) (op : ArithOp) (rng : Rng) (a b : DD Val) :
    Except String (DD Val) :=
  applyE2 Sa Sb Sc za zb zc (scalar op rng) Sc.top none a b

/-- a partial unary map made total (the catalogue maps are total on the values of
    their forests; `dflt` elsewhere) -/
def totalize1 (g : Val → Except String Val) (dflt : Val) (v : Val) : Val :=
  match g v with
  | .ok w => w
  | .error _ => dflt

/-- DIST_INC and user-defined maps: unary apply -/
def unary (Sa Sc : Shape) (za zc : Val) (g : Val → Except String Val) (a : DD Val) : DD Val :=
  apply1 Sa Sc za zc (totalize1 g zc) Sc.top none a

/-- MAX_RANGE / MIN_RANGE on integer-valued trees -/
def rangeMaxDD (S : Shape) (a : DD Int) : Int := rangeFold S 0 max S.top none a
def rangeMinDD (S : Shape) (a : DD Int) : Int := rangeFold S 0 min S.top none a

theorem semiLat_max : SemiLat (max : Int → Int → Int) where
  assoc := by intro a b c; omega
  comm := by intro a b; omega
  idem := by intro a; omega

theorem semiLat_min : SemiLat (min : Int → Int → Int) where
  assoc := by intro a b c; omega
  comm := by intro a b; omega
  idem := by intro a; omega

/-! ## Shortcut algebra

  The scalar identities behind every terminal shortcut of `arith_*.cc` / `compare.cc`
  (`stopOnEqualArgs` + `makeEqualResult`, `simplifiesToFirstArg`, `simplifiesToSecondArg`,
  `isSpecialCase`): a shortcut that answers "the result is operand X" (or a constant) for a
  whole sub-domain is pointwise right iff the identity holds for EVERY value the other
  operand can take.  `…_unsound` theorems record the shortcuts whose identity fails for
  some value: exactly the FINDINGS classes of NOTES.md. -/

section ShortcutAlgebra
variable (rng : Rng)

/-- a value of an integer / EV+ forest -/
def IsIntOrInf (y : Val) : Prop := y = .inf ∨ ∃ b, y = .i b

/-! PLUS: `0 + y = y`, `x + 0 = x` (MT `0==a`, `0==b`; EV+ `OMEGA_NORMAL` with edge value 0
    factored out), `inf + y = inf`. -/
theorem plus_zero_left (b : Int) : scalar .plus rng (.i 0) (.i b) = .ok (.i b) := by
  simp [scalar, intOp]
theorem plus_zero_right (a : Int) : scalar .plus rng (.i a) (.i 0) = .ok (.i a) := by
  simp [scalar, intOp]
theorem plus_zero_inf : scalar .plus rng (.i 0) .inf = .ok .inf := by simp [scalar, infRight]
theorem plus_inf_left (y : Val) (hy : IsIntOrInf y) : scalar .plus rng .inf y = .ok .inf := by
  rcases hy with rfl | ⟨b, rfl⟩ <;> simp [scalar, infBoth, infLeft]
theorem plus_inf_right (x : Val) (hx : IsIntOrInf x) : scalar .plus rng x .inf = .ok .inf := by
  rcases hx with rfl | ⟨b, rfl⟩ <;> simp [scalar, infBoth, infRight]

/-! MINUS: `x - 0 = x`, `x - x = 0` for finite x, `inf - y = inf` for finite y. -/
theorem minus_zero_right (a : Int) : scalar .minus rng (.i a) (.i 0) = .ok (.i a) := by
  simp [scalar, intOp]
theorem minus_self (a : Int) : scalar .minus rng (.i a) (.i a) = .ok (.i 0) := by
  simp [scalar, intOp]
theorem minus_inf_left (b : Int) : scalar .minus rng .inf (.i b) = .ok .inf := by
  simp [scalar, infLeft]
/-- FINDING: the `A - A := 0` and `inf - B := inf` shortcuts are wrong where the subtrahend
    is infinite: the scalar rule there is SUBTRACT_INFINITY. -/
theorem minus_self_unsound : scalar .minus rng .inf .inf = .error errSubInf := by
  simp [scalar, infBoth]
/-- FINDING (identity-reduced subtrahend): `x - inf` is invalid for every finite `x`, so
    "the subtrahend is the constant c" may only be concluded where it really is c. -/
theorem minus_inf_right_invalid (a : Int) : scalar .minus rng (.i a) .inf = .error errSubInf := by
  simp [scalar, infRight]

/-! MULTIPLY: `0 * y = 0`, `x * 1 = x` for finite values; `inf` absorbs. -/
theorem mult_zero_left (b : Int) : scalar .mult rng (.i 0) (.i b) = .ok (.i 0) := by
  simp [scalar, intOp]
theorem mult_zero_right (a : Int) : scalar .mult rng (.i a) (.i 0) = .ok (.i 0) := by
  simp [scalar, intOp]
theorem mult_one_left (b : Int) : scalar .mult rng (.i 1) (.i b) = .ok (.i b) := by
  simp [scalar, intOp]
theorem mult_one_right (a : Int) : scalar .mult rng (.i a) (.i 1) = .ok (.i a) := by
  simp [scalar, intOp]
theorem mult_inf_left (y : Val) (hy : IsIntOrInf y) : scalar .mult rng .inf y = .ok .inf := by
  rcases hy with rfl | ⟨b, rfl⟩ <;> simp [scalar, infBoth, infLeft]
theorem mult_one_inf : scalar .mult rng .inf (.i 1) = .ok .inf := by simp [scalar, infLeft]
/-- FINDING: the EV+ `0 * B := 0` shortcut is wrong where `B` is infinite (`evplus_mult::apply`
    itself says `0 * inf = inf`). -/
theorem mult_zero_inf_unsound : scalar .mult rng (.i 0) .inf = .ok .inf ∧ (Val.inf ≠ .i 0) := by
  constructor
  · simp [scalar, infRight]
  · intro h; cases h

/-! DIVIDE / MODULO: `x / 1 = x`; `0 / y = 0`, `0 % y = 0`, `x / x = 1`, `x % x = 0` only
    for NON-ZERO divisors. -/
theorem div_one_right (a : Int) : scalar .div rng (.i a) (.i 1) = .ok (.i a) := by
  simp [scalar, intOp, Int.tdiv_one]
theorem div_zero_left (b : Int) (hb : b ≠ 0) : scalar .div rng (.i 0) (.i b) = .ok (.i 0) := by
  simp [scalar, intOp, hb, Int.zero_tdiv]
theorem div_self (a : Int) (ha : a ≠ 0) : scalar .div rng (.i a) (.i a) = .ok (.i 1) := by
  simp [scalar, intOp, ha, Int.tdiv_self]
theorem mod_zero_left (b : Int) (hb : b ≠ 0) : scalar .mod rng (.i 0) (.i b) = .ok (.i 0) := by
  simp [scalar, intOp, hb, Int.zero_tmod]
theorem mod_self (a : Int) (ha : a ≠ 0) : scalar .mod rng (.i a) (.i a) = .ok (.i 0) := by
  simp [scalar, intOp, ha, Int.tmod_self]
theorem div_zero_inf : scalar .div rng (.i 0) .inf = .ok (.i 0) := by simp [scalar, infRight]
theorem mod_inf_right (a : Int) : scalar .mod rng (.i a) .inf = .ok (.i a) := by
  simp [scalar, infRight]
/-- FINDING: `x/x := 1`, `x%x := 0`, `0/B := 0`, `0%B := 0` are wrong where the divisor is 0. -/
theorem div_zero_zero_unsound : scalar .div rng (.i 0) (.i 0) = .error errDivZero := by
  simp [scalar, intOp]
theorem mod_zero_zero_unsound : scalar .mod rng (.i 0) (.i 0) = .error errDivZero := by
  simp [scalar, intOp]
/-- FINDING: EV+ `A % inf := A` (and `A/A := 1`) are wrong where `A` is infinite. -/
theorem mod_inf_inf_unsound : scalar .mod rng .inf .inf = .error errInfDivInf := by
  simp [scalar, infBoth]
theorem div_inf_inf_unsound : scalar .div rng .inf .inf = .error errInfDivInf := by
  simp [scalar, infBoth]
/-- FINDING: the `0 / B := 0` shortcut on an identity pattern hides `inf / 0`. -/
theorem div_inf_zero_invalid : scalar .div rng .inf (.i 0) = .error errDivZero := by
  simp [scalar, infLeft]

/-! MAXIMUM / MINIMUM / DIST_MIN: idempotent; `max(x, inf) = inf`, `min(x, inf) = x`. -/
theorem max_self (a : Int) : scalar .max rng (.i a) (.i a) = .ok (.i a) := by
  simp [scalar, intOp]
theorem min_self (a : Int) : scalar .min rng (.i a) (.i a) = .ok (.i a) := by
  simp [scalar, intOp]
theorem distmin_self (a : Int) : scalar .distmin rng (.i a) (.i a) = .ok (.i a) := by
  simp only [scalar, intOp, distMinInt]
  split <;> simp
theorem max_inf_inf : scalar .max rng .inf .inf = .ok .inf := by simp [scalar, infBoth]
theorem min_inf_inf : scalar .min rng .inf .inf = .ok .inf := by simp [scalar, infBoth]
theorem max_inf_left (y : Val) (hy : IsIntOrInf y) : scalar .max rng .inf y = .ok .inf := by
  rcases hy with rfl | ⟨b, rfl⟩ <;> simp [scalar, infBoth, infLeft]
theorem max_inf_right (x : Val) (hx : IsIntOrInf x) : scalar .max rng x .inf = .ok .inf := by
  rcases hx with rfl | ⟨b, rfl⟩ <;> simp [scalar, infBoth, infRight]
theorem min_inf_left (y : Val) (hy : IsIntOrInf y) : scalar .min rng .inf y = .ok y := by
  rcases hy with rfl | ⟨b, rfl⟩ <;> simp [scalar, infBoth, infLeft]
theorem min_inf_right (x : Val) (hx : IsIntOrInf x) : scalar .min rng x .inf = .ok x := by
  rcases hx with rfl | ⟨b, rfl⟩ <;> simp [scalar, infBoth, infRight]

/-! Comparisons: `x ~ x` is the constant `isReflexive()`; the EV+ `isSpecialCase` answers. -/
theorem eq_self (x : Val) (hx : IsIntOrInf x) : scalar .eq rng x x = .ok (ofBool rng true) := by
  rcases hx with rfl | ⟨b, rfl⟩ <;> simp [scalar, infBoth, intOp]
theorem ne_self (x : Val) (hx : IsIntOrInf x) : scalar .ne rng x x = .ok (ofBool rng false) := by
  rcases hx with rfl | ⟨b, rfl⟩ <;> simp [scalar, infBoth, intOp]
theorem lt_self (x : Val) (hx : IsIntOrInf x) : scalar .lt rng x x = .ok (ofBool rng false) := by
  rcases hx with rfl | ⟨b, rfl⟩ <;> simp [scalar, infBoth, intOp]
theorem le_self (x : Val) (hx : IsIntOrInf x) : scalar .le rng x x = .ok (ofBool rng true) := by
  rcases hx with rfl | ⟨b, rfl⟩ <;> simp [scalar, infBoth, intOp]
theorem gt_self (x : Val) (hx : IsIntOrInf x) : scalar .gt rng x x = .ok (ofBool rng false) := by
  rcases hx with rfl | ⟨b, rfl⟩ <;> simp [scalar, infBoth, intOp]
theorem ge_self (x : Val) (hx : IsIntOrInf x) : scalar .ge rng x x = .ok (ofBool rng true) := by
  rcases hx with rfl | ⟨b, rfl⟩ <;> simp [scalar, infBoth, intOp]
/-- `A(..) > inf` is false, `A(..) <= inf` is true regardless of `A` -/
theorem gt_inf_right (x : Val) (hx : IsIntOrInf x) : scalar .gt rng x .inf = .ok (ofBool rng false) := by
  rcases hx with rfl | ⟨b, rfl⟩ <;> simp [scalar, infBoth, infRight]
theorem le_inf_right (x : Val) (hx : IsIntOrInf x) : scalar .le rng x .inf = .ok (ofBool rng true) := by
  rcases hx with rfl | ⟨b, rfl⟩ <;> simp [scalar, infBoth, infRight]
/-- `inf >= B(..)` is true, `inf < B(..)` is false regardless of `B` -/
theorem ge_inf_left (y : Val) (hy : IsIntOrInf y) : scalar .ge rng .inf y = .ok (ofBool rng true) := by
  rcases hy with rfl | ⟨b, rfl⟩ <;> simp [scalar, infBoth, infLeft]
theorem lt_inf_left (y : Val) (hy : IsIntOrInf y) : scalar .lt rng .inf y = .ok (ofBool rng false) := by
  rcases hy with rfl | ⟨b, rfl⟩ <;> simp [scalar, infBoth, infLeft]

end ShortcutAlgebra

/-- decidable equality of results (for the concrete examples below) -/
instance decEqExcept {ε α : Type} [DecidableEq ε] [DecidableEq α] : DecidableEq (Except ε α)
  | .ok a, .ok b => if h : a = b then isTrue (by rw [h]) else isFalse (by intro e; cases e; exact h rfl)
  | .error a, .error b =>
    if h : a = b then isTrue (by rw [h]) else isFalse (by intro e; cases e; exact h rfl)
  | .ok _, .error _ => isFalse (by intro e; cases e)
  | .error _, .ok _ => isFalse (by intro e; cases e)

/-! ## Property theorems -/

section Props
variable {Sa Sb Sc : Shape} {za zb zc : Val}

/-- C05, values: whenever the model of `apply(OP, A, B, C)` returns a result, that result
    denotes, at EVERY assignment of the variables, exactly the scalar operation applied to
    the operands' values there (and the scalar operation is valid there) — for every
    domain, every triple of reduction rules (fully / quasi / identity, operands and result
    in different forests or the same), every operation of the catalogue and every pair of
    operand diagrams.  For the C++ code: PLUS … GREATER_THAN_EQUAL are pointwise. -/
theorem arith_eval (hSa : Sa.WF) (hSb : Sb.WF) (hSc : Sc.WF) (hac : SameVars Sa Sc)
    (hbc : SameVars Sb Sc) (op : ArithOp) (rng : Rng) (a b r : DD Val)
    (h : arith Sa Sb Sc za zb zc op rng a b = .ok r) (x : Assign) (hx : Assign.Valid Sc x) :
    scalar op rng (eval Sa za Sa.top a x) (eval Sb zb Sb.top b x) = .ok (eval Sc zc Sc.top r x) :=
  applyE2_eval_top Sa Sb Sc za zb zc _ hSa hSb hSc hac hbc a b r h x hx

example :
    arith CanonExamples.SA CanonExamples.SA CanonExamples.SA (.i 0) (.i 0) (.i 0) .minus .int
      (.node 3 [.node 1 [.leaf (.i 5), .leaf (.i 7)], .leaf (.i 2)])
      (.node 2 [.leaf (.i 1), .leaf (.i 2), .leaf (.i 7)])
    = .ok (.node 3 [.node 2 [.node 1 [.leaf (.i 4), .leaf (.i 6)], .node 1 [.leaf (.i 3), .leaf (.i 5)],
                             .node 1 [.leaf (.i (-2)), .leaf (.i 0)]],
                    .node 2 [.leaf (.i 1), .leaf (.i 0), .leaf (.i (-5))]]) := by decide

/-- C05, errors (soundness): the model raises code `e` only if the scalar operation is
    invalid with exactly that code at some assignment (division by zero, subtracting
    infinity, infinity / infinity).  For the C++ code: DIVIDE_BY_ZERO etc. are never
    raised spuriously. -/
theorem arith_error (hSa : Sa.WF) (hSb : Sb.WF) (hSc : Sc.WF) (hac : SameVars Sa Sc)
    (hbc : SameVars Sb Sc) (op : ArithOp) (rng : Rng) (a b : DD Val) (e : String)
    (h : arith Sa Sb Sc za zb zc op rng a b = .error e) :
    ∃ x, Assign.Valid Sc x ∧
      scalar op rng (eval Sa za Sa.top a x) (eval Sb zb Sb.top b x) = .error e :=
  applyE2_error_top Sa Sb Sc za zb zc _ hSa hSb hSc hac hbc a b e h

example :
    arith CanonExamples.SA CanonExamples.SA CanonExamples.SA (.i 0) (.i 0) (.i 0) .div .int
      (.node 3 [.node 1 [.leaf (.i 5), .leaf (.i 7)], .leaf (.i 2)])
      (.node 2 [.leaf (.i 1), .leaf (.i 2), .leaf (.i 0)])
    = .error "DIVIDE_BY_ZERO" := by decide

/-- C05, errors (exact condition): the model raises iff the scalar operation is invalid at
    SOME assignment — every assignment counts, also the off-diagonal ones of
    identity-skipped positions, where the operands take their transparent value (so in an
    identity-reduced EV+ forest "subtrahend nowhere infinite" fails as soon as a level is
    identity-skipped).  For the C++ code: an invalid scalar case is reported instead of a
    value being returned; the library's terminal shortcuts answer for whole sub-domains and
    deviate from this exactly on the classes listed in NOTES.md (FINDINGS). -/
theorem arith_error_iff (hSa : Sa.WF) (hSb : Sb.WF) (hSc : Sc.WF) (hac : SameVars Sa Sc)
    (hbc : SameVars Sb Sc) (op : ArithOp) (rng : Rng) (a b : DD Val) :
    (∃ e, arith Sa Sb Sc za zb zc op rng a b = .error e) ↔
    (∃ x e, Assign.Valid Sc x ∧
      scalar op rng (eval Sa za Sa.top a x) (eval Sb zb Sb.top b x) = .error e) :=
  applyE2_error_iff Sa Sb Sc za zb zc _ hSa hSb hSc hac hbc a b

/-- the identity relation `leaf 5` divided by the identity relation `leaf 2` in
    identity-reduced forests: off the diagonal both are 0 and `0 / 0` is invalid -/
example :
    arith CanonExamples.SB CanonExamples.SB CanonExamples.SB (.i 0) (.i 0) (.i 0) .div .int
      (.leaf (.i 5)) (.leaf (.i 2)) = .error "DIVIDE_BY_ZERO" := by decide
/-- … while their sum is the identity relation `leaf 7` again -/
example :
    arith CanonExamples.SB CanonExamples.SB CanonExamples.SB (.i 0) (.i 0) (.i 0) .plus .int
      (.leaf (.i 5)) (.leaf (.i 2)) = .ok (.leaf (.i 7)) := by decide

/-- C05, canonical result: a result of the model is in reduced form for the result
    forest's rule.  For the C++ code: the results are stored as legal nodes of the
    result forest (checked on the real forest by the dump certificate). -/
theorem arith_red (hSc : Sc.WF) (op : ArithOp) (rng : Rng) (a b r : DD Val)
    (h : arith Sa Sb Sc za zb zc op rng a b = .ok r) :
    Red Sc zc Sc.top none r = true :=
  applyE2_red_top Sa Sb Sc za zb zc _ hSc a b r h

example : Red CanonExamples.SA (.i 0) 3 none
    (.node 3 [.node 2 [.node 1 [.leaf (.i 4), .leaf (.i 6)], .node 1 [.leaf (.i 3), .leaf (.i 5)],
                       .node 1 [.leaf (.i (-2)), .leaf (.i 0)]],
              .node 2 [.leaf (.i 1), .leaf (.i 0), .leaf (.i (-5))]] : DD Val) = true := by decide

/-- C05, uniqueness: any reduced diagram of the result forest that denotes the pointwise
    scalar operation IS the model's result; so a library result whose table equals the
    pointwise table and whose dump passes the certificate is node-for-node the model's. -/
theorem arith_unique (hSa : Sa.WF) (hSb : Sb.WF) (hSc : Sc.WF) (hac : SameVars Sa Sc)
    (hbc : SameVars Sb Sc) (op : ArithOp) (rng : Rng) (a b r r' : DD Val)
    (h : arith Sa Sb Sc za zb zc op rng a b = .ok r)
    (hr : Red Sc zc Sc.top none r' = true)
    (hd : ∀ x, Assign.Valid Sc x →
      scalar op rng (eval Sa za Sa.top a x) (eval Sb zb Sb.top b x)
        = .ok (eval Sc zc Sc.top r' x)) :
    r' = r :=
  applyE2_unique Sa Sb Sc za zb zc _ hSa hSb hSc hac hbc a b r r' h hr hd

/-- comparison into a boolean forest with another rule: `<` of an identity-reduced EV+
    style relation (transparent value `inf`) against a constant, result fully reduced -/
example :
    arith CanonExamples.SB ApplyExamples.SF ApplyExamples.SF .inf (.i 0) (.b false) .lt .bool
      (.leaf (.i 1)) (.leaf (.i 3))
    = .ok (.node 4 [.node 3 [.node 2 [.node 1 [.leaf (.b true), .leaf (.b false)],
                                      .node 1 [.leaf (.b false), .leaf (.b true)]], .leaf (.b false)],
                    .node 3 [.leaf (.b false), .node 2 [.node 1 [.leaf (.b true), .leaf (.b false)],
                                      .node 1 [.leaf (.b false), .leaf (.b true)]]]]) := by decide

/-- A shortcut lifted to diagrams (`mt_plus::simplifiesToSecondArg`, `0 == a`): in
    multi-terminal integer forests `0 + B` at any position of the recursion is the copy of
    `B` into the result forest (`copy_arg2res->compute`), whatever the three reduction
    rules are.  Every "result is operand X" shortcut whose identity is listed under
    *Shortcut algebra* lifts the same way through `applyE2_answer`. -/
theorem plus_zero_shortcut (hSc : Sc.WF) (rng : Rng) (k : Nat) (fi : Option Nat) (b : DD Val)
    (hctx : Ctx Sa Sb Sc k fi)
    (hb : ∀ x, Assign.Valid Sc x → ∃ v, eval Sb zb k b x = .i v) :
    applyE2 Sa Sb Sc (.i 0) zb zc (scalar .plus rng) k fi (.leaf (.i 0)) b
      = .ok (apply1 Sb Sc zb zc id k fi b) := by
  refine applyE2_answer Sa Sb Sc (.i 0) zb zc (scalar .plus rng) hSc k fi (.leaf (.i 0)) b
    (apply1 Sb Sc zb zc id k fi b) hctx ?_ ?_
  · exact apply1_red Sb Sc zb zc id hSc k fi b hctx.nc
  · intro x hx hxr
    rw [eval_leaf_zero, apply1_eval Sb Sc zb zc id k fi b x hctx.le hx
      (fi_of_mode hctx.nb hxr) (fi_of_mode hctx.nc hxr)]
    obtain ⟨v, hv⟩ := hb x hx
    rw [hv]
    exact plus_zero_left rng v

/-- FINDING F5 at the level of diagrams: `(4 everywhere) - diag(1)` with the subtrahend in
    an identity-reduced EV+ forest (transparent value inf): the model raises
    SUBTRACT_INFINITY (the subtrahend is infinite off the diagonal); the library's
    constant-subtrahend shortcut returns `3 everywhere`. -/
example :
    arith ApplyExamples.SF CanonExamples.SB ApplyExamples.SF .inf .inf .inf .minus .int
      (.leaf (.i 4)) (.leaf (.i 1)) = .error "SUBTRACT_INFINITY" := by decide
/-- … with both forests fully reduced the same two leaves are constants and `4 - 1 = 3` -/
example :
    arith ApplyExamples.SF ApplyExamples.SF ApplyExamples.SF .inf .inf .inf .minus .int
      (.leaf (.i 4)) (.leaf (.i 1)) = .ok (.leaf (.i 3)) := by decide

/-- C05, unary maps: DIST_INC and user-defined maps denote the pointwise map (every
    domain, every pair of reduction rules).  For the C++ code: `apply(DIST_INC, A, C)` and
    `apply(user_unary_factory, A, C)` are pointwise. -/
theorem unary_eval (hSa : Sa.WF) (hSc : Sc.WF) (hac : SameVars Sa Sc)
    (g : Val → Except String Val) (a : DD Val) (x : Assign) (hx : Assign.Valid Sc x)
    (hg : ∃ w, g (eval Sa za Sa.top a x) = .ok w) :
    g (eval Sa za Sa.top a x) = .ok (eval Sc zc Sc.top (unary Sa Sc za zc g a) x) := by
  obtain ⟨w, hw⟩ := hg
  have h := apply1_eval_top Sa Sc za zc (totalize1 g zc) hSa hSc hac a x hx
  rw [unary, h, hw]
  simp only [totalize1, hw]

/-- the result of a unary map is reduced for the result forest -/
theorem unary_red (hSc : Sc.WF) (g : Val → Except String Val) (a : DD Val) :
    Red Sc zc Sc.top none (unary Sa Sc za zc g a) = true :=
  apply1_red_top Sa Sc za zc _ hSc a

/-- DIST_INC of the identity relation `leaf 4` (identity-reduced argument, fully reduced
    result): 5 on the diagonal, and 0+1 = 1 off the diagonal -/
example :
    unary CanonExamples.SB ApplyExamples.SF (.i 0) (.i 0) distInc (.leaf (.i 4))
    = .node 4 [.node 3 [.node 2 [.node 1 [.leaf (.i 5), .leaf (.i 1)], .node 1 [.leaf (.i 1), .leaf (.i 5)]],
                        .leaf (.i 1)],
               .node 3 [.leaf (.i 1),
                        .node 2 [.node 1 [.leaf (.i 5), .leaf (.i 1)], .node 1 [.leaf (.i 1), .leaf (.i 5)]]]] := by
  decide

end Props

/-- C05, range queries: the model's MAX_RANGE is an upper bound of the function over all
    assignments and is attained (so it is the largest value taken); same for MIN_RANGE.
    For the C++ code: `apply(MAX_RANGE, A, v)` must return the largest value of `A`,
    zero entries included. -/
theorem range_max_spec (S : Shape) (hS : S.WF) (a : DD Int) :
    (∀ x, Assign.Valid S x → eval S 0 S.top a x ≤ rangeMaxDD S a) ∧
    (∃ x, Assign.Valid S x ∧ eval S 0 S.top a x = rangeMaxDD S a) := by
  constructor
  · intro x hx
    have := rangeFold_absorbs S (0 : Int) semiLat_max S.top none a x (Nat.le_refl _) hx
      (fun hm => absurd hm (hS.top_not_ident (Nat.le_refl _)))
    unfold rangeMaxDD
    omega
  · obtain ⟨x, hx, _, he⟩ := rangeFold_attained S (0 : Int) hS (op := max)
      (fun a b => by omega) S.top none a (fun _ => 0) (Nat.le_refl _)
      (Assign.valid_const_zero hS) (fun hm => absurd hm (hS.top_not_ident (Nat.le_refl _)))
    exact ⟨x, hx, he⟩

theorem range_min_spec (S : Shape) (hS : S.WF) (a : DD Int) :
    (∀ x, Assign.Valid S x → rangeMinDD S a ≤ eval S 0 S.top a x) ∧
    (∃ x, Assign.Valid S x ∧ eval S 0 S.top a x = rangeMinDD S a) := by
  constructor
  · intro x hx
    have := rangeFold_absorbs S (0 : Int) semiLat_min S.top none a x (Nat.le_refl _) hx
      (fun hm => absurd hm (hS.top_not_ident (Nat.le_refl _)))
    unfold rangeMinDD
    omega
  · obtain ⟨x, hx, _, he⟩ := rangeFold_attained S (0 : Int) hS (op := min)
      (fun a b => by omega) S.top none a (fun _ => 0) (Nat.le_refl _)
      (Assign.valid_const_zero hS) (fun hm => absurd hm (hS.top_not_ident (Nat.le_refl _)))
    exact ⟨x, hx, he⟩

/-- a function that is 5 or 3 on part of the domain and 0 elsewhere has minimum 0 -/
example : rangeMinDD CanonExamples.SA (.node 3 [.node 1 [.leaf 5, .leaf 0], .leaf 3]) = 0 := by decide
example : rangeMaxDD CanonExamples.SA (.node 3 [.node 1 [.leaf 5, .leaf 0], .leaf 3]) = 5 := by decide
/-- the identity relation `leaf 4`: 4 on the diagonal, 0 elsewhere -/
example : rangeMinDD CanonExamples.SB (.leaf 4) = 0 := by decide

end Arith

#print axioms Arith.arith_eval
#print axioms Arith.arith_error
#print axioms Arith.arith_error_iff
#print axioms Arith.arith_red
#print axioms Arith.arith_unique
#print axioms Arith.unary_eval
#print axioms Arith.unary_red
#print axioms Arith.range_max_spec
#print axioms Arith.range_min_spec
#print axioms DD.applyE2_eval_top
#print axioms DD.applyE2_error_iff
#print axioms DD.applyE2_unique
#print axioms DD.applyE2_answer
#print axioms Arith.plus_zero_shortcut
#print axioms DD.rangeFold_absorbs
#print axioms DD.rangeFold_attained
/- Output (Lean 4.33.0):
'Meddly.Arith.arith_eval' depends on axioms: [propext, Classical.choice, Quot.sound]
'Meddly.Arith.arith_error' depends on axioms: [propext, Quot.sound]
'Meddly.Arith.arith_error_iff' depends on axioms: [propext, Classical.choice, Quot.sound]
'Meddly.Arith.arith_red' depends on axioms: [propext, Classical.choice, Quot.sound]
'Meddly.Arith.arith_unique' depends on axioms: [propext, Classical.choice, Quot.sound]
'Meddly.Arith.unary_eval' depends on axioms: [propext, Classical.choice, Quot.sound]
'Meddly.Arith.unary_red' depends on axioms: [propext, Classical.choice, Quot.sound]
'Meddly.Arith.range_max_spec' depends on axioms: [propext, Quot.sound]
'Meddly.Arith.range_min_spec' depends on axioms: [propext, Quot.sound]
'Meddly.DD.applyE2_eval_top' depends on axioms: [propext, Classical.choice, Quot.sound]
'Meddly.DD.applyE2_error_iff' depends on axioms: [propext, Classical.choice, Quot.sound]
'Meddly.DD.applyE2_unique' depends on axioms: [propext, Classical.choice, Quot.sound]
'Meddly.DD.applyE2_answer' depends on axioms: [propext, Classical.choice, Quot.sound]
'Meddly.Arith.plus_zero_shortcut' depends on axioms: [propext, Classical.choice, Quot.sound]
'Meddly.DD.rangeFold_absorbs' depends on axioms: [propext, Quot.sound]
'Meddly.DD.rangeFold_attained' depends on axioms: [propext, Quot.sound]
-/

end Meddly
